"""C14 (pass level), stage 2: exporter from real Venom IR snapshots (text, as printed by the compiler) to the deep embedding
of coq/C14/Venom.v.  The text is parsed by the real vyper.venom.parser; nothing is guessed from regexes."""
import hashlib
import re

W = 2 ** 256
ALLOCA_BASE = 2 ** 36
ALLOCA_STRIDE = 2 ** 32
INITIAL_FMP = 2 ** 34          # = Venom.INITIAL_FMP
DATA_BASE = 0x8000             # virtual code address of the first data section
LABEL_BASE = 256               # = Venom.label_addr l - l

ARITH = ["add", "sub", "mul", "div", "sdiv", "mod", "smod", "exp", "addmod", "mulmod", "lt", "gt", "slt", "sgt", "eq", "iszero",
         "and", "or", "xor", "not", "byte", "shl", "shr", "sar", "signextend"]
SIMPLE = ARITH + ["assign", "calldatasize", "calldataload", "calldatacopy", "mload", "mstore", "mcopy", "sload", "sstore",
                  "tload", "tstore", "iload", "istore", "sha3", "log", "returndatasize", "returndatacopy", "nop", "codecopy",
                  "bump", "dalloca", "getfmp", "setfmp"]
EXTERNAL = ["call", "staticcall", "delegatecall", "create", "create2", "balance", "selfbalance", "extcodesize", "extcodehash",
            "extcodecopy"]
CONTROL = ["phi", "jmp", "jnz", "djmp", "assert", "assert_unreachable", "return", "revert", "stop", "invalid"]
# constant environment words (index = k of O_env k); only those whose value the harness controls on the EVM side
ENV = ["caller", "callvalue", "address", "origin", "timestamp", "number", "chainid"]
MODELLED = SIMPLE + EXTERNAL + CONTROL + ["alloca"] + ENV
# `istore`: the IR holds operands = [offset, val] (the value is on top of the stack, the generator emits SWAP1 MSTORE);
# Venom.v's eff_sem reads O_istore [p; v] offset first, so the internal order is kept (found by b-range's ISel proof)
NO_REVERSE = ("jmp", "jnz", "djmp", "phi", "dret", "retfmp", "istore")

_BOOL_T = re.compile(r"(?<=[ ,])True\b")
_BOOL_F = re.compile(r"(?<=[ ,])False\b")


class Unknowns:
    """stable numbering of out-of-core opcode names (O_unknown code)"""

    def __init__(self):
        self.names = []

    def code(self, name):
        if name not in self.names:
            self.names.append(name)
        return self.names.index(name)


UNKNOWN = Unknowns()


def parse(text):
    from vyper.venom.parser import parse_venom
    return parse_venom(_BOOL_T.sub("1", _BOOL_F.sub("0", text)))


def text_hash(text):
    return hashlib.sha1(text.encode()).hexdigest()[:16]


def _hex(n):
    return hex(n)


class Namer:
    """variable / label numbering shared by all snapshots of one function (so that equal instructions of two snapshots
    are equal terms, which the proved validators compare syntactically)"""

    def __init__(self, fn_index=None, fn_k=0, calls=True):
        self.var_ix, self.lab_ix = {}, {}
        self.fn_index = fn_index      # function name -> index of the function label (None: internal calls stay out of core)
        self.fn_k = fn_k              # index of this function (its allocas get a region of their own)
        self.calls = calls            # export invoke / ret / param with the call semantics of coq/C14/VenomCall.v


ARGBASE = 1048576          # = VenomCall.ARGBASE
FN_BASE = 2_000_000
INVOKE, RET = -1, -2       # = VenomCall.INVOKE / RET


def export_function(fn, data_segment=(), namer=None):
    """-> dict(term=<Coq term of type func>, n_inst, ops=set of opcode names, unknown=set, allocas=n)"""
    from vyper.venom.basicblock import IRLabel, IRLiteral, IRVariable
    namer = namer or Namer()
    var_ix, lab_ix = namer.var_ix, namer.lab_ix
    block_labels = {bb.label.value for bb in fn.get_basic_blocks()}
    # virtual code image: data sections laid out contiguously from DATA_BASE
    sec_base, cur = {}, DATA_BASE
    for sec in data_segment:
        sec_base[sec.label.value] = cur
        cur += sum(2 if isinstance(it.data, IRLabel) else len(it.data) for it in sec.data_items)

    def var(v):
        return var_ix.setdefault(v.value, len(var_ix) + 1)

    def lab(l):
        return lab_ix.setdefault(l.value, len(lab_ix) + 1)

    def operand(o):
        if isinstance(o, IRLiteral):
            return f"OLit {_hex(int(o.value) % W)}"
        if isinstance(o, IRVariable):
            return f"OVar {var(o)}"
        if isinstance(o, IRLabel):
            return f"OLab {lab(o)}"
        raise ValueError(f"operand {o!r}")

    n_alloca = 0
    n_param = 0
    retpc_param = None
    if namer.calls and namer.fn_index is not None:
        try:
            from vyper.venom.call_layout import FunctionCallLayout
            retpc_param = FunctionCallLayout(fn).return_pc_param
        except Exception:  # noqa
            retpc_param = None
    n_inst = 0
    ops, unknown = set(), set()
    blocks = []
    lab(fn.entry.label)
    for bb in fn.get_basic_blocks():
        insts = []
        for inst in bb.instructions:
            op = inst.opcode
            n_inst += 1
            ops.add(op)
            outs = "[" + "; ".join(f"{var(o)}%positive" for o in inst.get_outputs()) + "]"
            if namer.calls and namer.fn_index is not None:
                if op in ("param", "fmp_param", "retpc_param") and bb is fn.entry and len(inst.get_outputs()) == 1:
                    # VenomCall.v: the k-th argument-consuming param is a copy from the reserved variable ARGBASE + k, the
                    # return-pc param the constant 0
                    if inst is retpc_param:
                        insts.append(f"Inst {outs} O_assign [OLit 0]")
                    else:
                        insts.append(f"Inst {outs} O_assign [OVar {ARGBASE + n_param}]")
                        n_param += 1
                    continue
                if op == "invoke" and isinstance(inst.operands[0], IRLabel) and inst.operands[0].value in namer.fn_index:
                    a_ = [f"OLab {FN_BASE + namer.fn_index[inst.operands[0].value]}"] + [operand(o) for o in inst.operands[1:]]
                    insts.append(f"Inst {outs} (O_unknown ({INVOKE})) [" + "; ".join(a_) + "]")
                    continue
                if op == "ret":
                    insts.append(f"Inst {outs} (O_unknown ({RET})) [" + "; ".join(operand(o) for o in inst.operands) + "]")
                    continue
                if op == "assign" and len(inst.operands) == 1 and isinstance(inst.operands[0], IRLabel):
                    # a code address (the return pc bound to a param by the inliner); return pcs are not modelled: constant
                    insts.append(f"Inst {outs} O_assign [OLit 0]")
                    continue
            if op == "alloca":
                # the region is named after the output variable (stable across the snapshots of a function) and the function
                addr = ALLOCA_BASE + (namer.fn_k * 2 ** 20 + var(inst.get_outputs()[0])) * ALLOCA_STRIDE
                n_alloca += 1
                insts.append(f"Inst {outs} O_alloca [OLit {_hex(addr)}]")
                continue
            if op == "initial_fmp":
                insts.append(f"Inst {outs} O_alloca [OLit {_hex(INITIAL_FMP)}]")
                continue
            if op == "offset":
                # printed `offset @label, k`: a static code address; resolved in the virtual code image
                k_op, l_op = inst.operands
                if isinstance(l_op, IRLabel) and isinstance(k_op, IRLiteral) and l_op.value in sec_base:
                    insts.append(f"Inst {outs} O_assign [OLit {_hex(sec_base[l_op.value] + int(k_op.value))}]")
                    continue
                if isinstance(l_op, IRLabel) and isinstance(k_op, IRLiteral) and l_op.value in block_labels:
                    insts.append(f"Inst {outs} O_assign [OLit {_hex(LABEL_BASE + lab(l_op) + int(k_op.value))}]")
                    continue
            operands = list(inst.operands) if op in NO_REVERSE else list(reversed(inst.operands))
            if op == "invoke":
                operands = list(inst.operands)
            args = "[" + "; ".join(operand(o) for o in operands) + "]"
            if op in ENV:
                con = f"(O_env {ENV.index(op)})"
            elif op in MODELLED:
                con = "O_" + op
            else:
                unknown.add(op)
                con = f"(O_unknown {UNKNOWN.code(op)})"
            insts.append(f"Inst {outs} {con} {args}")
        blocks.append(f"({lab(bb.label)}%positive, [" + ";\n    ".join(insts) + "])")
    segs = []
    for sec in data_segment:
        bs = []
        for it in sec.data_items:
            if isinstance(it.data, IRLabel):
                if it.data.value in sec_base:
                    bs += list(sec_base[it.data.value].to_bytes(2, "big"))      # address of another data section
                elif it.data.value not in block_labels:
                    bs += [0xff, 0xff]          # label outside this function: never a valid djmp target
                else:
                    bs += list((LABEL_BASE + lab(it.data)).to_bytes(2, "big"))
            else:
                bs += list(it.data)
        segs.append(f"({_hex(sec_base[sec.label.value])}, {coq_bytes(bs)})")
    term = (f"func_of {lab_ix[fn.entry.label.value]}%positive\n  [" + ";\n   ".join(blocks) + "]\n  [" + "; ".join(segs) + "]")
    return {"term": term, "n_inst": n_inst, "ops": ops, "unknown": unknown, "allocas": n_alloca}


def export_text(text, namer=None):
    """snapshot text of ONE function -> export dict, or None when the parser rejects the text"""
    try:
        ctx = parse(text)
    except Exception:  # noqa
        return None
    fns = list(ctx.functions.values())
    if len(fns) != 1:
        return None
    return export_function(fns[0], ctx.data_segment, namer)


def coq_bytes(b):
    return "[" + "; ".join(str(x) for x in b) + "]"


def coq_env(calldata, words, hashes):
    """words: dict name -> int for ENV"""
    ws = "[" + "; ".join(_hex(words.get(n, 0) % W) for n in ENV) + "]"
    hs = "[" + "; ".join(f"({coq_bytes(k)}, {_hex(v)})" for k, v in hashes) + "]"
    return f"(mkEnv {coq_bytes(calldata)} {ws} {hs} 0 [])"


def coq_store(sto):
    return "(store_of [" + "; ".join(f"({_hex(k)}, {_hex(v)})" for k, v in sorted(sto.items())) + "])"


class PBytes(list):
    """byte list that may contain the poison byte -1 (uninitialised memory in Venom.v)"""

    def hex(self):
        return "".join("??" if x < 0 else f"{x:02x}" for x in self)

    def __eq__(self, other):
        return list(self) == list(other)

    def __ne__(self, other):
        return not self.__eq__(other)


def decode_render(zs):
    """inverse of Venom.render -> dict(code, data(bytes), logs[(topics, data)], sto{}, tra{})"""
    it = iter(zs)
    code = next(it)
    n = next(it)
    data = PBytes(next(it) for _ in range(n))
    logs = []
    for _ in range(next(it)):
        nt = next(it)
        topics = [next(it) for _ in range(nt)]
        nd = next(it)
        logs.append((topics, PBytes(next(it) for _ in range(nd))))
    maps = []
    for _ in range(2):
        m = {}
        for _ in range(next(it)):
            k = next(it)
            m[k] = next(it)
        maps.append(m)
    return {"code": code, "data": data, "logs": logs, "sto": maps[0], "tra": maps[1]}
