"""C02: hand-over x re-entry family.

Every instruction that hands control to foreign code (CALL via extcall / raw_call / raw_call(value=), STATICCALL via staticcall /
raw_call(is_static_call), DELEGATECALL, CREATE / CREATE2 via raw_create / create_from_blueprint / create_minimal_proxy_to /
create_copy_of, the same behind an internal function = Venom `invoke`, and `send`) is crossed with every kind of caller state
the foreign code can get at by RE-ENTERING the caller (storage, transient storage, balance) and with the shapes in which the
caller touches that state on both sides of the hand-over:

  same_expr   X ... H ... X inside one expression            later_stmt   a = X; h = H; b = X
  across_if   a = X; if flag: h = H; b = X                   write_read   X = v; h = H; return X
  rmw_after   X = v; h = H; X += 1                           loop         for i in range(2): acc = acc * 1000 + X; h = H
  dead_store  X = v; h = H; X = w   (the re-entered code LOGS what it sees, so a dropped first store is observable)

The foreign code is a reactor contract whose functions call back into msg.sender (`poke(k)`: logs what it sees, then adds k to
the storage and transient cells and sends k wei away; `peek()`: a view of all three), a library that does the same under
DELEGATECALL, and a child contract whose CONSTRUCTOR calls `poke(k)` on its creator (re-entrancy through CREATE).  Which side
of the hand-over a read or write is compiled on must not depend on the code generator, level, flags or EVM target: every
program runs under a set of configurations and all observations (status, return data, ordered logs, final storage,
balances) must agree.  Nothing here is specific to one compiler file: a code generator that believes any of these
instructions leaves any of these state kinds alone (effects tables, load/store forwarding, CSE, DSE, scheduling) disagrees
with one that does not.
"""
import eth_abi
from eth_utils import keccak, to_checksum_address

from vlib import c02_runner as R
from vlib.configs import Config, compile_src
from vlib.evm import Chain, DEPLOYER

SINK = "0x" + "5e" * 20
PARENT_FUNDS = 10 ** 18 + 500

REACTOR = """
interface Parent:
    def poke(k: uint256) -> uint256: nonpayable
    def peek() -> uint256: view

@external
def react(k: uint256) -> uint256:
    return (extcall Parent(msg.sender).poke(k)) + 7

@external
@view
def look() -> uint256:
    return staticcall Parent(msg.sender).peek()

@external
@payable
def __default__():
    extcall Parent(msg.sender).poke(msg.value % 10 + 1)
"""

CHILD = """
interface Parent:
    def poke(k: uint256) -> uint256: nonpayable

@deploy
@payable
def __init__(k: uint256):
    extcall Parent(msg.sender).poke(k)
"""


def lib_src(tra):
    return f"""
event Poked:
    s: uint256
    t: uint256
    b: uint256
    k: uint256

s: uint256
{'t: transient(uint256)' if tra else ''}

@external
@payable
def dpoke(k: uint256) -> uint256:
    log Poked(s=self.s, t={'self.t' if tra else '0'}, b=self.balance % 1000, k=k)
    self.s += k
    {'self.t += k' if tra else 'pass'}
    send({to_checksum_address(SINK)}, k)
    return self.s + 3
"""


# ------------------------------------------------------------------------------------------------ hand-over kinds
class H:
    """name, expression of type uint256 that performs the hand-over (k, salt, initcode in scope), state kinds the foreign
    code can modify through it, whether it needs the child init code / a salt (a CREATE2 address depends on the init code,
    which differs per EVM target, so the salted forms yield only whether an address came back)"""

    def __init__(self, name, expr, modifies, initcode=False, salt=False, reads_only=False):
        self.name, self.expr, self.modifies, self.initcode, self.salt, self.reads_only = name, expr, modifies, initcode, salt, reads_only


ALL3 = ("s", "t", "b")
HANDOVERS = [
    H("extcall", "extcall Reactor(REACTOR).react(k)", ALL3),
    H("raw_call", 'convert(raw_call(REACTOR, abi_encode(k, method_id=method_id("react(uint256)")), max_outsize=32), uint256)', ALL3),
    H("raw_call_value", "convert(raw_call(REACTOR, b\"\", value=k, revert_on_failure=False), uint256)", ALL3),
    H("delegatecall", 'convert(raw_call(LIB, abi_encode(k, method_id=method_id("dpoke(uint256)")), max_outsize=32, is_delegate_call=True), uint256)', ALL3),
    H("staticcall", "staticcall Reactor(REACTOR).look()", (), reads_only=True),
    H("raw_staticcall", 'convert(raw_call(REACTOR, method_id("look()"), max_outsize=32, is_static_call=True), uint256)', (), reads_only=True),
    H("raw_create", "convert(raw_create(initcode, k), uint256)", ALL3, initcode=True),
    H("raw_create2", "convert(raw_create(initcode, k, salt=salt) != empty(address), uint256)", ALL3, initcode=True, salt=True),
    H("blueprint", "convert(create_from_blueprint(BLUEPRINT, k), uint256)", ALL3),
    H("blueprint2", "convert(create_from_blueprint(BLUEPRINT, k, salt=salt) != empty(address), uint256)", ALL3, salt=True),
    H("blueprint_value", "convert(create_from_blueprint(BLUEPRINT, k, value=k), uint256)", ALL3),
    H("minimal_proxy_value", "convert(create_minimal_proxy_to(LIB, value=k), uint256)", ("b",)),
    H("copy_of_value", "convert(create_copy_of(LIB, value=k, salt=salt) != empty(address), uint256)", ("b",), salt=True),
    H("internal_extcall", "self._h_ext(k)", ALL3),
    H("internal_create", "self._h_new(k)", ALL3),
    H("send", "self._h_send(k)", ("b",)),
]
HBY = {h.name: h for h in HANDOVERS}

READ = {"s": "self.s", "t": "self.t", "b": "(self.balance % 1000)"}
SHAPES_READ = ("same_expr", "later_stmt", "across_if", "loop")
SHAPES_WRITE = ("write_read", "rmw_after", "dead_store")


def applicable(h, st, shape):
    if st == "b" and shape in SHAPES_WRITE:
        return False          # the balance is written only by hand-overs themselves
    if shape == "loop" and h.salt:
        return False          # the same salt twice collides
    if h.reads_only:
        # read-only re-entry: what matters is that the foreign code SEES the caller's earlier writes
        return st != "b" and shape in ("dead_store", "write_read", "later_stmt")
    if st not in h.modifies:
        return False
    return True


def sig(h):
    return "k: uint256, salt: bytes32, flag: bool" + (", initcode: Bytes[1024]" if h.initcode else "")


def abi_sig(name, h):
    return f"{name}(uint256,bytes32,bool" + (",bytes)" if h.initcode else ")")


def fn_src(name, h, st, shape, v, w):
    X, Hx = READ[st], h.expr
    cell = {"s": "self.s", "t": "self.t"}.get(st)
    head = f"@external\n@payable\ndef {name}({sig(h)}) -> uint256:\n"
    if shape == "same_expr":
        body = f"    return {X} * 1000000 + (({Hx}) % 1000) * 1000 + {X}\n"
    elif shape == "later_stmt":
        body = f"    a: uint256 = {X}\n    h: uint256 = {Hx}\n    b: uint256 = {X}\n    return a * 1000000 + (h % 1000) * 1000 + b\n"
    elif shape == "across_if":
        body = (f"    a: uint256 = {X}\n    h: uint256 = 0\n    if flag:\n        h = {Hx}\n    b: uint256 = {X}\n"
                f"    return a * 1000000 + (h % 1000) * 1000 + b\n")
    elif shape == "loop":
        body = (f"    acc: uint256 = 0\n    h: uint256 = 0\n    for i: uint256 in range(2):\n        acc = acc * 1000 + {X}\n"
                f"        h += ({Hx}) % 1000\n    return (acc * 1000 + {X}) * 10000 + h\n")
    elif shape == "write_read":
        body = f"    {cell} = {v}\n    h: uint256 = {Hx}\n    return {cell} * 1000 + h % 1000\n"
    elif shape == "rmw_after":
        body = f"    {cell} = {v}\n    h: uint256 = {Hx}\n    {cell} += 1\n    return {cell} * 1000 + h % 1000\n"
    elif shape == "dead_store":
        body = f"    {cell} = {v}\n    h: uint256 = {Hx}\n    {cell} = {w}\n    return h % 1000\n"
    else:
        raise ValueError(shape)
    return head + body


def parent_src(fns, tra, addrs):
    """fns: list of (name, handover, state, shape, v, w)"""
    reactor, lib, blueprint = (to_checksum_address(a) for a in addrs)
    out = [f"""
interface Reactor:
    def react(k: uint256) -> uint256: nonpayable
    def look() -> uint256: view

event Poked:
    s: uint256
    t: uint256
    b: uint256
    k: uint256

s: public(uint256)
{'t: transient(uint256)' if tra else ''}

REACTOR: constant(address) = {reactor}
LIB: constant(address) = {lib}
BLUEPRINT: constant(address) = {blueprint}

@external
@payable
def __default__():
    pass

@external
def poke(k: uint256) -> uint256:
    log Poked(s=self.s, t={'self.t' if tra else '0'}, b=self.balance % 1000, k=k)
    self.s += k
    {'self.t += k' if tra else 'pass'}
    send({to_checksum_address(SINK)}, k)
    return self.s

@external
@view
def peek() -> uint256:
    return (self.s << 128) | ({'self.t' if tra else '0'} << 64) | (self.balance % 1000)

@internal
def _h_ext(k: uint256) -> uint256:
    return extcall Reactor(REACTOR).react(k)

@internal
def _h_new(k: uint256) -> uint256:
    return convert(create_from_blueprint(BLUEPRINT, k), uint256)

@internal
def _h_send(k: uint256) -> uint256:
    send({to_checksum_address(SINK)}, k)
    return k
"""]
    for name, hn, st, shape, v, w in fns:
        out.append(fn_src(name, HBY[hn], st, shape, v, w))
    return "\n".join(out)


# ------------------------------------------------------------------------------------------------ the family of a run
def cases(rng, tier, tra):
    """(handover, state, shape) triples of this run.  Every applicable (hand-over, state) pair always gets the two shapes that
    decide the two directions (later_stmt: a read after the hand-over must see the foreign write; dead_store / write_read:
    the foreign code must see the caller's write) -- quick: plus one more shape drawn per seed, thorough: all shapes."""
    out = []
    for h in HANDOVERS:
        for st in ALL3:
            if st == "t" and not tra:
                continue
            shapes = [s for s in SHAPES_READ + SHAPES_WRITE if applicable(h, st, s)]
            if not shapes:
                continue
            if tier in ("quick", "quick-min"):
                must = [s for s in ("later_stmt", "dead_store") if s in shapes]
                rest = [s for s in shapes if s not in must]
                pick = must + ([rng.choice(rest)] if rest and tier == "quick" else []) if must else [rng.choice(rest)]
            else:
                pick = shapes
            out += [(h.name, st, s) for s in pick]
    return out


def build_programs(rng, tier, tra, addrs, per=14):
    cs = cases(rng, tier, tra)
    rng.shuffle(cs)
    progs = []
    for k in range(0, len(cs), per):
        fns = []
        for i, (hn, st, shape) in enumerate(cs[k:k + per]):
            v = rng.choice([0, 1, 5, 10, 20, 99, 500])
            w = rng.choice([x for x in (0, 2, 7, 30, 777) if x != v])
            fns.append((f"f{i}_{hn}_{st}_{shape}", hn, st, shape, v, w))
        progs.append({"fns": fns, "tra": tra, "src": parent_src(fns, tra, addrs)})
    return progs


def make_plan(prog, rng, rounds=2):
    """every test function `rounds` times (fresh k, fresh salt, flag true first), the storage getter after each call"""
    plan = []
    n = 0
    getter = keccak(b"s()")[:4]
    for rd in range(rounds):
        order = list(prog["fns"])
        if rd:
            rng.shuffle(order)
        for name, hn, st, shape, v, w in order:
            h = HBY[hn]
            n += 1
            k = rng.choice([1, 2, 3, 5, 9])
            salt = n.to_bytes(32, "big")
            flag = rd == 0 or rng.random() < 0.5
            plan.append({"name": name, "k": k, "salt": salt, "flag": flag, "initcode": h.initcode, "sig": abi_sig(name, h),
                         "value": rng.choice([0, 0, 3]), "sender": DEPLOYER})
            plan.append({"name": "s", "raw": getter, "value": 0, "sender": DEPLOYER})
    return plan


def encode_call(c, child_init):
    if "raw" in c:
        return c["raw"]
    tys = ["uint256", "bytes32", "bool"] + (["bytes"] if c["initcode"] else [])
    vals = [c["k"], c["salt"], c["flag"]] + ([child_init] if c["initcode"] else [])
    return keccak(c["sig"].encode())[:4] + eth_abi.encode(tys, vals)


# ------------------------------------------------------------------------------------------------ running
_aux_cache = {}


def aux_code(evm, tra):
    """reactor, library, child blueprint and child init code: compiled once per EVM target by the reference generator"""
    key = (evm, tra)
    if key not in _aux_cache:
        ref = Config(False, "gas", evm)
        hx = lambda s: bytes.fromhex(s[2:])
        child = compile_src(CHILD, ref, formats=("bytecode", "blueprint_bytecode"))
        _aux_cache[key] = {
            "reactor": hx(compile_src(REACTOR, ref, formats=("bytecode",))["bytecode"]),
            "lib": hx(compile_src(lib_src(tra), ref, formats=("bytecode",))["bytecode"]),
            "blueprint": hx(child["blueprint_bytecode"]),
            "child": hx(child["bytecode"]),
        }
    return _aux_cache[key]


def addresses():
    """(reactor, lib, blueprint, parent): fixed by the deployer's nonces"""
    ch = Chain("cancun")
    return tuple(ch.set_code(None, b"\x00") for _ in range(4))


class HSession(R.Session):
    def __init__(self, src, cfg, tra):
        from vlib.c01_harness import check_target_opcodes
        self.out = compile_src(src, cfg, formats=("bytecode", "layout", "asm", "asm_runtime"))
        check_target_opcodes(self.out, cfg.evm)
        self.abi = None
        self.chain = Chain(cfg.evm)
        aux = aux_code(cfg.evm, tra)
        self.helper = self.chain.deploy(aux["reactor"])
        self.lib = self.chain.deploy(aux["lib"])
        self.blueprint = self.chain.deploy(aux["blueprint"])
        if None in (self.helper, self.lib, self.blueprint):
            raise RuntimeError("auxiliary contract deployment failed")
        self.child = aux["child"]
        self.addr = self.chain.deploy(bytes.fromhex(self.out["bytecode"][2:]))
        if self.addr is not None:
            self.chain.evm.set_balance(self.addr, PARENT_FUNDS)


def observe(src, cfg, plan, tra):
    s = HSession(src, cfg, tra)
    if s.addr is None:
        return {"deployed": False, "results": [], "state": None}
    calls = [{"data": encode_call(c, s.child), "value": c["value"], "sender": c["sender"]} for c in plan]
    res = s.run(calls)
    st, bal = s.final_state()
    bal["sink"] = s.chain.evm.get_balance(SINK)
    return {"deployed": True, "results": res, "state": (st, bal)}


def single_program(prog, name, addrs):
    fns = [f for f in prog["fns"] if f[0] == name]
    return {"fns": fns, "tra": prog["tra"], "src": parent_src(fns, prog["tra"], addrs)}
