"""C07: payability guard of the entry points.

(1) value family: boundary-biased call values with which every entry point (each default-argument variant, and
    __default__) is probed in every dispatcher strategy; expected outcomes come from spec_dispatch in Coq.
(2) syntactic tie of the Coq guard templates (C07/PayGuard.v, theorems in C07/PropsPay.v) to the IR the six real
    selector-section generators emit for the payable / non-payable + calldatasize check of every entry point and of
    __default__ (see `part_guard_tie`).
"""
WORD = 2**256
RICH = 10**29            # vlib.evm.Chain funds the sender with 10**30


def value_family(rnd, tier):
    """Boundary-biased call values: small (both parities), single bits 2**k, 2**k +- 1, decimal units (gwei, ether),
    values whose low byte / low half is zero, the largest words, seeded random words of both parities."""
    ks = {1, 2, 8, 16, 32, 64, 128, 255}
    ks |= set(range(256)) if tier == "thorough" else {rnd.randrange(1, 256) for _ in range(2)}
    vals = {0, 1, 2, 3, 4, 6, 256, 10**9, 10**18, 10**18 + 1, 2**128 - 1, 2**255 + 2, WORD - 1, WORD - 2,
            0xFFFF0000, (WORD - 1) ^ 0xFF, (WORD - 1) ^ (2**128 - 1)}
    for k in ks:
        vals.add(2**k)
        if k in (64, 255) or (tier == "thorough" and k in (8, 128)):
            vals.update({2**k + 1, 2**k - 1})
    for _ in range(2 if tier == "quick" else 24):
        r = rnd.randrange(1, WORD)
        vals.update({r | 1, r & ~1 or 2, (r >> rnd.randrange(0, 250)) & ~1 or 4})
    return sorted(v for v in vals if 0 <= v < WORD)


def value_calls(rnd, es, tier, full_entries=4):
    """Calls (prefix bytes, total length, value) probing the payability guard.
    es: entry points (method_id, payable, min_calldatasize, target, sig) in the compiler's order.
    Every entry point gets non-zero values of both parities (2, seeded even / odd / any family members) at its exact
    minimal calldata; `full_entries` of them (distinct (payable, no-argument, default-argument variant, trailing-zero
    selector) classes first; thorough: three times as many) and the empty-calldata fallback path get the whole family."""
    fam = value_family(rnd, tier)
    nonzero = [v for v in fam if v]
    even = [v for v in nonzero if v % 2 == 0]
    odd = [v for v in nonzero if v % 2 == 1 and v > 1]
    calls = set()
    order = list(range(len(es)))
    rnd.shuffle(order)
    seen_cls, full = set(), []
    by_fn = {}
    for e in es:
        by_fn[e[3][0]] = by_fn.get(e[3][0], 0) + 1
    for i in order:
        mid, payable, mincds, tgt, _s = es[i]
        cls = (payable, mincds == 4, by_fn[tgt[0]] > 1 and tgt[1] < by_fn[tgt[0]] - 1, mid & 0xFF == 0)
        if cls not in seen_cls:
            seen_cls.add(cls)
            full.append(i)
    # non-payable classes first: they are the ones the guard must refuse
    full.sort(key=lambda i: es[i][1])
    full = set((full + [i for i in order if i not in set(full)])[:3 * full_entries] if tier == "thorough" else full[:full_entries])
    for i, (mid, payable, mincds, _t, _s) in enumerate(es):
        idb = mid.to_bytes(4, "big")
        if i in full:
            for v in fam:
                calls.add((idb, mincds, v))
            for v in (2, rnd.choice(even), rnd.choice(odd)):
                calls.add((idb, mincds + 32, v))          # extra trailing word
                if mincds > 4:
                    calls.add((idb, mincds - 1, v))        # both guards fail / only the calldatasize guard (payable)
        else:
            for v in {2, rnd.choice(even), rnd.choice(even), rnd.choice(odd), rnd.choice(nonzero)}:
                calls.add((idb, mincds, v))
    # fallback paths: no calldata (whole family); short calldata, unknown selector (a few of both parities)
    unknown = next(x for x in (0xDEADBEEF, 0xDEADBEF0, 0x0BADF00D, 0x0BADF00E) if all(e[0] != x for e in es))
    for v in fam:
        calls.add((b"", 0, v))
    for v in {2, 2**128, 10**18, WORD - 2, rnd.choice(even), rnd.choice(even), rnd.choice(odd), rnd.choice(odd)}:
        calls.add((unknown.to_bytes(4, "big"), 4, v))
    for v in (2, rnd.choice(even), rnd.choice(odd)):
        calls.add((b"\x00", 1, v))
        calls.add((unknown.to_bytes(4, "big"), 36, v))
        if es:
            calls.add((es[0][0].to_bytes(4, "big")[:3], 3, v))
    # every unmatched-call path with value: 2-byte calldata, a real selector truncated to 1 / 2 / 3 bytes (of a
    # non-payable and of a payable entry point when there is one): the outcome depends on __default__ alone
    for v in (2, rnd.choice(odd), rnd.choice(even)):
        calls.add((b"\xaa\xbb", 2, v))
        calls.add((b"\xaa\xbb\xcc", 3, v))
        for pay in (False, True):
            e = next((x for x in es if bool(x[1]) == pay), None)
            if e is not None:
                for k in (1, 2, 3):
                    calls.add((e[0].to_bytes(4, "big")[:k], k, v))
    return sorted(calls)


def fund(ch, addr, value, sender=None):
    """Make a call with `value` possible whatever happened before (pyrevm commits transfers): the sender holds the
    largest word for huge values (else the default funding) and the callee nothing (no balance overflow)."""
    if value:
        from vlib import evm
        ch.evm.set_balance(sender or evm.DEPLOYER, WORD - 1 if value >= RICH else 10 * RICH)
        ch.evm.set_balance(addr, 0)


def halted(res):
    """A pyrevm failure that is not a REVERT/INVALID of the callee (e.g. the harness could not fund the call)."""
    return (not res.ok) and bool(res.logs) and isinstance(res.logs[0], tuple) and res.logs[0][0] == "halt" \
        and ("OutOfFund" in str(res.logs[0][1]) or "LackOfFund" in str(res.logs[0][1]) or "Overflow" in str(res.logs[0][1]))


# ======================================================================================================
# (2) syntactic tie: the guard arm of every entry point, extracted from what the real generators emit
# ======================================================================================================
LEGACY_FNS = {"_selector_section_linear": 0, "_selector_section_sparse": 1, "_selector_section_dense": 2}
VENOM_FNS = {"_generate_selector_section_linear": 0, "_generate_selector_section_sparse": 1,
             "_generate_selector_section_dense": 2}
OPS1 = {"iszero": "OIszero"}
OPS2 = {"or": "OOr", "and": "OAnd", "mul": "OMul", "lt": "OLt", "gt": "OGt", "ge": "OGe", "eq": "OEq", "shr": "OShr"}
BAD = "GBad"


class ExtractError(Exception):
    pass


class GuardSpy:
    """Captures, for one compilation, what the selector-section generator of the configured pipeline emitted:
    legacy: the IR it returns (before any optimisation) + the IR of __default__ (_ir_for_fallback_or_ctor);
    venom: a snapshot (arms already extracted) of the function under construction at the moment the generator returns."""

    def __enter__(self):
        import importlib
        self.saved = []
        self.legacy = []      # (strategy code, returned IR)
        self.legacy_fb = []   # IR of __default__
        self.legacy_ctor = []  # IR of __init__ (same generator function, same guard)
        self.venom = []       # (strategy code, extracted dict or ExtractError)
        lm = importlib.import_module("vyper.codegen.module")
        vm = importlib.import_module("vyper.codegen_venom.module")
        for fn, code in LEGACY_FNS.items():
            orig = getattr(lm, fn)
            self.saved.append((lm, fn, orig))

            def wrap(*a, _o=orig, _c=code, **kw):
                r = _o(*a, **kw)
                self.legacy.append((_c, r))
                return r
            setattr(lm, fn, wrap)
        orig = lm._ir_for_fallback_or_ctor
        self.saved.append((lm, "_ir_for_fallback_or_ctor", orig))

        def wrap_fb(func_ast, *a, _o=orig, **kw):
            r = _o(func_ast, *a, **kw)
            if func_ast.name == "__default__":
                self.legacy_fb.append(r)
            elif func_ast.name == "__init__":
                self.legacy_ctor.append(r)
            return r
        lm._ir_for_fallback_or_ctor = wrap_fb
        for fn, code in VENOM_FNS.items():
            orig = getattr(vm, fn)
            self.saved.append((vm, fn, orig))

            def wrapv(builder, *a, _o=orig, _c=code, **kw):
                r = _o(builder, *a, **kw)
                try:
                    self.venom.append((_c, venom_snapshot(builder, _c)))
                except Exception as e:  # noqa  (fail closed: reported as a broken tie)
                    self.venom.append((_c, ExtractError(f"{type(e).__name__}: {e}")))
                return r
            setattr(vm, fn, wrapv)
        return self

    def __exit__(self, *a):
        for mod, fn, orig in reversed(self.saved):
            setattr(mod, fn, orig)


# ---------------- legacy s-expressions ----------------
def _is_irnode(n):
    return hasattr(n, "args") and hasattr(n, "value") and not isinstance(n, (list, tuple, str, bytes, int))


def _head(n):
    if _is_irnode(n):
        return n.value
    if isinstance(n, (list, tuple)):
        return _head(n[0]) if n else None
    return n


def _args(n):
    if _is_irnode(n):
        return list(n.args)
    if isinstance(n, (list, tuple)):
        return list(n[1:])
    return []


def conv_legacy(n):
    h, a = _head(n), _args(n)
    if isinstance(h, bool):
        return BAD
    if isinstance(h, int) and not a:
        return f"(GLit {hex(h)})" if h >= 0 else BAD
    if a == []:
        return {"callvalue": "GCallvalue", "calldatasize": "GCalldatasize", "func_info": "GInfo",
                "_calldata_method_id": "GMid"}.get(h, BAD)
    if h in OPS1 and len(a) == 1:
        return f"(G1 {OPS1[h]} {conv_legacy(a[0])})"
    if h in OPS2 and len(a) == 2:
        return f"(G2 {OPS2[h]} {conv_legacy(a[0])} {conv_legacy(a[1])})"
    return BAD


def _eq_mid(test):
    """method id of a test `(eq _calldata_method_id <id>)`, possibly under `(and (ge calldatasize 4) .)`"""
    h, a = _head(test), _args(test)
    if h == "eq" and len(a) == 2 and _head(a[0]) == "_calldata_method_id" and isinstance(_head(a[1]), int) and not _args(a[1]):
        return _head(a[1])
    if h == "and" and len(a) == 2:
        return _eq_mid(a[1])
    return None


def _walk_ifs(n, out, depth=0):
    if depth > 60 or not (_is_irnode(n) or isinstance(n, (list, tuple))):
        return
    if _head(n) == "if":
        a = _args(n)
        mid = _eq_mid(a[0]) if a else None
        if mid is not None and len(a) >= 2:
            out.append((mid, a[1]))
            return
    for x in _args(n):
        _walk_ifs(x, out, depth + 1)


def _seq_stmts(n):
    return _args(n) if _head(n) == "seq" else [n]


def arm_of_stmts(stmts):
    """leading `assert <guard vocabulary>` statements, then whatever follows = the entry point's code"""
    arm = []
    for s in stmts:
        if _head(s) == "assert" and len(_args(s)) == 1:
            e = conv_legacy(_args(s)[0])
            if BAD not in e:
                arm.append(f"SAssert {e}")
                continue
        arm.append("SEnter")
        break
    return arm


def _find_djump_seq(n, depth=0):
    if depth > 60 or not (_is_irnode(n) or isinstance(n, (list, tuple))):
        return None
    if _head(n) == "seq" and any(_head(x) == "djump" for x in _args(n)) and any(_head(x) == "if" for x in _args(n)):
        return n
    for x in _args(n):
        r = _find_djump_seq(x, depth + 1)
        if r is not None:
            return r
    return None


def _find_data(n, out, depth=0):
    if depth > 8 or not (_is_irnode(n) or isinstance(n, (list, tuple))):
        return
    if _head(n) == "data":
        out.append(n)
        return
    if _head(n) in ("seq", "with"):
        for x in _args(n):
            _find_data(x, out, depth + 1)


def _bytes_of(n):
    h = _head(n)
    return h if isinstance(h, bytes) else None


def legacy_extract(code, ret):
    """-> {"arms": {method_id: [stmt...]}} (linear, sparse) or {"dense_arm": [...], "meta": {method_id: int}}"""
    if code in (0, 1):
        found = []
        _walk_ifs(ret, found)
        arms = {}
        for mid, then in found:
            if mid in arms:
                raise ExtractError(f"method id {hex(mid)} is tested twice")
            arms[mid] = arm_of_stmts(_seq_stmts(then))
        return {"arms": arms}
    x = _find_djump_seq(ret)
    if x is None:
        raise ExtractError("no (seq (if ..) (assert ..) (djump ..)) in the dense selector section")
    arm = []
    for s in _args(x):
        h, a = _head(s), _args(s)
        if h == "if" and len(a) == 2 and _head(a[1]) == "goto" and [_head(t) for t in _args(a[1])] == ["fallback"]:
            arm.append(f"SFallbackIf {conv_legacy(a[0])}")
        elif h == "assert" and len(a) == 1:
            arm.append(f"SAssert {conv_legacy(a[0])}")
        elif h == "djump" and a:
            arm.append(f"SEnterLabel {conv_legacy(a[0])}")
            break
        else:
            arm.append(f"SAssert {BAD}")
    datas = []
    _find_data(ret, datas)
    meta = {}
    for d in datas:
        a = _args(d)
        if not a or not str(_head(a[0])).startswith("bucket_"):
            continue
        items = a[1:]
        if len(items) % 3:
            raise ExtractError("function-info data is not a sequence of (method id, label, metadata) triples")
        for i in range(0, len(items), 3):
            mb, fb_ = _bytes_of(items[i]), _bytes_of(items[i + 2])
            if mb is None or fb_ is None or len(mb) != 4:
                raise ExtractError("unexpected function-info data item")
            meta[int.from_bytes(mb, "big")] = (int.from_bytes(fb_, "big"), len(fb_))
    return {"dense_arm": arm, "meta": meta}


def legacy_fallback_arm(ir):
    return arm_of_stmts(_seq_stmts(ir))


# ---------------- venom ----------------
PURE = set(OPS1) | set(OPS2) | {"callvalue", "calldatasize", "calldataload", "assign"}


def venom_snapshot(builder, code):
    from vyper.venom.basicblock import IRLabel, IRLiteral, IRVariable
    fn = builder.fn
    blocks = list(fn.get_basic_blocks())
    defs = {}
    for bb in blocks:
        for inst in bb.instructions:
            for o in inst.get_outputs():
                defs[o] = inst
    info = {"inst": None}     # dense: the mload of the function-info word (last mload of the dispatch block)

    def sem_ops(inst):
        return list(reversed(inst.operands))

    def conv(op, depth=0):
        if depth > 40:
            return BAD
        if isinstance(op, IRLiteral):
            return f"(GLit {hex(op.value)})" if op.value >= 0 else BAD
        if not isinstance(op, IRVariable) or op not in defs:
            return BAD
        inst = defs[op]
        oc, ops = inst.opcode, sem_ops(inst)
        if oc == "assign" and len(ops) == 1:
            return conv(ops[0], depth + 1)
        if oc == "callvalue":
            return "GCallvalue"
        if oc == "calldatasize":
            return "GCalldatasize"
        if oc == "mload":
            return "GInfo" if inst is info["inst"] else BAD
        if oc == "shr" and len(ops) == 2 and isinstance(ops[0], IRLiteral) and ops[0].value == 224 and is_cdl0(ops[1]):
            return "GMid"
        if oc in OPS1 and len(ops) == 1:
            return f"(G1 {OPS1[oc]} {conv(ops[0], depth + 1)})"
        if oc in OPS2 and len(ops) == 2:
            return f"(G2 {OPS2[oc]} {conv(ops[0], depth + 1)} {conv(ops[1], depth + 1)})"
        return BAD

    def is_cdl0(op):
        inst = defs.get(op) if isinstance(op, IRVariable) else None
        if inst is None or inst.opcode != "calldataload":
            return False
        o = inst.operands[0]
        return isinstance(o, IRLiteral) and o.value == 0

    def mid_of(op, depth=0):
        """method id literal of `eq <mid literal>, <GMid>` reachable from a branch condition (through `and`)"""
        inst = defs.get(op) if isinstance(op, IRVariable) else None
        if inst is None or depth > 4:
            return None
        ops = sem_ops(inst)
        if inst.opcode == "eq" and len(ops) == 2:
            lits = [o for o in ops if isinstance(o, IRLiteral)]
            others = [o for o in ops if not isinstance(o, IRLiteral)]
            if len(lits) == 1 and len(others) == 1 and conv(others[0]) == "GMid":
                return lits[0].value
            return None
        if inst.opcode == "and" and len(ops) == 2:
            for o in ops:
                m = mid_of(o, depth + 1)
                if m is not None:
                    return m
        if inst.opcode == "assign" and len(ops) == 1:
            return mid_of(ops[0], depth + 1)
        return None

    by_label = {bb.label.value: bb for bb in blocks}

    def block_arm(bb):
        arm = []
        for inst in bb.instructions:
            if inst.opcode == "assert":
                e = conv(inst.operands[0])
                if BAD not in e:
                    arm.append(f"SAssert {e}")
                    continue
                arm.append("SEnter")
                return arm
            if inst.opcode in PURE:
                continue
            arm.append("SEnter")
            return arm
        return arm

    out = {"arms": {}, "fallback_arm": None, "dense_arm": None, "meta": {}}
    fb_bb = next((bb for bb in blocks if bb.label.value.endswith("fallback")), None)
    if fb_bb is not None:
        term = fb_bb.instructions[-1] if fb_bb.instructions else None
        out["fallback_arm"] = None if (term is not None and term.opcode == "revert" and
                                       all(i.opcode in ("revert", "alloca", "assign") for i in fb_bb.instructions)) \
            else block_arm(fb_bb)
    if code in (0, 1):
        for bb in blocks:
            term = bb.instructions[-1] if bb.instructions else None
            if term is None or term.opcode != "jnz":
                continue
            mid = mid_of(term.operands[0])
            if mid is None:
                continue
            if mid in out["arms"]:
                raise ExtractError(f"method id {hex(mid)} is tested twice")
            tgt = term.operands[1]
            if not isinstance(tgt, IRLabel) or tgt.value not in by_label:
                raise ExtractError("jnz target is not a block")
            out["arms"][mid] = block_arm(by_label[tgt.value])
        return out
    dj = next((bb for bb in blocks if bb.instructions and bb.instructions[-1].opcode == "djmp"
               and any(i.opcode == "assert" for i in bb.instructions)), None)
    if dj is None:
        raise ExtractError("no block ending in djmp with an entry-condition assert")
    arm = []
    pred = [bb for bb in blocks if bb.instructions and bb.instructions[-1].opcode == "jnz"
            and any(isinstance(o, IRLabel) and o.value == dj.label.value for o in bb.instructions[-1].operands[1:])]
    if len(pred) == 1:
        ml = [i for i in pred[0].instructions if i.opcode == "mload"]
        info["inst"] = ml[-1] if ml else None
        t = pred[0].instructions[-1]
        then_, else_ = t.operands[1], t.operands[2]
        if fb_bb is not None and then_.value == fb_bb.label.value and else_.value == dj.label.value:
            arm.append(f"SFallbackIf {conv(t.operands[0])}")
        else:
            arm.append(f"SFallbackIf {BAD}")
    else:
        arm.append(f"SFallbackIf {BAD}")
    for inst in dj.instructions:
        if inst.opcode == "assert":
            arm.append(f"SAssert {conv(inst.operands[0])}")
        elif inst.opcode == "djmp":
            arm.append(f"SEnterLabel {conv(inst.operands[0])}")
        elif inst.opcode not in PURE:
            arm.append(f"SAssert {BAD}")
    out["dense_arm"] = arm
    for sec in builder.ctx.data_segment:
        if not sec.label.value.startswith("bucket_"):
            continue
        items = [it.data for it in sec.data_items]
        if len(items) % 3:
            raise ExtractError("function-info data is not a sequence of (method id, label, metadata) triples")
        for i in range(0, len(items), 3):
            mb, fb_ = items[i], items[i + 2]
            if not isinstance(mb, bytes) or not isinstance(fb_, bytes) or len(mb) != 4:
                raise ExtractError("unexpected function-info data item")
            out["meta"][int.from_bytes(mb, "big")] = (int.from_bytes(fb_, "big"), len(fb_))
    return out


# ---------------- tie items ----------------
def _b(x):
    return "true" if x else "false"


def _arm(stmts):
    return "[" + "; ".join(stmts) + "]"


# decorator text -> code of C07/Mutability.v mut_of_code
MUT_CODE = {"payable": 0, "nonpayable": 1, "": 1, "view": 2, "pure": 3}


def tie_items(gspy, venom, es, fb, where, ctor=None):
    """From one compilation: list of (coq expr evaluating to [1] iff tied, description dict).
    es: entry points (method_id, payable, min_calldatasize, target, sig); fb: None | falsy (non-payable: undecorated,
    @nonpayable, @view, @pure) | truthy (@payable) -- payability as computed by the harness from the decorator text;
    ctor: None | decorator of `__init__` ("payable" / "nonpayable" / "")."""
    items = []

    def add(kind, payable, mincds, F, arm, what):
        items.append((f"[tie_arm {kind} {_b(payable)} {mincds} {F} {_arm(arm)}]",
                      dict(where, entry=what, payable=bool(payable), min_calldatasize=mincds, extracted_arm=_arm(arm),
                           template=f"tpl_of {kind} {_b(payable)} {mincds} {F}", kind=kind, F=F)))

    F = ((max(e[2] for e in es).bit_length() + 7) // 8) if es else 0
    if venom:
        if len(gspy.venom) != 1:
            raise ExtractError(f"expected one venom selector-section generator call, saw {len(gspy.venom)}")
        code, snap = gspy.venom[0]
        if isinstance(snap, ExtractError):
            raise snap
        fb_arm = snap["fallback_arm"]
    else:
        if len(gspy.legacy) != 1:
            raise ExtractError(f"expected one legacy selector-section generator call, saw {len(gspy.legacy)}")
        code, ret = gspy.legacy[0]
        snap = legacy_extract(code, ret) if es else {"arms": {}, "dense_arm": None, "meta": {}}
        fb_arm = legacy_fallback_arm(gspy.legacy_fb[0]) if gspy.legacy_fb else None
    if (fb is None) != (fb_arm is None):
        raise ExtractError(f"__default__ arm: expected {'none' if fb is None else 'one'}, extracted {fb_arm}")
    def add_m(mut, arm, what):
        # template instantiated BY DECORATOR in Coq (tie_arm_m -> mut_payable: @view / @pure are non-payable arms)
        items.append((f"[tie_arm_m 4 {MUT_CODE[mut]} 0 0 {_arm(arm)}]",
                      dict(where, entry=what, decorator="@" + (mut or "<none>"), extracted_arm=_arm(arm),
                           payable=(mut == "payable"), min_calldatasize=0,
                           template=f"tpl_fallback_m (mut_of_code {MUT_CODE[mut]})", kind=4, F=0)))

    if fb is not None:
        if hasattr(fb, "mut"):
            add_m(fb.mut, fb_arm, "__default__")
        else:
            add(4, fb, 0, 0, fb_arm, "__default__")
    if ctor is not None and not venom:
        # the constructor's guard is emitted by the same legacy function as the one of __default__
        if len(gspy.legacy_ctor) != 1:
            raise ExtractError(f"__init__ arm: expected one, saw {len(gspy.legacy_ctor)}")
        add_m(ctor, legacy_fallback_arm(gspy.legacy_ctor[0]), "__init__")
    if not es:
        return items
    if code in (0, 1):
        kind = 2 if venom else code
        if set(snap["arms"]) != {e[0] for e in es}:
            raise ExtractError("method ids tested by the selector section differ from the contract's entry points: "
                               f"{sorted(hex(x) for x in set(snap['arms']) ^ {e[0] for e in es})}")
        for (mid, payable, mincds, _t, sig) in es:
            add(kind, payable, mincds, 0, snap["arms"][mid], sig)
    else:
        add(3, False, 0, F, snap["dense_arm"], "shared dense arm (all entry points)")
        if set(snap["meta"]) != {e[0] for e in es}:
            raise ExtractError("method ids in the dense function-info data differ from the contract's entry points")
        for (mid, payable, mincds, _t, sig) in es:
            m, ln = snap["meta"][mid]
            items.append((f"[b2z ((metadata (mkEntry 0 {_b(payable)} {mincds} 0) =? {m}) && ({ln} =? {F}))]",
                          dict(where, entry=sig, payable=bool(payable), min_calldatasize=mincds,
                               extracted_metadata=m, metadata_bytes=ln,
                               template=f"metadata (mkEntry _ {_b(payable)} {mincds} _) in {F} bytes", kind=5, F=F)))
    return items
