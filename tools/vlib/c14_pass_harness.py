"""C14 (pass level): in-process instrumentation of the real Venom pipeline.

Nothing in /repo is modified: `install()` replaces `run_pass` of every concrete pass class *in this process* by a wrapper
that (depending on the global STATE) skips the pass, or runs it and records `str(fn)` before/after and runs the
well-formedness checks on the result.
"""
import hashlib
import os
import re
import time

STATE = None
_INSTALLED = False
PASS_CLASSES = {}
CONVENTION_AFTER = ("FunctionInlinerPass", "DretDesugarPass", "InternalReturnCopyForwardingPass", "ReadonlyInvokeArgCopyForwardingPass",
                    "MakeSSA", "Mem2Var", "RemoveUnusedVariablesPass", "SimplifyCFGPass")


class State:
    def __init__(self, skip=(), record=False, wf=False, keep_text=False):
        self.skip = frozenset(skip)
        self.record = record
        self.wf = wf
        self.keep_text = keep_text
        self.snaps = []          # dict(pass, fn, idx, changed, before, after)  (texts only when keep_text)
        self.wf_errors = []      # dict(pass, fn, idx, check, error)
        self.n_invocations = 0
        self.n_changed = 0
        self.n_skipped = 0
        self.n_wf_checks = 0
        self.ssa = {}            # fn name -> bool: single-assignment form expected
        self.lowered = {}        # fn name -> bool
        self.last_text = {}      # fn name -> text after the previous pass on this fn
        self.current_pass = None
        self.ctx_fns = {}        # id(IRContext) -> {function name: hash of its current text}
        self.texts = {}          # hash -> function text
        self.want_live = False   # record LivenessAnalysis results (function text + tables)
        self.live_obs = []       # dict(fn, phase, text, tables{label: (per-instruction live sets, out set)})
        self.live_seen = set()
        self.n_live_runs = 0


def _allsubs(c):
    out = []
    for s in c.__subclasses__():
        out.append(s)
        out += _allsubs(s)
    return out


def pass_classes():
    import vyper.venom  # noqa: F401  (imports every pass module)
    from vyper.venom.passes.base_pass import IRGlobalPass, IRPass
    return [c for c in _allsubs(IRPass) + _allsubs(IRGlobalPass) if "run_pass" in c.__dict__]


def install():
    global _INSTALLED
    if _INSTALLED:
        return
    _INSTALLED = True
    for c in pass_classes():
        PASS_CLASSES[c.__name__] = c
        orig = c.__dict__["run_pass"]
        c.run_pass = _mk(orig, c.__name__)
    _install_liveness()


def _install_liveness():
    """observe every run of the real LivenessAnalysis (requested by passes and by venom_to_assembly)"""
    from vyper.venom.analysis.liveness import LivenessAnalysis
    orig = LivenessAnalysis.analyze

    def analyze(self, *a, **k):
        r = orig(self, *a, **k)
        st = STATE
        if st is not None and st.want_live:
            try:
                st.n_live_runs += 1
                fn = self.function
                text = snap_text(fn, fn)
                h = hashlib.sha1(text.encode()).hexdigest()[:16]
                if h not in st.live_seen:
                    st.live_seen.add(h)
                    tables = {}
                    for bb in fn.get_basic_blocks():
                        tables[bb.label.value] = ([[v.value for v in self.inst_to_liveness[inst]] for inst in bb.instructions],
                                                  [v.value for v in self._out_vars[bb]])
                    st.live_obs.append({"fn": str(fn.name), "phase": st.current_pass or "codegen", "text": text, "tables": tables})
            except Exception as e:  # noqa
                st.live_obs.append({"fn": "?", "phase": "observer-error", "text": "", "tables": {}, "error": f"{type(e).__name__}: {e}"})
        return r
    analyze.__wrapped__ = orig
    LivenessAnalysis.analyze = analyze


def _mk(orig, name):
    def run_pass(self, *a, **k):
        st = STATE
        if st is None:
            return orig(self, *a, **k)
        if name in st.skip:
            st.n_skipped += 1
            return None
        if not st.record:
            return orig(self, *a, **k)
        return _recorded(st, orig, name, self, a, k)
    run_pass.__wrapped__ = orig
    return run_pass


def snap_text(fn, tgt):
    """text of a snapshot: the function as printed by the compiler, followed by the context's data segment (so that the
    text is a self-contained input for vyper.venom.parser and the back end)"""
    if fn is None:
        return str(tgt)
    import textwrap
    from vyper.venom.context import DataSection
    s = str(fn)
    ds = fn.ctx.data_segment
    if ds:
        s += "\n\ndata readonly {\n" + "\n".join(textwrap.indent(DataSection.__str__(d), "  ") for d in ds) + "\n}"
    return s


def _recorded(st, orig, name, self, a, k):
    fn = getattr(self, "function", None)
    tgt = fn if fn is not None else self.ctx
    fname = str(fn.name) if fn is not None else "<ctx>"
    before = snap_text(fn, tgt)
    fmap_before = None
    if fn is None and st.keep_text:
        fmap_before = {}
        for f in self.ctx.functions.values():
            t = snap_text(f, f)
            h = hashlib.sha1(t.encode()).hexdigest()[:16]
            st.texts[h] = t
            fmap_before[str(f.name)] = h
    st.current_pass = name
    try:
        r = orig(self, *a, **k)
    finally:
        st.current_pass = None
    after = snap_text(fn, tgt)
    idx = st.n_invocations
    st.n_invocations += 1
    changed = after != before
    st.n_changed += changed
    arg = ""
    if k:
        arg = ",".join(f"{x}={getattr(v, 'name', v)}" for x, v in sorted(k.items()))
    rec = {"pass": name, "fn": fname, "idx": idx, "changed": changed, "arg": arg,
           "h_before": hashlib.sha1(before.encode()).hexdigest()[:12], "h_after": hashlib.sha1(after.encode()).hexdigest()[:12]}
    if st.keep_text:
        rec["before"], rec["after"] = before, after
        # the other functions of the context as they are while this pass runs (callees / the caller `runtime`)
        ctx = fn.ctx if fn is not None else self.ctx
        fmap = st.ctx_fns.get(id(ctx))
        if fmap is None or fn is None:
            fmap = {}
            for f in ctx.functions.values():
                t = snap_text(f, f) if (fn is None or f is not fn) else before
                h = hashlib.sha1(t.encode()).hexdigest()[:16]
                st.texts[h] = t
                fmap[str(f.name)] = h
            st.ctx_fns[id(ctx)] = fmap
        if fn is not None:
            rec["ctx"] = {n: h for n, h in fmap.items() if n != fname}
            if changed:
                h = hashlib.sha1(after.encode()).hexdigest()[:16]
                st.texts[h] = after
                fmap[fname] = h
        else:
            # a context-level pass (function inliner): every function before and after
            rec["ctx_before"], rec["ctx_after"] = fmap_before, dict(fmap)
    st.snaps.append(rec)
    if fn is not None:
        if name == "MakeSSA":
            st.ssa[fname] = True
        elif name == "Mem2Var":
            st.ssa[fname] = False       # promoted allocas are multiply assigned until the following MakeSSA
        elif name == "FmpLoweringPass":
            st.ssa[fname] = False
            st.lowered[fname] = True
    if st.wf and (changed or name == "MakeSSA"):
        fns = [fn] if fn is not None else list(self.ctx.functions.values())
        for f in fns:
            for chk, err in wf_errors(f, st.ssa.get(str(f.name), False)):
                st.wf_errors.append({"pass": name, "fn": str(f.name), "idx": idx, "check": chk, "error": err[:600]})
            st.n_wf_checks += 1
        if name in CONVENTION_AFTER and not st.lowered.get(fname):
            # whole-context calling-convention check of check_venom.py (the pipeline itself only runs it before the
            # first pass); not applicable once a function is FMP-lowered (check_post_lowering takes over)
            from vyper.venom.check_venom import find_calling_convention_errors
            c = fn.ctx if fn is not None else self.ctx
            try:
                for e in find_calling_convention_errors(c)[:3]:
                    st.wf_errors.append({"pass": name, "fn": fname, "idx": idx, "check": "check_venom.calling_convention." + type(e).__name__,
                                         "error": str(e)[:600]})
            except Exception as e:  # noqa
                st.wf_errors.append({"pass": name, "fn": fname, "idx": idx, "check": "check_venom.calling_convention.exception",
                                     "error": f"{type(e).__name__}: {e}"[:600]})
            st.n_wf_checks += 1
    return r


# ------------------------------------------------------------------ well-formedness
def wf_errors(fn, ssa):
    """-> list of (check name, message).  check_venom's own per-function checks + structural checks the
    Venom README states (terminated blocks, defs before uses, phi arguments = CFG predecessors, single assignment in
    SSA phases, branch targets exist)."""
    from vyper.venom.basicblock import IRLabel, IRVariable
    from vyper.venom.check_venom import find_semantic_errors_fn
    errs = []
    labels = {bb.label.value for bb in fn.get_basic_blocks()}
    # reachability from the entry block (a pass may leave unreachable blocks behind for SimplifyCFG; code in them is
    # never executed, so only structural checks apply there)
    succ = {}
    for bb in fn.get_basic_blocks():
        t = bb.instructions[-1] if bb.instructions else None
        succ[bb.label.value] = [op.value for op in t.operands if isinstance(op, IRLabel) and op.value in labels] \
            if t is not None and t.opcode in ("jmp", "jnz", "djmp") else []
    reach, work = set(), [fn.entry.label.value]
    while work:
        x = work.pop()
        if x in reach:
            continue
        reach.add(x)
        work += succ.get(x, [])
    all_reachable = len(reach) == len(labels)
    if all_reachable:
        try:
            for e in find_semantic_errors_fn(fn):
                errs.append(("check_venom." + type(e).__name__, str(e)))
        except Exception as e:  # noqa
            errs.append(("check_venom.exception", f"{type(e).__name__}: {e}"))
    else:
        # check_venom's VarDefinition analysis also flows through unreachable predecessors (which SCCP and friends leave
        # behind for the next SimplifyCFG); redo "terminated" + "defined on every path before use" on the reachable sub-CFG
        errs += _defuse_errors(fn, reach, succ)
    preds = {bb.label.value: set() for bb in fn.get_basic_blocks()}
    preds_all = {bb.label.value: set() for bb in fn.get_basic_blocks()}
    defs = {}
    for bb in fn.get_basic_blocks():
        insts = bb.instructions
        if not insts:
            errs.append(("empty-block", bb.label.value))
            continue
        for i, inst in enumerate(insts):
            if inst.is_bb_terminator and i != len(insts) - 1:
                errs.append(("terminator-in-middle", f"{bb.label.value}: {inst}"))
            if inst.opcode == "phi" and any(p.opcode not in ("phi", "param") for p in insts[:i]):
                errs.append(("phi-not-at-top", f"{bb.label.value}: {inst}"))
            for o in inst.get_outputs():
                defs.setdefault(o.value, []).append(f"{bb.label.value}: {inst}")
        t = insts[-1]
        if t.opcode in ("jmp", "jnz", "djmp"):
            for op in t.operands:
                if isinstance(op, IRLabel):
                    if t.opcode == "djmp" and op.value not in labels:
                        continue
                    if op.value not in labels:
                        errs.append(("branch-target-missing", f"{bb.label.value}: {t}"))
                    else:
                        preds_all[op.value].add(bb.label.value)
                        if bb.label.value in reach:
                            preds[op.value].add(bb.label.value)
    if ssa:
        for v, ds in defs.items():
            if len(ds) > 1:
                errs.append(("ssa-multiple-definition", f"{v}: " + " | ".join(ds[:3])))
    for bb in fn.get_basic_blocks():
        if bb.label.value not in reach:
            continue
        for inst in bb.instructions:
            if inst.opcode != "phi":
                continue
            labs = [l.value for l, _ in inst.phi_operands]
            if len(set(labs)) != len(labs):
                errs.append(("phi-duplicate-label", f"{bb.label.value}: {inst}"))
            # every phi argument must come from a CFG predecessor (extra predecessors without an argument are
            # tolerated: the value is then undefined on that edge and VarDefinition reports uses)
            # an argument for a block that is no longer a predecessor is tolerated (SCCP folds a jnz and leaves the stale
            # argument to the SimplifyCFG that must follow it: it can never be selected); an argument naming a block that
            # does not exist is not
            for l in labs:
                if l not in labels:
                    errs.append(("phi-label-unknown-block", f"{bb.label.value}: {inst} preds={sorted(preds_all[bb.label.value])}"))
            if ssa and not (preds[bb.label.value] <= set(labs)):
                errs.append(("phi-arity", f"{bb.label.value}: {inst} preds={sorted(preds[bb.label.value])}"))
    return errs


def _defuse_errors(fn, reach, succ):
    from vyper.venom.basicblock import IRVariable
    errs = []
    blocks = {bb.label.value: bb for bb in fn.get_basic_blocks() if bb.label.value in reach}
    for bb in blocks.values():
        if not bb.is_terminated:
            errs.append(("check_venom.BasicBlockNotTerminated", bb.label.value))
    if errs:
        return errs
    preds = {l: [] for l in blocks}
    for l in blocks:
        for s2 in succ[l]:
            if s2 in preds:
                preds[s2].append(l)
    gen = {l: {o.value for inst in bb.instructions for o in inst.get_outputs()} for l, bb in blocks.items()}
    universe = set().union(*gen.values()) if gen else set()
    entry = fn.entry.label.value
    out = {l: set(universe) for l in blocks}
    out[entry] = set(gen[entry])
    changed = True
    while changed:
        changed = False
        for l in blocks:
            if l == entry:
                inn = set()
            else:
                ps = preds[l]
                inn = set.intersection(*[out[p] for p in ps]) if ps else set()
            new = inn | gen[l]
            if new != out[l]:
                out[l] = new
                changed = True
    for l, bb in blocks.items():
        cur = set() if l == entry else (set.intersection(*[out[p] for p in preds[l]]) if preds[l] else set())
        for inst in bb.instructions:
            if inst.opcode == "phi":
                for lab, op in inst.phi_operands:
                    if lab.value in blocks and isinstance(op, IRVariable) and op.value not in out[lab.value]:
                        errs.append(("check_venom.VarNotDefined", f"{op} (phi argument from {lab.value}) in {l}: {inst}"))
            else:
                for op in inst.operands:
                    if isinstance(op, IRVariable) and op.value not in cur:
                        errs.append(("check_venom.VarNotDefined", f"{op} in {l}: {inst}"))
            for o in inst.get_outputs():
                cur.add(o.value)
    return errs


# ------------------------------------------------------------------ print/parse round trip
_COMMENT = re.compile(r";[^\n]*")
_BOOL_T = re.compile(r"(?<=[ ,])True\b")
_BOOL_F = re.compile(r"(?<=[ ,])False\b")


def normalize_text(t):
    t = _COMMENT.sub("", t)
    return "\n".join(l.strip() for l in t.splitlines() if l.strip())


def has_bool_literal(text):
    return bool(_BOOL_T.search(text) or _BOOL_F.search(text))


def parse_roundtrip(text, normalize_bool=True):
    """-> (status, detail): status in ok | unsupported | mismatch | not-idempotent"""
    from vyper.venom.parser import parse_venom
    if normalize_bool:
        # IRLiteral(True/False) is reported separately (key C14:sccp-bool-literal-not-reparsable); normalised here so that the
        # rest of the snapshot is still checked
        text = _BOOL_T.sub("1", _BOOL_F.sub("0", text))
    try:
        ctx = parse_venom(text)
    except Exception as e:  # noqa
        return "unsupported", f"{type(e).__name__}: {str(e)[:200]}"
    p2 = str(ctx)
    if normalize_text(p2) == normalize_text(text):
        return "ok", ""
    try:
        p3 = str(parse_venom(p2))
    except Exception as e:  # noqa
        return "not-idempotent", f"reparse failed: {type(e).__name__}: {str(e)[:200]}"
    if normalize_text(p3) != normalize_text(p2):
        return "not-idempotent", _first_diff(p2, p3)
    return "mismatch", _first_diff(text, p2)


def _first_diff(a, b):
    la, lb = normalize_text(a).splitlines(), normalize_text(b).splitlines()
    for i, (x, y) in enumerate(zip(la, lb)):
        if x != y:
            return f"line {i}: {x!r} vs {y!r}"
    return f"length {len(la)} vs {len(lb)}"


# ------------------------------------------------------------------ compile under a state
class CompileTimeout(BaseException):
    pass


def _on_alarm(signum, frame):
    raise CompileTimeout()


def load_scale():
    """>= 1: how much slower than an idle machine this process can expect to be (1-minute load per core, capped)"""
    try:
        return min(8.0, max(1.0, os.getloadavg()[0] / max(1, os.cpu_count() or 1)))
    except OSError:
        return 1.0


def compile_with(src, cfg, state, formats=("bytecode",), limit=60):
    """compile with the real compiler while STATE is active (wall-clock limit: a pipeline with a skipped pass may not
    terminate); returns the compiler output dict"""
    global STATE
    import signal
    from vlib.configs import compile_src
    install()
    STATE = state
    old = signal.signal(signal.SIGALRM, _on_alarm)
    signal.setitimer(signal.ITIMER_REAL, limit)
    try:
        out = compile_src(src, cfg, formats=formats)
    finally:
        signal.setitimer(signal.ITIMER_REAL, 0)
        signal.signal(signal.SIGALRM, old)
        STATE = None
    return out


def pipeline_pass_names(level):
    """names of the pass classes that occur for an optimisation level (global + per-function), in first-occurrence order"""
    import vyper.venom as V
    from vyper.compiler.settings import OptimizationLevel
    lvl = {"gas": OptimizationLevel.GAS, "O3": OptimizationLevel.O3, "codesize": OptimizationLevel.CODESIZE,
           "none": OptimizationLevel.NONE}[level]
    names = ["SimplifyCFGPass", "InternalReturnCopyForwardingPass", "ReadonlyInvokeArgCopyForwardingPass", "DretDesugarPass",
             "FunctionInlinerPass"]
    for pc in V.OPTIMIZATION_PASSES[lvl]:
        c = pc[0] if isinstance(pc, tuple) else pc
        if c.__name__ not in names:
            names.append(c.__name__)
    return names
