"""C14 (memory/storage redundancy passes): verified validators for LoadElimination, DeadStoreElimination and CSE.

The real passes are wrapped in this process while the corpus of c14_pass_corpus compiles (nothing in /repo changes); for
every invocation that changes the function, the function before and after is exported (shared numbering, instruction
positions preserved) as a literal of coq/C14M/MemSem.v and the Gallina checkers `fwd_check` (LoadElimination, CSE) /
`dse_check` (DeadStoreElimination) are evaluated by vm_compute.  An accepted pair is covered by `le_check_sound` /
`cse_check_sound` / `dse_check_sound` for EVERY execution.  A pair that is not accepted is re-checked with the liberal
variant (trusts "different allocations never alias" without the in-bounds proof, and other domain extensions): liberal
accept => `unsupported` (counted), otherwise `rejected` => search for a failing input."""
import hashlib
import os
import time
import warnings

from vlib import coqrun
from vlib.common import COQ

W = 2 ** 256
FOREIGN = 1_000_000

MODEL_FILES = ["C14M/MemSem.v", "C14M/MemFacts.v", "C14M/MemDse.v"]
PROOF_FILES = ["C14M/MemSemProofs.v", "C14M/MemFactsProofs.v", "C14M/MemFwdProofs.v", "C14M/MemDseProofs.v", "C14M/PropsMem.v"]
MODEL_DEPS = ["C14/RangeBase.v", "C14/MemLocBase.v", "C14/GenMemLoc.v"]
PROOF_DEPS = MODEL_DEPS + ["C14/MemLocSound.v"]

PASSES = {"LoadElimination": "fwd", "CSE": "fwd", "DeadStoreElimination": "dse"}


class Export:
    """numbering of blocks / variables shared by the snapshots of one pass invocation"""

    def __init__(self, fn):
        self.fn = fn
        self.lab = {}
        self.var = {}
        self.foreign = {}
        blocks = list(fn.get_basic_blocks())
        if blocks and blocks[0] is not fn.entry:
            blocks.remove(fn.entry)
            blocks.insert(0, fn.entry)
        self.order = [bb.label.value for bb in blocks]
        for i, l in enumerate(self.order):
            self.lab[l] = i

    def v(self, var):
        k = var.value
        if k not in self.var:
            self.var[k] = len(self.var)
        return self.var[k]

    def operand(self, o):
        from vyper.venom.basicblock import IRLabel, IRLiteral, IRVariable
        if isinstance(o, IRLiteral):
            return f"OLit {coqrun.hexlit(int(o.value) % W)}"
        if isinstance(o, IRVariable):
            return f"OVar {self.v(o)}%N"
        if isinstance(o, IRLabel):
            if o.value in self.lab:
                return f"OLab {self.lab[o.value]}%N"
            if o.value not in self.foreign:
                self.foreign[o.value] = FOREIGN + len(self.foreign)
            return f"OLab {self.foreign[o.value]}%N"
        raise ValueError(f"operand {o!r}")

    def inst(self, i):
        args = [self.operand(o) for o in i.operands]
        outs = [self.v(o) for o in i.get_outputs()]
        if i.opcode == "alloca" and len(outs) == 1:
            # identity of the allocation = its output variable
            args = args[:1] + [f"OLit {outs[0]}"]
        return f'mkI "{i.opcode}" [{"; ".join(args)}] [{"; ".join(f"{o}%N" for o in outs)}]'

    def snapshot(self):
        """-> (coq term, structure) ; structure = list of blocks of (id, opcode, operands, outputs)"""
        blocks = {bb.label.value: bb for bb in self.fn.get_basic_blocks()}
        for l in blocks:
            if l not in self.lab:
                self.lab[l] = len(self.order)
                self.order.append(l)
        bl, struct = [], []
        for l in self.order:
            bb = blocks.get(l)
            insts = bb.instructions if bb is not None else []
            bl.append("[" + ";\n    ".join(self.inst(i) for i in insts) + "]")
            struct.append([(id(i), i.opcode, [str(o) for o in i.operands], [str(o) for o in i.get_outputs()]) for i in insts])
        return "[" + ";\n  ".join(bl) + "]", struct


class Observer:
    """wraps run_pass of the three passes for the duration of a `with` block"""

    def __init__(self, max_insts=700):
        self.max_insts = max_insts
        self.records = []
        self.seen = set()
        self.errors = []
        self.n_invocations = {}
        self.n_changed = {}
        self.skipped_big = 0
        self.context = None       # (program name, level) set by the driver

    def __enter__(self):
        from vyper.venom.passes.common_subexpression_elimination import CSE
        from vyper.venom.passes.dead_store_elimination import DeadStoreElimination
        from vyper.venom.passes.load_elimination import LoadElimination
        self.saved = []
        obs = self
        for cls in (LoadElimination, DeadStoreElimination, CSE):
            name = cls.__name__
            orig = cls.run_pass
            self.saved.append((cls, orig))

            def run_pass(self_, *a, _orig=orig, _name=name, **k):
                pre = None
                try:
                    ex = Export(self_.function)
                    pre = (ex,) + ex.snapshot() + (str(self_.function),)
                except Exception as e:  # the observer must never change what the compiler does
                    obs.errors.append(f"{_name} before: {e!r}")
                r = _orig(self_, *a, **k)
                if pre is not None:
                    try:
                        obs.after(_name, k, pre, self_.function)
                    except Exception as e:
                        obs.errors.append(f"{_name} after: {e!r}")
                return r
            cls.run_pass = run_pass
        return self

    def __exit__(self, *a):
        for cls, orig in self.saved:
            cls.run_pass = orig

    def after(self, name, kwargs, pre, fn):
        ex, before, sb, text_before = pre
        self.n_invocations[name] = self.n_invocations.get(name, 0) + 1
        after, sa = ex.snapshot()
        if after == before:
            return
        self.n_changed[name] = self.n_changed.get(name, 0) + 1
        ninsts = sum(len(b) for b in sb)
        if ninsts > self.max_insts:
            self.skipped_big += 1
            return
        key = hashlib.sha256((name + before + after).encode()).hexdigest()[:16]
        if key in self.seen:
            return
        self.seen.add(key)
        # description of the changes (for reports and for the `unsupported` classification)
        pos = {}
        for bi, b in enumerate(sb):
            for k, t in enumerate(b):
                pos[t[0]] = (bi, k, t)
        changes, new_phis, moved = [], 0, False
        for bi, b in enumerate(sa):
            for k, t in enumerate(b):
                if t[0] not in pos:
                    new_phis += t[1] == "phi"
                    moved |= t[1] != "phi"
                    continue
                pb, pk, tb = pos[t[0]]
                if tb[1:] != t[1:]:
                    changes.append({"block": ex.order[bi], "index": k, "before": _fmt(tb), "after": _fmt(t)})
        aspace = kwargs.get("addr_space")
        self.records.append(dict(key=key, pass_name=name, kind=PASSES[name], fn=str(fn.name), before=before, after=after,
                                 ninsts=ninsts, nblocks=len(sb), changes=changes, new_phis=new_phis, moved=moved,
                                 text_before=text_before, text_after=str(fn), context=self.context,
                                 addr_space=getattr(aspace, "name", None) if aspace is not None else None))


def _fmt(t):
    _, op, args, outs = t
    return (", ".join(outs) + " = " if outs else "") + op + " " + ", ".join(args)


IMPORTS = ("From Coq Require Import NArith.\nFrom Verif Require Import C14M.MemSem C14M.MemFacts C14M.MemDse.\n"
           "Open Scope string_scope.\nOpen Scope Z_scope.\n")


def evaluate(records, name="c14m", shard=8, timeout=900):
    """per record -> verdict: 'accepted' (strict, proved checker), 'unsupported' (only the liberal variant accepts), 'rejected'"""
    def run(recs, liberal, tag):
        exprs = []
        for r in recs:
            chk = ("fwd_check" if r["kind"] == "fwd" else "dse_check") + ("_liberal" if liberal else "")
            exprs.append(f"let f : func := {r['before']} in let g : func := {r['after']} in [if {chk} f g then 1 else 0]")
        return coqrun.eval_zlists(IMPORTS, exprs, tag, shard=shard, timeout=timeout) if exprs else []
    strict = run(records, False, name)
    verdicts = ["accepted" if (o and o[0] == 1) else None for o in strict]
    rest = [r for r, v in zip(records, verdicts) if v is None]
    lib = iter(run(rest, True, name + "_lib"))
    out = []
    for v in verdicts:
        if v is None:
            o = next(lib)
            v = "unsupported" if (o and o[0] == 1) else "rejected"
        out.append(v)
    return out


def compile_corpus(progs, levels, obs):
    from vyper.compiler import compile_code
    from vyper.compiler.settings import Settings
    nfail = 0
    with warnings.catch_warnings():
        warnings.simplefilter("ignore")
        for c in progs:
            for lvl in levels:
                obs.context = (c["name"], lvl.name)
                try:
                    compile_code(c["src"], output_formats=["bytecode"], settings=Settings(experimental_codegen=True, optimize=lvl))
                except Exception:
                    nfail += 1
    return nfail
