"""C14 (memory/storage redundancy passes): verified validators for LoadElimination, DeadStoreElimination and CSE.

The real passes are wrapped in this process while the corpus of c14_pass_corpus compiles (nothing in /repo changes); for
every invocation that changes the function, the function before and after is exported (shared numbering, instruction
positions preserved) as a literal of coq/C14M/MemSem.v and the Gallina checkers `fwd_check` (LoadElimination, CSE) /
`dse_check` (DeadStoreElimination) are evaluated by vm_compute.  An accepted pair is covered by `le_check_sound` /
`cse_check_sound` / `dse_check_sound` for EVERY execution.  A pair that is not accepted is re-checked with the liberal
variant (trusts "different allocations never alias" without the in-bounds proof, and other domain extensions): liberal
accept => `unsupported` (counted), otherwise `rejected` => search for a failing input."""
import hashlib
import os
import time
import warnings

from vlib import coqrun
from vlib.common import COQ

W = 2 ** 256
FOREIGN = 1_000_000

MODEL_FILES = ["C14M/MemSem.v", "C14M/MemFacts.v", "C14M/MemDse.v", "C14M/MemRun.v"]
PROOF_FILES = ["C14M/MemSemProofs.v", "C14M/MemFactsProofs.v", "C14M/MemFwdProofs.v", "C14M/MemDseProofs.v", "C14M/PropsMem.v"]
TIE_FILES = ["C14M/GenMemEffects.v", "C14M/MemTie.v"]
MODEL_DEPS = ["C14/RangeBase.v", "C14/MemLocBase.v", "C14/GenMemLoc.v"]
PROOF_DEPS = MODEL_DEPS + ["C14/MemLocSound.v"]
EFF2SP = {"STORAGE": "Sto", "TRANSIENT": "Tra", "MEMORY": "Mem", "IMMUTABLES": "Imm", "RETURNDATA": "Ret", "LOG": "Log",
          "BALANCE": "Bal", "EXTCODE": "Ext", "FMP": "Fmp"}
LEVEL = {"GAS": "gas", "CODESIZE": "codesize", "O3": "O3"}


def gen_effects():
    """vyper.venom.effects.{reads,writes} -> Gallina tables opcode -> list sp (fail closed on an unknown effect)"""
    import vyper.venom.effects as EF
    members = [m.name for m in EF.Effects]
    unknown = [m for m in members if m not in EFF2SP]
    if unknown:
        raise ValueError(f"effects.py has rows the model does not know: {unknown}")

    def table(name, d):
        body = ""
        for k in sorted(d):
            body += f'  if String.eqb n "{k}" then [' + "; ".join(EFF2SP[m.name] for m in EF.Effects if m in d[k]) + "] else\n"
        return f"Definition gen_{name} (n : string) : list sp :=\n{body}  [].\n"
    return ("(* GENERATED from vyper/venom/effects.py by tools/vlib/c14m_part.py -- do not edit *)\n"
            "From Coq Require Import List String.\nFrom Verif Require Import C14M.MemSem.\nImport ListNotations.\n"
            "Open Scope string_scope.\n\n" + table("reads", EF.reads) + "\n" + table("writes", EF.writes))


def write_gen():
    p = COQ / "C14M" / "GenMemEffects.v"
    text = gen_effects()
    if not p.exists() or p.read_text() != text:
        p.write_text(text)

PASSES = {"LoadElimination": "fwd", "CSE": "fwd", "DeadStoreElimination": "dse"}


class Export:
    """numbering of blocks / variables shared by the snapshots of one pass invocation"""

    def __init__(self, fn):
        self.fn = fn
        self.lab = {}
        self.var = {}
        self.foreign = {}
        blocks = list(fn.get_basic_blocks())
        if blocks and blocks[0] is not fn.entry:
            blocks.remove(fn.entry)
            blocks.insert(0, fn.entry)
        self.order = [bb.label.value for bb in blocks]
        for i, l in enumerate(self.order):
            self.lab[l] = i

    def v(self, var):
        k = var.value
        if k not in self.var:
            self.var[k] = len(self.var)
        return self.var[k]

    def operand(self, o):
        from vyper.venom.basicblock import IRLabel, IRLiteral, IRVariable
        if isinstance(o, IRLiteral):
            return f"OLit {coqrun.hexlit(int(o.value) % W)}"
        if isinstance(o, IRVariable):
            return f"OVar {self.v(o)}%N"
        if isinstance(o, IRLabel):
            if o.value in self.lab:
                return f"OLab {self.lab[o.value]}%N"
            if o.value not in self.foreign:
                self.foreign[o.value] = FOREIGN + len(self.foreign)
            return f"OLab {self.foreign[o.value]}%N"
        raise ValueError(f"operand {o!r}")

    def inst(self, i):
        args = [self.operand(o) for o in i.operands]
        outs = [self.v(o) for o in i.get_outputs()]
        if i.opcode == "alloca" and len(outs) == 1:
            # identity of the allocation = its output variable
            args = args[:1] + [f"OLit {outs[0]}"]
        return f'mkI "{i.opcode}" [{"; ".join(args)}] [{"; ".join(f"{o}%N" for o in outs)}]'

    def snapshot(self):
        """-> (coq term, structure) ; structure = list of blocks of (id, opcode, operands, outputs)"""
        blocks = {bb.label.value: bb for bb in self.fn.get_basic_blocks()}
        for l in blocks:
            if l not in self.lab:
                self.lab[l] = len(self.order)
                self.order.append(l)
        bl, struct = [], []
        for l in self.order:
            bb = blocks.get(l)
            insts = bb.instructions if bb is not None else []
            bl.append("[" + ";\n    ".join(self.inst(i) for i in insts) + "]")
            struct.append([(id(i), i.opcode, [str(o) for o in i.operands], [str(o) for o in i.get_outputs()]) for i in insts])
        return "[" + ";\n  ".join(bl) + "]", struct


class Observer:
    """wraps run_pass of the three passes for the duration of a `with` block"""

    def __init__(self, max_insts=700):
        self.max_insts = max_insts
        self.records = []
        self.seen = set()
        self.errors = []
        self.n_invocations = {}
        self.n_changed = {}
        self.skipped_big = 0
        self.context = None       # (program name, level) set by the driver

    def __enter__(self):
        from vyper.venom.passes.common_subexpression_elimination import CSE
        from vyper.venom.passes.dead_store_elimination import DeadStoreElimination
        from vyper.venom.passes.load_elimination import LoadElimination
        self.saved = []
        obs = self
        for cls in (LoadElimination, DeadStoreElimination, CSE):
            name = cls.__name__
            orig = cls.run_pass
            self.saved.append((cls, orig))

            def run_pass(self_, *a, _orig=orig, _name=name, **k):
                pre = None
                try:
                    ex = Export(self_.function)
                    pre = (ex,) + ex.snapshot() + (str(self_.function),)
                except Exception as e:  # the observer must never change what the compiler does
                    obs.errors.append(f"{_name} before: {e!r}")
                r = _orig(self_, *a, **k)
                if pre is not None:
                    try:
                        obs.after(_name, k, pre, self_.function)
                    except Exception as e:
                        obs.errors.append(f"{_name} after: {e!r}")
                return r
            cls.run_pass = run_pass
        return self

    def __exit__(self, *a):
        for cls, orig in self.saved:
            cls.run_pass = orig

    def after(self, name, kwargs, pre, fn):
        ex, before, sb, text_before = pre
        self.n_invocations[name] = self.n_invocations.get(name, 0) + 1
        after, sa = ex.snapshot()
        if after == before:
            return
        self.n_changed[name] = self.n_changed.get(name, 0) + 1
        ninsts = sum(len(b) for b in sb)
        if ninsts > self.max_insts:
            self.skipped_big += 1
            return
        key = hashlib.sha256((name + before + after).encode()).hexdigest()[:16]
        if key in self.seen:
            return
        self.seen.add(key)
        # description of the changes (for reports and for the `unsupported` classification)
        pos = {}
        for bi, b in enumerate(sb):
            for k, t in enumerate(b):
                pos[t[0]] = (bi, k, t)
        changes, new_phis, moved = [], 0, False
        for bi, b in enumerate(sa):
            for k, t in enumerate(b):
                if t[0] not in pos:
                    new_phis += t[1] == "phi"
                    moved |= t[1] != "phi"
                    continue
                pb, pk, tb = pos[t[0]]
                if tb[1:] != t[1:]:
                    changes.append({"block": ex.order[bi], "index": k, "before": _fmt(tb), "after": _fmt(t)})
        aspace = kwargs.get("addr_space")
        self.records.append(dict(key=key, pass_name=name, kind=PASSES[name], fn=str(fn.name), before=before, after=after,
                                 ninsts=ninsts, nblocks=len(sb), changes=changes, new_phis=new_phis, moved=moved,
                                 text_before=text_before, text_after=str(fn), context=self.context,
                                 addr_space=getattr(aspace, "name", None) if aspace is not None else None))


def _fmt(t):
    _, op, args, outs = t
    return (", ".join(outs) + " = " if outs else "") + op + " " + ", ".join(args)


IMPORTS = ("From Coq Require Import NArith.\nFrom Verif Require Import C14M.MemSem C14M.MemFacts C14M.MemDse.\n"
           "Open Scope string_scope.\nOpen Scope Z_scope.\n")


def evaluate(records, name="c14m", shard=8, timeout=900):
    """per record -> verdict: 'accepted' (strict, proved checker), 'unsupported' (only the liberal variant accepts), 'rejected'.
    One vm_compute per record: the liberal variant is only evaluated when the strict one says no."""
    exprs = []
    for r in records:
        chk = "fwd_check" if r["kind"] == "fwd" else "dse_check"
        exprs.append(f"let f : func := {r['before']} in let g : func := {r['after']} in "
                     f"[if {chk} f g then 1 else if {chk}_liberal f g then 2 else 0]")
    outs = coqrun.eval_zlists(IMPORTS, exprs, name, shard=shard, timeout=timeout) if exprs else []
    return [{1: "accepted", 2: "unsupported"}.get(o[0] if o else 0, "rejected") for o in outs]


def _prep(entry):
    """resolve the __BPLEN__ placeholder (length of the helper blueprint's initcode) as c14_pass_run.run_program does"""
    if "__BPLEN__" not in entry["src"]:
        return entry
    from vlib.c14_pass_corpus import HELPERS
    from vlib.configs import Config, compile_src
    hsrc, _ = HELPERS[entry["helper"]]
    n = len(bytes.fromhex(compile_src(hsrc, Config(False, "gas", "cancun"), formats=("bytecode",))["bytecode"][2:]))
    return dict(entry, src=entry["src"].replace("__BPLEN__", str(n)))


def compile_corpus(progs, levels, obs):
    """levels: 'gas' | 'codesize' | 'O3'"""
    from vlib.configs import Config, compile_src
    nfail = 0
    with warnings.catch_warnings():
        warnings.simplefilter("ignore")
        for c in progs:
            c = _prep(c)
            for lvl in levels:
                obs.context = (c["name"], lvl)
                try:
                    compile_src(c["src"], Config(True, lvl, "cancun"), formats=("bytecode",))
                except Exception:
                    nfail += 1
    return nfail


# ------------------------------------------------------------------------------------------------ search
def search(entry, level, pass_name, seed, tier):
    """behavioural differential of the real pipeline at `level` against the legacy -O none reference on pyrevm, and
    localisation by turning `pass_name` into a no-op.  -> dict(diff, localised, call) or None"""
    import random
    from vlib import c02_runner as R
    from vlib import c14_pass_harness as H
    from vlib import c14_pass_run as PR
    from vlib.configs import Config, compile_src
    entry = _prep(entry)
    rng = random.Random(f"{seed}:c14m:{entry['name']}")
    ref_out = compile_src(entry["src"], Config(False, "none", PR.EVM), formats=("bytecode", "bytecode_runtime", "abi", "layout"))
    abi = ref_out["abi"]
    d = PR.Deployed(entry, ref_out["bytecode"], abi)
    if d.addr is None:
        return None
    per_fn, n_random = (8, 12) if tier == "quick" else (16, 40)
    plan = PR.make_plan(abi, entry["src"], rng, d.addrs(), per_fn, n_random)
    ref = PR.observe(entry, ref_out, abi, plan)
    cfg = Config(True, level, PR.EVM)
    try:
        out = H.compile_with(entry["src"], cfg, H.State(), formats=("bytecode", "layout"))
    except Exception as e:  # noqa
        return {"diff": {"what": "compile-failure", "error": f"{type(e).__name__}: {str(e)[:300]}"}, "localised": False, "call": None, "config": cfg.name}
    obs = PR.observe(entry, out, abi, plan)
    diff = R.first_difference(ref, obs)
    if diff is None:
        return None
    stats = {"skip_compiles": 0, "skip_failed": 0}
    r = PR._skip_run(entry, cfg, pass_name, abi, plan, stats)
    localised = r is not None and R.first_difference(ref, r) is None
    return {"diff": diff, "localised": localised, "call": PR._call_desc(plan, diff.get("call")), "config": cfg.name, "calls": len(plan)}


# ------------------------------------------------------------------------------------------------ the part
def _build(ctx):
    write_gen()
    ctx.coq_build_cached(MODEL_FILES, deps=MODEL_DEPS, timeout=600)
    b = ctx.coq_build_cached(PROOF_FILES, deps=PROOF_DEPS + MODEL_FILES, timeout=900)
    t = ctx.coq_build_cached(TIE_FILES, deps=MODEL_FILES[:1], timeout=300)
    return b, t


def prebuild(ctx):
    _build(ctx)


def part_mem_passes(ctx):
    from vlib import c14_pass_corpus as PC
    t0 = time.time()
    b, tie = _build(ctx)
    quick = ctx.tier == "quick"
    rnd = ctx.rng("c14m")
    if quick:
        # all priority-0 programs + a small seeded sample of the others (the pass-level part compiles the full quick selection)
        progs = ([c for c in PC.CORPUS if c["prio"] == 0] + rnd.sample([c for c in PC.CORPUS if c["prio"] == 1], 3)
                 + rnd.sample([c for c in PC.CORPUS if c["prio"] == 2], 2))
    else:
        progs = PC.select(ctx.tier, rnd)
    levels = ["gas"] if quick else ["gas", "codesize", "O3"]
    with Observer(max_insts=500 if quick else 1500) as obs:
        nfail = compile_corpus(progs, levels, obs)
    ctx.log(f"  c14m: build+compile {time.time()-t0:.0f}s, {len(obs.records)} changed invocations")
    for e in obs.errors[:3]:
        ctx.violation("correspondence-broken", "cannot export a pass invocation: " + e, {"errors": obs.errors[:5]})
    recs = obs.records
    if quick and len(recs) > 16:
        # the 4 largest functions, then a seeded sample (thorough validates everything)
        by_size = sorted(recs, key=lambda r: -r["ninsts"])
        head = by_size[:4]
        rest = [r for r in recs if r not in head]
        recs = head + rnd.sample(rest, min(len(rest), 12))
    stats = {"invocations": dict(obs.n_invocations), "changed": dict(obs.n_changed), "distinct_changed_exported": len(obs.records),
             "evaluated": len(recs), "too_big_skipped": obs.skipped_big, "compile_failures": nfail, "programs": len(progs), "levels": levels,
             "verdicts": {}}
    verdicts = []
    if recs and (COQ / "C14M" / "MemDse.vo").exists():
        try:
            verdicts = evaluate(recs, shard=1 if quick else max(1, len(recs) // 14), timeout=1500)
        except RuntimeError as e:
            ctx.violation("correspondence-broken", "the validators of the memory passes could not be evaluated", {"error": str(e)[-1500:]})
            recs = []
    ctx.log(f"  c14m: validators evaluated at {time.time()-t0:.0f}s")
    entries = {c["name"]: c for c in progs}
    reported = 0
    seen_keys = set()
    searched = {}
    for r, v in zip(recs, verdicts):
        if v == "rejected" and r["new_phis"]:
            v = "unsupported"              # LoadElimination merged values with a new phi: outside the validator's domain
            r["why"] = "phi insertion"
        if v == "rejected" and any(c["before"].split("= ")[-1].startswith("dload ") for c in r["changes"]):
            v = "unsupported"              # dload is a pseudo instruction (lowered to codecopy + mload of scratch memory later)
            r["why"] = "dload forwarding"
        d = stats["verdicts"].setdefault(r["pass_name"], {"accepted": 0, "unsupported": 0, "rejected": 0})
        d[v] += 1
        if v != "rejected":
            continue
        prog, lvl = r["context"]
        key = (prog, lvl, r["pass_name"])
        if key not in searched:
            try:
                searched[key] = search(entries[prog], lvl, r["pass_name"], ctx.seed, ctx.tier) if prog in entries else None
            except Exception as e:  # noqa
                searched[key] = None
                ctx.log(f"  c14m search failed for {key}: {type(e).__name__}: {e}")
        s = searched[key]
        thm = {"LoadElimination": "le_check_sound", "CSE": "cse_check_sound", "DeadStoreElimination": "dse_check_sound"}[r["pass_name"]]
        detail = {"pass": r["pass_name"], "program": prog, "config": f"venom-{lvl}-cancun", "function": r["fn"], "theorem": thm,
                  "changes_not_justified_among": r["changes"][:12], "function_before": r["text_before"][:6000], "addr_space": r["addr_space"]}
        vkey = (f"C14M:{r['pass_name']}:{prog}" if s is not None else f"C14M:reject:{r['pass_name']}:{prog}")
        if reported >= 3 or vkey in seen_keys:
            continue
        seen_keys.add(vkey)
        reported += 1
        if s is not None:
            ctx.violation("failing-input", f"{r['pass_name']} makes a replacement the proved validator rejects and the compiled contract "
                          f"{prog} ({lvl}) behaves differently from the reference" + (" (localised: equal to the reference with the pass skipped)" if s["localised"] else ""),
                          dict(detail, source=entries[prog]["src"], call=s["call"], difference=s["diff"], localised_to_pass=s["localised"],
                               expected="same status / return data / logs / storage as legacy -O none"),
                          key=f"C14M:{r['pass_name']}:{prog}")
        else:
            ctx.violation("theorem-broken", f"{thm} does not apply: {r['pass_name']} on {r['fn']} of {prog} ({lvl}) makes a replacement that is "
                          "neither justified by the proved validator nor explained by its known domain limits", detail,
                          key=f"C14M:reject:{r['pass_name']}:{prog}")
    if not tie["ok"]:
        bad = None
        try:
            bad = coqrun.eval_cases("From Verif Require Import C14M.MemSem C14M.GenMemEffects.\n" + _tie_defs(), ["tie_bad"], "c14m_tie")
        except Exception:  # noqa
            pass
        if not reported:
            ctx.violation("correspondence-broken", "effects.py does not cover the footprint of an instruction (model_covered_by_effects)",
                          {"theorem": "model_covered_by_effects", "opcodes": bad, "coq_output": tie.get("out", "")[-800:]})
    if not b["ok"] and not reported:
        ctx.violation("theorem-broken", f"{b.get('failed_lemma')} in {b['file']}", {"theorem": b.get("failed_lemma"), "file": b["file"],
                                                                                     "coq_output": b["out"][-1500:]})
    # hand-written IR families (aliasing stores, stores between identical loads): validators + real back end + MemRun.v
    import sys
    from vlib import c14m_hand
    try:
        nh, hstats = c14m_hand.run(ctx, sys.modules[__name__])
    except Exception as e:  # noqa
        nh, hstats = 0, {"error": f"{type(e).__name__}: {e}"}
        ctx.violation("correspondence-broken", "the hand-written IR families could not be run", hstats)
    stats["hand_ir"] = hstats
    stats["seconds"] = round(time.time() - t0, 1)
    ctx.corr["memory_passes"] = stats
    acc = [r for r, v in zip(recs, verdicts) if v == "accepted"]
    if acc:
        ctx.samples.append({"accepted": acc[0]["pass_name"], "program": acc[0]["context"][0], "function": acc[0]["fn"], "changes": acc[0]["changes"][:3]})
    return nh + sum(d["accepted"] + d["unsupported"] + d["rejected"] for d in stats["verdicts"].values())


def _tie_defs():
    text = (COQ / "C14M" / "MemTie.v").read_text()
    i = text.index("Definition model_reads")
    j = text.index("Theorem model_covered_by_effects")
    return "From Coq Require Import ZArith List Bool String.\nImport ListNotations.\nOpen Scope string_scope.\n" + text[i:j]
