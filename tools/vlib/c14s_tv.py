"""C14S per-instruction translation validation of the stack scheduler on real compiler runs.

Hook on VenomCompiler._generate_evm_for_instruction: for every instruction the recorded (stack map before, spilled dict /
spiller slots before, emitted assembly, stack map after, spilled after) is re-executed on a *symbolic* EVM whose stack
slots and spill-memory words hold operand identities.  Accepted iff there is a position of the instruction's own
opcode tokens such that (1) when the opcode executes the top |operands| machine slots are the instruction's operands in
order, (2) after popping them, pushing the outputs and executing the trailing cleanup, the machine stack is the stack
map `after`, and every spilled operand sits in its slot -- all up to the DFG equivalence used by virtual swaps.
Python checker (not proved); it is the property's own oracle for "assembly emission preserves behaviour" at instruction
granularity."""


class Unsupported(Exception):
    pass


def own_tokens(inst):
    """token signature emitted for the instruction itself (None = not validated)"""
    from vyper.venom.venom_to_assembly import _ONE_TO_ONE_INSTRUCTIONS
    op = inst.opcode
    OBJ = object
    if op in _ONE_TO_ONE_INSTRUCTIONS:
        return [op.upper()]
    return {
        "assert": ["ISZERO", OBJ, "JUMPI"], "jmp": [OBJ, "JUMP"], "jnz": [OBJ, "JUMPI", OBJ, "JUMP"],
        "assign": [], "nop": [], "alloca": [], "sha3": ["SHA3"], "iload": ["MLOAD"], "istore": ["SWAP1", "MSTORE"],
        "djmp": ["JUMP"], "return": ["RETURN"], "ret": ["JUMP"],
        # caller side of the internal-call convention: PUSHLABEL return_label; PUSHLABEL target; JUMP; return_label:
        "invoke": [OBJ, OBJ, "JUMP", OBJ],
    }.get(op)


def tokenize(asm):
    """-> list of ('push', v) | ('obj',) | ('op', name)"""
    out = []
    i = 0
    while i < len(asm):
        t = asm[i]
        if isinstance(t, str) and t.startswith("PUSH") and t[4:].isdigit():
            n = int(t[4:])
            v = 0
            for b in asm[i + 1:i + 1 + n]:
                if not isinstance(b, int):
                    raise Unsupported(f"non-byte after {t}")
                v = v * 256 + b
            out.append(("push", v))
            i += 1 + n
        elif isinstance(t, str):
            out.append(("op", str(t)))
            i += 1
        else:
            out.append(("obj",))
            i += 1
    return out


class Machine:
    def __init__(self, stack, mem, slots):
        self.s, self.m, self.slots = list(stack), dict(mem), slots

    def manip(self, toks, i):
        """execute one stack-manipulation step starting at toks[i]; returns new i or None if toks[i] is not one"""
        k = toks[i]
        if k[0] == "push":
            if i + 1 < len(toks) and toks[i + 1] in (("op", "MSTORE"), ("op", "MLOAD")) and k[1] in self.slots:
                if toks[i + 1][1] == "MSTORE":
                    if not self.s:
                        raise Unsupported("spill store on empty stack")
                    self.m[k[1]] = self.s.pop()
                else:
                    if k[1] not in self.m:
                        raise Unsupported(f"restore from slot {k[1]} which holds nothing")
                    self.s.append(self.m[k[1]])
                return i + 2
            self.s.append(("lit", k[1]))
            return i + 1
        if k[0] == "obj":
            self.s.append(("obj",))
            return i + 1
        name = k[1]
        if name.startswith("DUP") and name[3:].isdigit():
            n = int(name[3:])
            if not (1 <= n <= 16) or n > len(self.s):
                raise Unsupported(f"{name} with stack height {len(self.s)}")
            self.s.append(self.s[-n])
            return i + 1
        if name.startswith("SWAP") and name[4:].isdigit():
            n = int(name[4:])
            if not (1 <= n <= 16) or n + 1 > len(self.s):
                raise Unsupported(f"{name} with stack height {len(self.s)}")
            self.s[-1], self.s[-1 - n] = self.s[-1 - n], self.s[-1]
            return i + 1
        if name == "POP":
            if not self.s:
                raise Unsupported("POP on empty stack")
            self.s.pop()
            return i + 1
        return None


def same(vc, sym, op):
    from vyper.utils import wrap256
    from vyper.venom.basicblock import IRLabel, IRLiteral, IRVariable
    if isinstance(sym, tuple):
        if sym[0] == "lit":
            return isinstance(op, IRLiteral) and wrap256(op.value) == sym[1]
        return isinstance(op, IRLabel) or not isinstance(op, (IRLiteral, IRVariable))
    if type(op).__name__ == "_DeadStackItem" or type(sym).__name__ == "_DeadStackItem":
        return True
    if sym == op:
        return True
    if isinstance(sym, IRLiteral) and isinstance(op, IRLiteral):
        return wrap256(sym.value) == wrap256(op.value)
    try:
        return bool(vc.dfg.are_equivalent(sym, op))
    except Exception:  # noqa
        return False


def validate(vc, rec):
    """rec: dict(inst, before, sp_before, slots, asm, after, sp_after).  Returns None (ok), 'skip', or an error text"""
    inst = rec["inst"]
    T = own_tokens(inst)
    if T is None:
        return "skip"
    op = inst.opcode
    if op in ("jmp", "djmp", "jnz", "invoke"):
        operands = list(inst.get_non_label_operands())
    else:
        operands = list(inst.operands)
    outputs = list(inst.get_outputs())
    try:
        toks = tokenize(rec["asm"])
    except Unsupported as e:
        return f"tokenize: {e}"
    halting = op in ("return", "revert", "stop", "invalid", "selfdestruct", "jmp", "jnz", "djmp", "ret")
    errs = []
    # candidate split positions p: toks[p:p+len(T)] matches T
    for p in range(len(toks) + 1):
        seg = toks[p:p + len(T)]
        if len(seg) != len(T):
            continue
        if not all((t is object and s[0] == "obj") or (t is not object and s == ("op", t)) for t, s in zip(T, seg)):
            continue
        m = Machine(rec["before"], {off: o for o, off in rec["sp_before"].items()}, rec["slots"])
        try:
            i = 0
            while i < p:
                j = m.manip(toks, i)
                if j is None or j > p:
                    raise Unsupported(f"token {toks[i]} before the opcode")
                i = j
            k = len(operands)
            if k > len(m.s):
                raise Unsupported("stack underflow at the opcode")
            top = m.s[len(m.s) - k:]
            if not all(same(vc, s, o) for s, o in zip(top, operands)):
                raise Unsupported(f"at the opcode the top of the stack is {top}, operands are {operands}")
            if op == "ret" and len(m.s) != k:
                # the callee's frame must be exactly (return values ..., return pc): anything left below would be
                # taken by the caller for a return value / shift its own frame
                raise Unsupported(f"`ret` leaves {len(m.s) - k} extra item(s) on the callee's frame: {m.s[:len(m.s) - k]}")
            del m.s[len(m.s) - k:]
            m.s.extend(outputs)
            i = p + len(T)
            while i < len(toks):
                j = m.manip(toks, i)
                if j is None:
                    raise Unsupported(f"token {toks[i]} after the opcode")
                i = j
            if not halting or op in ("jmp", "jnz", "djmp"):
                after = rec["after"]
                if len(m.s) != len(after) or not all(same(vc, s, o) for s, o in zip(m.s, after)):
                    raise Unsupported(f"machine stack {m.s} != stack map {after}")
                for o, off in rec["sp_after"].items():
                    if off not in m.m or not same(vc, m.m[off], o):
                        raise Unsupported(f"spilled operand {o} is not in its slot {off}")
            return None
        except Unsupported as e:
            errs.append(str(e))
    return "no position of the opcode validates: " + "; ".join(errs[:3]) if errs else "opcode tokens not found in the emitted assembly"


class InstRecorder:
    """validates every instruction as it is generated; collects statistics and failures"""

    def __init__(self):
        self.n_ok = self.n_skip = 0
        self.fail = []
        self.by_op = {}

    def __enter__(self):
        from vyper.venom.venom_to_assembly import VenomCompiler
        self._cls = VenomCompiler
        self._orig = VenomCompiler._generate_evm_for_instruction
        rec = self

        def wrapper(vc, inst, stack, next_liveness, spilled, skip_pops=False):
            sp = vc.spiller
            before = list(stack._stack)
            sp_before = dict(spilled)
            slots0 = set(sp._spill_free_slots) | set(spilled.values())
            next0 = sp._next_spill_offset
            asm = rec._orig(vc, inst, stack, next_liveness, spilled, skip_pops)
            slots = slots0 | set(sp._spill_free_slots) | set(spilled.values())
            if next0 is not None and sp._next_spill_offset is not None:
                slots |= set(range(next0, sp._next_spill_offset, 32))
            r = {"inst": inst, "before": before, "sp_before": sp_before, "slots": slots, "asm": list(asm),
                 "after": list(stack._stack), "sp_after": dict(spilled)}
            v = validate(vc, r)
            if v is None:
                rec.n_ok += 1
                rec.by_op[inst.opcode] = rec.by_op.get(inst.opcode, 0) + 1
            elif v == "skip":
                rec.n_skip += 1
            else:
                rec.fail.append({"function": inst.parent.parent.name.value, "block": inst.parent.label.value, "instruction": str(inst),
                                 "stack_before": [str(x) for x in before], "assembly": [str(x) for x in asm],
                                 "stack_after": [str(x) for x in stack._stack], "problem": v})
            return asm

        VenomCompiler._generate_evm_for_instruction = wrapper

        # callee entry: the stack map starts as the `param` outputs in instruction order (return pc last = on top);
        # the prologue (popmany of dead params + optimistic swap) must transform exactly that into the stack map
        self._orig_prep = VenomCompiler._prepare_stack_for_function

        def prep(vc, asm, fn, stack):
            start = len(asm)
            before = list(stack._stack)
            sp = vc.spiller
            slots0 = set(sp._spill_free_slots)
            next0 = sp._next_spill_offset
            r = rec._orig_prep(vc, asm, fn, stack)
            params = [i.output for i in fn.entry.instructions if i.is_param]
            # popmany / the optimistic swap may reach deeper than 16 through the spiller's transient slots
            slots = slots0 | set(sp._spill_free_slots)
            if next0 is not None and sp._next_spill_offset is not None:
                slots |= set(range(next0, sp._next_spill_offset, 32))
            try:
                m = Machine(before + params, {}, slots)
                toks = tokenize(asm[start:])
                i = 0
                while i < len(toks):
                    j = m.manip(toks, i)
                    if j is None:
                        raise Unsupported(f"token {toks[i]} in a function prologue")
                    i = j
                if len(m.s) != len(stack._stack) or not all(same(vc, s, o) for s, o in zip(m.s, stack._stack)):
                    raise Unsupported(f"machine stack {m.s} != stack map {stack._stack}")
                rec.n_ok += 1
                rec.by_op["<prologue>"] = rec.by_op.get("<prologue>", 0) + 1
            except Unsupported as e:
                rec.fail.append({"function": fn.name.value, "block": fn.entry.label.value, "instruction": "<function prologue>",
                                 "stack_before": [str(x) for x in before + params], "assembly": [str(x) for x in asm[start:]],
                                 "stack_after": [str(x) for x in stack._stack], "problem": str(e)})
            return r

        VenomCompiler._prepare_stack_for_function = prep

        # block entry after a splitter (clean_stack_from_cfg_in): for ANY incoming stack the cleaned stack map must be
        #   (dead slots)* ++ (items that are all live into this block from the predecessor), no live-in item lost,
        # and the emitted POP/SWAP/spill code must realise exactly that map (dead slots hold anything).
        self._orig_clean = VenomCompiler.clean_stack_from_cfg_in
        rec.n_clean = 0

        def clean(vc, asm, bb, stack, bound=None):
            start = len(asm)
            before = list(stack._stack)
            sp = vc.spiller
            slots0 = set(sp._spill_free_slots)
            next0 = sp._next_spill_offset
            r = rec._orig_clean(vc, asm, bb, stack, bound)
            after = list(stack._stack)
            dead = lambda x: type(x).__name__ == "_DeadStackItem"  # noqa
            try:
                in_bb = vc.cfg.cfg_in(bb).first()
                inputs = list(vc.liveness.input_vars_from(in_bb, bb))
                layout = list(vc.liveness.out_vars(in_bb))
                seen_live = False
                for x in after:
                    if dead(x):
                        if seen_live:
                            raise Unsupported("a retained dead slot is above a live item")
                    else:
                        seen_live = True
                stray = [x for x in before if not dead(x) and x not in layout]
                if stray:
                    raise Unsupported(f"incoming stack holds {stray}, not in the predecessor's output layout {layout}")
                junk = [x for x in after if not dead(x) and x not in inputs]
                if junk:
                    raise Unsupported(f"after the cleanup the stack still holds {junk}, which are not live into the block (inputs {inputs})")
                for x in inputs:
                    if before.count(x) != after.count(x):
                        raise Unsupported(f"live-in item {x} occurs {before.count(x)} time(s) before and {after.count(x)} after the cleanup")
                if [x for x in before if x in inputs] != [x for x in after if x in inputs] and len(asm) == start:
                    raise Unsupported("live items reordered without code")
                slots = slots0 | set(sp._spill_free_slots)
                if next0 is not None and sp._next_spill_offset is not None:
                    slots |= set(range(next0, sp._next_spill_offset, 32))
                m = Machine(before, {}, slots)
                toks = tokenize(asm[start:])
                i = 0
                while i < len(toks):
                    j = m.manip(toks, i)
                    if j is None:
                        raise Unsupported(f"token {toks[i]} in a block-entry cleanup")
                    i = j
                if len(m.s) != len(after) or not all(dead(o) or same(vc, s_, o) for s_, o in zip(m.s, after)):
                    raise Unsupported(f"machine stack {m.s} != stack map {after}")
                rec.n_ok += 1
                rec.n_clean += 1
                rec.by_op["<cleanup>"] = rec.by_op.get("<cleanup>", 0) + 1
            except Unsupported as e:
                rec.fail.append({"function": bb.parent.name.value, "block": bb.label.value, "instruction": "<block-entry cleanup>",
                                 "stack_before": [str(x) for x in before], "assembly": [str(x) for x in asm[start:]],
                                 "stack_after": [str(x) for x in after], "problem": str(e)})
            return r

        VenomCompiler.clean_stack_from_cfg_in = clean
        return self

    def __exit__(self, *a):
        self._cls._generate_evm_for_instruction = self._orig
        self._cls._prepare_stack_for_function = self._orig_prep
        self._cls.clean_stack_from_cfg_in = self._orig_clean
