"""C06 extension (session 3): encoder templates whose source is storage / calldata / pre-cancun memory.
part_build: regenerate the observed tables (GenTplEncXL/XV.v) from the real generators, compile them, check the
            syntactic ties (TieEncX.v) and the property theorems (PropsC06X.v).
part_run:   execute every OBSERVED template inside Coq (XEval.v) on dirty memory / dirty storage slack with generated
            values: result must be |enc|, enc at dst, nothing outside [dst, dst+size_bound) touched; for the legacy
            storage / calldata templates the final memory is also compared with the structural model SrcEnc.wenc
            (the object of the theorems in PropsC06X.v)."""
from . import c06_abi as A
from . import c06_tpl as TP
from . import c06_tplx as TX
from .common import COQ

MODEL_CELLS = True
SHARD = 30
STATIC_X = ["C06/XEval.v", "C06/SrcEnc.v", "C06/SrcHolds.v", "C06/SrcEncProofs.v", "C06/PreCopy.v", "C06/TplEncX.v", "C06/LeafSem.v"]
GEN_X = ["C06/GenTplEncXL.v", "C06/GenTplEncXV.v"]
TIE_X = ["C06/TieEncX.v", "C06/PropsC06X.v"]
DEPS = ["C06/Abi.v", "C06/AbiLemmas.v", "C06/Roundtrip.v", "C06/ZeroPad.v", "C06/Venc.v", "C06/VencProofs.v", "C06/Sexp.v",
        "C06/TplEncL.v", "C06/TplEncV.v", "C06/SxEval.v", "C06/Widen.v", "C06/WidenProofs.v", "C06/VxEval.v"]

TABLE_OF = {  # table -> (family function, runner in XEval.v, generator in TplEncX.v)
    "obs_enc_l_sto": (lambda: TX.xfamily(), "run_enc_l_sto", "tpl_enc_l_sto"),
    "obs_enc_l_cd": (lambda: TX.cd_family(), "run_enc_l_cd", "tpl_enc_l_cd"),
    "obs_enc_l_pre": (lambda: TX.xfamily(), "run_enc_l_pre", "tpl_enc_l_pre"),
    "obs_enc_v_pre": (lambda: TX.xfamily(), "run_enc_v_pre", "tpl_enc_v_pre"),
    "obs_enc_v_sto": (lambda: TX.sto_family_venom(), "run_enc_v_sto", "tpl_enc_v_sto"),
}


def generate():
    TX.write_gen(COQ)


def build(ctx):
    """returns (tables_result, proofs_result); static files / unchanged tables are reused when byte-identical"""
    ok = {"ok": True}
    g = ctx.coq_build_cached(STATIC_X, deps=DEPS)
    if not g["ok"]:
        return ok, g                       # a static proof / model file is broken: theorem-broken
    g = ctx.coq_build_parallel(GEN_X, deps=DEPS[:7])
    if not g["ok"]:
        return g, {"ok": True, "skipped": True}
    tie = ctx.coq_build_parallel(["C06/TieEncX.v"], deps=DEPS + STATIC_X + GEN_X)
    if tie["ok"]:
        tie = ctx.coq_build_parallel(["C06/PropsC06X.v"], deps=DEPS + STATIC_X + ["C06/GenAbiSizes.v", "C06/SizesTie.v"])
    return ok, tie


def differing(table):
    """Search step after a broken tie: which shapes' observed templates differ from the Coq generator"""
    from . import coqrun
    fam, _, gen = TABLE_OF[table]
    imp = "From Verif Require Import C06.Abi C06.Sexp C06.TplEncL C06.TplEncV C06.TplEncX C06.GenTplEncXL C06.GenTplEncXV.\n"
    o = coqrun.eval_zlists(imp, [f"map (fun p => if sx_eqb ({gen} (fst p)) (snd p) then 1 else 0) {table}"], "tplx" + table, shard=1)[0]
    return [A.coq_ty(t) for t, ok in zip(fam(), o) if not ok]


def run_templates(ctx, report):
    """execute the observed templates in Coq; returns number of executions"""
    from . import coqrun
    r = ctx.rng("tplxvals")
    quick = ctx.tier == "quick"
    exprs, meta = [], []
    for table, (famf, runner, _) in TABLE_OF.items():
        fam = famf()
        step = (4 if len(fam) > 50 else 2) if quick else 1
        off = r.randrange(step)
        for i, t in enumerate(fam):
            if (i + off) % step:
                continue
            vals = [A.gen_value(r, t, r.choice(["max", "rand"]))] if quick else \
                [A.gen_value(r, t, "max"), A.gen_value(r, t, "rand")]
            ct = A.coq_ty(t)
            cells = [f"{runner} (snd (nth {i} {table} (TBool, SI 0))) {ct} {A.coq_val(t, v)}" for v in vals]
            if MODEL_CELLS and table in ("obs_enc_l_sto", "obs_enc_l_cd"):
                loc = table[-3:].strip('_')
                cells += [f"model_agrees_{loc} (snd (nth {i} {table} (TBool, SI 0))) {ct} {A.coq_val(t, v)}" for v in vals]
                cells += [f"premise_{loc} {ct} {A.coq_val(t, v)}" for v in vals]
            exprs.append("[" + "; ".join(cells) + "]")
            meta.append((table, t, vals))
    imp = ("From Verif Require Import C06.Abi C06.Sexp C06.SxEval C06.VxEval C06.XEval C06.SrcEnc C06.SrcHolds "
           "C06.GenTplEncXL C06.GenTplEncXV.\n")
    outs = coqrun.eval_zlists(imp, exprs, "c06tplxrun", shard=SHARD, timeout=900)
    n = 0
    per = {}
    for (table, t, vals), o in zip(meta, outs):
        n += len(o)
        per[table] = per.get(table, 0) + len(o)
        if any(x != 1 for x in o) or not o:
            report(ctx, "correspondence-broken",
                   f"an OBSERVED encoder template ({table}: non-cancun-memory source), executed in Coq, does not satisfy the "
                   f"encoder spec / disagrees with the structural model SrcEnc.wenc",
                   {"table": table, "shape": A.eth_ty(t), "coq_type": A.coq_ty(t), "values": [repr(v) for v in vals],
                    "results (1 ok, 0 wrong bytes/len/confinement or model mismatch, <0 evaluator; first = spec, "
                    "then agreement with the model SrcEnc.wenc and the theorem premise holdsb where applicable)": o}, "tplxrun:" + table)
    ctx.corr["x_template_executions_in_coq"] = n
    ctx.corr["x_template_executions_per_table"] = per
    return n
