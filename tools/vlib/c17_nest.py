"""C17 extension: NESTED constant expressions (coq/C17/NestModel.v, NestAgree.v, PropsNest.v).

Generates expression trees of depth 2-5 over the foldable language (boundary-biased leaves, leaves written as literals or as
named constants, subtrees bound to named constants that reference each other, declarations emitted in shuffled order) and
 1. FRONT-END TIE: compiles `R: constant(T) = <tree>` with the real front end (parser + ConstantFolder + type checker) and
    compares acceptance and the folded value with the model evaluated inside Coq (fold_e / tc / wf of NestModel.v):
    real accepts  =>  model folds to the same value and tc accepts;   model tc rejects an intermediate => real rejects.
 2. TWIN PROBES: the accepted trees once with constant operands (folded) and once with every leaf passed as a calldata
    argument (run time), executed on pyrevm under several configurations; two different values => failing-input;
    the Coq `eval` prediction is compared with the run-time side, the Coq `fold_e` value with the literal side.
 3. visit_Compare on Decimal / Hex / Str / Bytes / bool literals and named constants (== != in not-in, case-varying hex,
    case-differing strings): same two ties against veq_fold / inv_fold / veq_spec.
 4. flags (members, | & ^ ~, in / not in on flag constants) and struct constants: twin contracts (paired probes only).
"""
import warnings

from eth_abi import encode

from . import c17_probe as P
from . import coqrun

DENOMS = {"wei": 1, "gwei": 10**9, "ether": 10**18, "kether": 10**21, "szabo": 10**12}
BIN = [("+", "BAdd"), ("-", "BSub"), ("*", "BMult"), ("//", "BFloorDiv"), ("%", "BMod"), ("&", "BAnd"), ("|", "BOr"), ("^", "BXor")]
CMP = [("==", "CEq"), ("!=", "CNe"), ("<", "CLt"), ("<=", "CLe"), (">", "CGt"), (">=", "CGe")]
U256, I256 = (False, 256), (True, 256)
NEST_IMPORT = "From Verif Require Import C17.NestModel.\n"


def coq_ty(T):
    return f"(mk_ity {'true' if T[0] else 'false'} {T[1]})"


def in_range(T, v):
    lo, hi = P.bounds(T)
    return lo <= v <= hi


# ------------------------------------------------------------------ generator
class Gen:
    def __init__(self, rnd):
        self.rnd = rnd

    def leaf_val(self, T):
        lo, hi = P.bounds(T)
        r = self.rnd
        c = [lo, lo + 1, hi, hi - 1, 0, 1, 2, 3, 7, hi // 2, hi // 2 + 1, r.randrange(lo, hi + 1), r.randrange(max(lo, -20), min(hi, 20) + 1),
             r.randrange(max(lo, -20), min(hi, 20) + 1), 2 ** (T[1] // 2), 5, 10]
        if T[0]:
            c += [-1, -2, -7, lo // 2]
        return r.choice([x for x in c if lo <= x <= hi])

    def leaf(self, T, force_name=False, val=None):
        v = self.leaf_val(T) if val is None else val
        return ("lit", v, "name" if force_name or self.rnd.random() < 0.5 else "lit")

    def e(self, T, d, pin=False):
        """integer tree of type T and depth <= d; pin: the leftmost leaf is a named constant (fixes the type the checker infers)"""
        r = self.rnd
        if d <= 0 or r.random() < 0.12:
            return self.leaf(T, force_name=pin)
        forms = ["bin"] * 8 + ["named"] * 3 + ["min", "max", "idx", "pow"]
        if T[0]:
            forms += ["neg"] * 2
        if T[1] == 256:
            forms += ["shf"] * 2 + ["shift"]
        if T == U256:
            forms += ["inv", "addmod", "mulmod", "powmod"]
        if T == I256:
            forms += ["abs", "floor", "ceil"]
        if T == U256:
            forms += ["len", "aswei", "asweid"]
        forms += ["bound"]
        f = r.choice(forms)
        if f in ("floor", "ceil"):
            return (f, self.d(d - 1))
        if f == "len":
            n = r.choice([0, 1, 2, 31, 32, 33, r.randrange(0, 40)])
            return ("len", "".join(r.choice("abcXYZ019 _") for _ in range(n)), r.choice(["str", "bytes"]), r.random() < 0.5)
        if f == "bound":
            return ("bound", r.random() < 0.5, T)
        if f == "aswei":
            Ta = r.choice([(False, 8), U256, (True, 128), (False, 64)])
            return ("aswei", Ta, self.e(Ta, max(0, d - 2), pin=True), r.choice(sorted(DENOMS)))
        if f == "asweid":
            return ("asweid", self.d(max(0, d - 2)), r.choice(sorted(DENOMS)))
        if f == "bin":
            sym, con = r.choice(BIN)
            return ("bin", sym, con, self.e(T, d - 1, pin), self.e(T, d - 1))
        if f == "named":
            return ("named", self.e(T, d - 1, pin))
        if f in ("min", "max"):
            return (f, self.e(T, d - 1, pin), self.e(T, d - 1))
        if f == "neg":
            a = self.e(T, d - 1, pin)
            if a[0] == "lit" and a[2] == "lit":
                # the PARSER (ast/parse.py visit_UnaryOp) collapses unary minus over a numeric literal into one literal, bottom-up:
                # `-(-(-32768))` is the literal -32768 and has no intermediate values
                return ("lit", -a[1], "lit")
            return ("un", "-", "UNeg", a)
        if f == "inv":
            return ("un", "~", "UInvert", self.e(T, d - 1, pin))
        if f == "abs":
            return ("abs", self.e(T, d - 1, pin))
        if f == "pow":
            lo, hi = P.bounds(T)
            base = self.e(T, d - 1, pin) if r.random() < 0.5 else self.leaf(T, pin, val=r.choice([x for x in (2, 3, -2, 10, 1, 0, -1) if lo <= x <= hi]))
            return ("bin", "**", "BPow", base, ("lit", r.choice([0, 1, 2, 3, T[1] // 8, T[1] - 1, T[1]]), "lit"))
        if f == "shf":
            op = r.choice([("<<", "SShl"), (">>", "SShr")])
            amt = self.leaf(U256, val=r.choice([0, 1, 2, 7, 8, 128, 255, 256, 257, r.randrange(0, 256)]))
            return ("shf", op[0], op[1], self.e(T, d - 1, pin), amt)
        if f == "shift":
            n = r.choice([-257, -256, -255, -8, -1, 0, 1, 8, 255, 256, r.randrange(-256, 257)])
            return ("shift", self.e(T, d - 1, pin), ("lit", n, "name"))
        if f in ("addmod", "mulmod"):
            return (f, self.e(U256, d - 1), self.e(U256, d - 1), self.e(U256, d - 1))
        if f == "powmod":
            return ("powmod", self.e(U256, d - 1), self.leaf(U256, val=r.choice([0, 1, 2, 3, 255, 256, 257, 300])))
        if f == "idx":
            n = r.randrange(1, 4)
            els = [self.e(T, max(0, d - 2), pin and k == 0) for k in range(n)]
            if r.random() < 0.6:
                idx = self.leaf(U256, val=r.choice([0, 0, 1, n - 1, n - 1, n, 2**255]))
            else:  # a computed index: the first leaf is a uint256 constant, which fixes the index type
                a = r.randrange(0, n + 1)
                idx = ("bin", "-", "BSub", ("lit", a + 2, "name"), ("lit", 2, "lit")) if r.random() < 0.5 else \
                      ("bin", "+", "BAdd", ("lit", a, "name"), ("lit", r.choice([0, 0, 1]), "lit"))
            return ("idx", els, idx)
        raise AssertionError(f)

    def dleaf(self):
        r = self.rnd
        D = 10**10
        v = r.choice([0, 1, -1, D, -D, 15 * D // 10, -25 * D // 10, D // 3, 3 * D + 1, 7, -7, 2**167 - 1, -(2**167), 2**166, 2**83, -(2**83), 10**5, 5 * D // 10,
                      r.randrange(-(2**167), 2**167), r.randrange(-(10**13), 10**13), r.randrange(-(10**11), 10**11)])
        return ("dlit", v, "name" if r.random() < 0.5 else "lit")

    def d(self, d):
        """decimal tree"""
        r = self.rnd
        if d <= 0 or r.random() < 0.15:
            return self.dleaf()
        f = r.choice(["dbin"] * 7 + ["dnamed"] * 2 + ["dneg", "dmin", "dmax"])
        if f == "dbin":
            sym, con = r.choice([("+", "DAdd"), ("-", "DSub"), ("*", "DMul"), ("/", "DDiv"), ("%", "DMod")])
            return ("dbin", sym, con, self.d(d - 1), self.d(d - 1))
        if f == "dnamed":
            return ("dnamed", self.d(d - 1))
        if f == "dneg":
            a = self.d(d - 1)
            return ("dlit", -a[1], "lit") if a[0] == "dlit" and a[2] == "lit" else ("dneg", a)
        return (f, self.d(d - 1), self.d(d - 1))

    def b(self, d):
        r = self.rnd
        if d <= 0 or r.random() < 0.1:
            return ("blit", r.random() < 0.5, "name" if r.random() < 0.5 else "lit")
        f = r.choice(["cmp"] * 5 + ["in"] * 2 + ["not", "and", "or", "and", "or", "bnamed", "cmpv", "inv", "cmpd"])
        if f == "cmpd":
            sym, con = r.choice(CMP)
            a = self.d(d - 1)
            c = self.d(d - 1)
            if r.random() < 0.3:
                c = ("dlit", pyfold(a), "lit") if pyfold(a) is not None and -(2**167) <= pyfold(a) < 2**167 else c
            return ("cmpd", sym, con, a, c)
        if f == "cmp":
            T = r.choice([(True, 8), (False, 8), (True, 128), U256, I256, (False, 64)])
            sym, con = r.choice(CMP)
            return ("cmp", sym, con, T, self.e(T, d - 1, pin=True), self.e(T, d - 1))
        if f == "in":
            T = r.choice([(True, 8), (False, 8), U256, I256])
            x = self.e(T, d - 1, pin=True)
            els = [self.e(T, max(0, d - 2)) for _ in range(r.randrange(1, 4))]
            if r.random() < 0.4:  # make a hit likely
                v = pyfold(x)
                if v is not None and in_range(T, v):
                    els[r.randrange(len(els))] = ("lit", v, "lit")
            return ("in", r.random() < 0.5, T, x, els)
        if f == "not":
            return ("not", self.b(d - 1))
        if f in ("and", "or"):
            return (f, [self.b(d - 1) for _ in range(r.randrange(2, 4))])
        if f == "bnamed":
            return ("bnamed", self.b(d - 1))
        if f == "cmpv":
            k, a, c = self.vpair()
            return ("cmpv", r.random() < 0.5, k, (a, r.random() < 0.5), (c, r.random() < 0.5))
        k, a, c = self.vpair()
        els = [c] + [self.vpair(k)[2] for _ in range(r.randrange(0, 3))]
        r.shuffle(els)
        return ("inv", r.random() < 0.5, k, (a, r.random() < 0.5), els)

    # ---- non-integer literal kinds: (kind, python value): kind in dec | hexN | addr | str | bytes | bool
    def vpair(self, kind=None):
        """two values of one kind: equal / differing only in letter case / differing in one unit / unrelated"""
        r = self.rnd
        k = kind or r.choice(["dec", "hex", "hex", "hex", "addr", "str", "str", "str", "bytes", "bytes", "bool"])
        rel = r.choice(["equal", "case", "case", "near", "other"])
        if k == "dec":
            a = r.choice([0, 15 * 10**9, -15 * 10**9, 1, 2**167 - 1, -(2**167), r.randrange(-(10**13), 10**13)])
            c = a if rel in ("equal", "case") else (a + 1 if a < 2**167 - 1 else a - 1) if rel == "near" else r.randrange(-(10**13), 10**13)
            return k, a, c
        if k.startswith("hex"):
            n = int(k[3:]) if k[3:] else r.choice([1, 2, 4, 8, 31, 32])
            k = f"hex{n}"
            while True:
                a = bytes(r.choice([0xAB, 0xCD, 0xEF, 0xA1, 0x3F, 0xFA, 0x00, 0x12, r.randrange(256)]) for _ in range(n)).hex()
                if n == 20:
                    continue
                break
            sp = r.choice([str.lower, str.upper])
            if rel == "equal":
                return k, sp(a), sp(a)
            if rel == "case":
                return k, a.upper(), a.lower()
            if rel == "near":
                c = bytearray(bytes.fromhex(a))
                c[r.randrange(n)] ^= r.choice([1, 0x20, 0x80])
                return k, sp(a), r.choice([str.lower, str.upper])(bytes(c).hex())
            return k, sp(a), r.choice([str.lower, str.upper])(bytes(r.randrange(256) for _ in range(n)).hex())
        if k == "addr":
            from eth_utils import to_checksum_address
            a = bytes(r.randrange(256) for _ in range(20))
            c = a if rel in ("equal", "case") else bytes([a[0] ^ 1]) + a[1:] if rel == "near" else bytes(r.randrange(256) for _ in range(20))
            return k, to_checksum_address(a)[2:], to_checksum_address(c)[2:]
        if k in ("str", "bytes"):
            a = r.choice(["Hello", "hello", "ABC", "a", "", "Transfer(address,uint256)", "zZ9_", "x" * 33, "MiXeD Case"])
            if rel == "equal":
                c = a
            elif rel == "case":
                c = a.swapcase() if r.random() < 0.5 else a.lower()
            elif rel == "near":
                c = a[:-1] + chr(ord(a[-1]) ^ 1) if a else "b"
            else:
                c = r.choice(["Hello", "world", "", "abc"])
            return k, a, c
        a = r.random() < 0.5
        return "bool", a, (a if rel in ("equal", "case") else not a)


def pyfold(n):
    """Python-side evaluation (selection of test trees only; never an oracle): folded value or None"""
    try:
        return _pf(n)
    except (ZeroDivisionError, ValueError, OverflowError, IndexError):
        return None


def _pf(n):
    k = n[0]
    if k == "lit":
        return n[1]
    if k == "named":
        return _pf(n[1])
    if k == "bin":
        a, b = _pf(n[3]), _pf(n[4])
        if a is None or b is None:
            return None
        s = n[1]
        if s == "+":
            return a + b
        if s == "-":
            return a - b
        if s == "*":
            return a * b
        if s in ("//", "%"):
            if b == 0:
                return None
            q = abs(a) // abs(b) * (1 if (a < 0) == (b < 0) else -1)
            return q if s == "//" else a - b * q
        if s == "**":
            return None if b < 0 or (abs(a) > 1 and b > 512) else a**b
        return {"&": a & b, "|": a | b, "^": a ^ b}[s]
    if k == "shf":
        a, b = _pf(n[3]), _pf(n[4])
        if a is None or b is None or not 0 <= b <= 256:
            return None
        return a << b if n[1] == "<<" else a >> b
    if k == "un":
        a = _pf(n[3])
        return None if a is None else (-a if n[1] == "-" else (2**256 - 1) ^ a)
    if k in ("min", "max"):
        a, b = _pf(n[1]), _pf(n[2])
        return None if a is None or b is None else (min if k == "min" else max)(a, b)
    if k == "abs":
        a = _pf(n[1])
        return None if a is None else abs(a)
    if k == "shift":
        a, s = _pf(n[1]), _pf(n[2])
        if a is None or s is None or abs(s) > 256:
            return None
        return a >> -s if s < 0 else (a << s) % 2**256
    if k in ("addmod", "mulmod"):
        a, b, c = _pf(n[1]), _pf(n[2]), _pf(n[3])
        if None in (a, b, c) or c == 0:
            return None
        return (a + b) % c if k == "addmod" else (a * b) % c
    if k == "powmod":
        a, b = _pf(n[1]), _pf(n[2])
        return None if a is None or b is None or a < 0 or b < 0 else pow(a, b, 2**256)
    if k == "idx":
        els, i = [_pf(x) for x in n[1]], _pf(n[2])
        if i is None or None in els or not 0 <= i < len(els):
            return None
        return els[i]
    D = 10**10
    if k == "dlit":
        return n[1]
    if k == "dnamed":
        return _pf(n[1])
    if k == "dbin":
        a, b = _pf(n[3]), _pf(n[4])
        if a is None or b is None:
            return None
        s = n[1]
        tq = lambda x, y: abs(x) // abs(y) * (1 if (x < 0) == (y < 0) else -1)  # noqa
        if s == "+":
            return a + b
        if s == "-":
            return a - b
        if s == "*":
            return tq(a * b, D)
        if b == 0:
            return None
        return tq(a * D, b) if s == "/" else (-1 if a < 0 else 1) * (abs(a) % abs(b))
    if k == "dneg":
        a = _pf(n[1])
        return None if a is None else -a
    if k in ("dmin", "dmax"):
        a, b = _pf(n[1]), _pf(n[2])
        return None if a is None or b is None else (min if k == "dmin" else max)(a, b)
    if k in ("floor", "ceil"):
        a = _pf(n[1])
        return None if a is None else (a // D if k == "floor" else -((-a) // D))
    if k == "len":
        return len(n[1])
    if k == "bound":
        return P.bounds(n[2])[1 if n[1] else 0]
    if k == "aswei":
        a = _pf(n[2])
        return None if a is None or a < 0 else a * DENOMS[n[3]]
    if k == "asweid":
        a = _pf(n[1])
        return None if a is None or a < 0 else a * DENOMS[n[2]] // D
    raise AssertionError(k)


def pytcd(n):
    v = pyfold(n)
    if v is None or not -(2**167) <= v < 2**167:
        return False
    k = n[0]
    if k == "dlit":
        return True
    if k in ("dnamed", "dneg"):
        return pytcd(n[1])
    if k == "dbin":
        return pytcd(n[3]) and pytcd(n[4])
    return pytcd(n[1]) and pytcd(n[2])


def pytc(n, T):
    """every node's folded value within its type (selection only)"""
    v = pyfold(n)
    if v is None or not in_range(T, v):
        return False
    k = n[0]
    if k == "lit":
        return True
    if k == "named":
        return pytc(n[1], T)
    if k == "bin":
        return pytc(n[3], T) and pytc(n[4], T)
    if k == "shf":
        return pytc(n[3], T) and pytc(n[4], U256)
    if k == "un":
        return pytc(n[3], T)
    if k in ("min", "max"):
        return pytc(n[1], T) and pytc(n[2], T)
    if k == "abs":
        return pytc(n[1], T)
    if k == "shift":
        return pytc(n[1], T) and pytc(n[2], I256)
    if k in ("addmod", "mulmod"):
        return all(pytc(x, U256) for x in n[1:4])
    if k == "powmod":
        return pytc(n[1], U256) and pytc(n[2], U256)
    if k == "idx":
        return all(pytc(x, T) for x in n[1]) and pytc(n[2], U256)
    if k in ("floor", "ceil"):
        return pytcd(n[1])
    if k in ("len", "bound"):
        return True
    if k == "aswei":
        return pytc(n[2], n[1])
    if k == "asweid":
        return pytcd(n[1])
    raise AssertionError(k)


def depth(n):
    if not isinstance(n, tuple):
        return 0
    sub = []
    for x in n[1:]:
        if isinstance(x, tuple) and x and isinstance(x[0], str) and x[0] in KINDS:
            sub.append(depth(x))
        elif isinstance(x, list):
            sub += [depth(y) for y in x if isinstance(y, tuple)]
    return 1 + max(sub, default=-1) if n[0] not in ("lit", "blit", "dlit") else 0


KINDS = {"dlit", "dnamed", "dbin", "dneg", "dmin", "dmax", "floor", "ceil", "len", "bound", "aswei", "asweid", "cmpd", "lit", "named", "bin", "shf", "un", "min", "max", "abs", "shift", "addmod", "mulmod", "powmod", "idx", "blit", "cmp", "in", "not", "and",
         "or", "bnamed", "cmpv", "inv"}


def safe_for_coq(n):
    """Z.pow inside the run-time specification is computed literally: keep exponents small"""
    if not isinstance(n, tuple):
        return True
    if n[0] == "bin" and n[1] == "**":
        e, b = pyfold(n[4]), pyfold(n[3])
        if e is None or e > 300 or (b is not None and abs(b).bit_length() * e > 80000):
            return False
    if n[0] == "powmod":
        e = pyfold(n[2])
        if e is None or e > 400:
            return False
    for x in n[1:]:
        if isinstance(x, tuple) and not safe_for_coq(x):
            return False
        if isinstance(x, list) and not all(safe_for_coq(y) for y in x):
            return False
    return True


# ------------------------------------------------------------------ rendering
class Ctx:
    """collects constant declarations ({i} = per-probe suffix) and run-time arguments"""

    def __init__(self, rnd):
        self.rnd, self.decls, self.args, self.k = rnd, [], [], 0

    def const(self, prefix, ty, text):
        self.k += 1
        name = f"{prefix}{{i}}c{self.k}"
        self.decls.append(f"{name}: constant({ty}) = {text}\n")
        return name

    def arg(self, ty, val):
        self.args.append((ty, val))
        return f"x{len(self.args) - 1}"

    def pre(self):
        d = list(self.decls)
        self.rnd.shuffle(d)   # constants may be declared after their use: ConstantFolder._get_constants iterates to a fixpoint
        return "".join(d)


def render_e(n, T, cx):
    """-> (literal-side text, run-time text, Coq term)"""
    k = n[0]
    tn = P.tname(T)
    if k == "lit":
        v = n[1]
        rt = cx.arg(tn, v)
        lit = cx.const("A", tn, P.lit(v).strip("()") if v >= 0 else P.lit(v)) if n[2] == "name" else P.lit(v)
        return lit, rt, f"(ELit {coqrun.hexlit(v)})"
    if k == "named":
        l, r, c = render_e(n[1], T, cx)
        return cx.const("K", tn, l), r, f"(ENamed {c})"
    if k == "bin":
        la, ra, ca = render_e(n[3], T, cx)
        lb, rb, cb = render_e(n[4], T, cx)
        return f"({la} {n[1]} {lb})", f"({ra} {n[1]} {rb})", f"(EBin {n[2]} {ca} {cb})"
    if k == "shf":
        la, ra, ca = render_e(n[3], T, cx)
        lb, rb, cb = render_e(n[4], U256, cx)
        return f"({la} {n[1]} {lb})", f"({ra} {n[1]} {rb})", f"(EShf {n[2]} {ca} U256 {cb})"
    if k == "un":
        la, ra, ca = render_e(n[3], T, cx)
        return f"({n[1]}{la})", f"({n[1]}{ra})", f"(EUn {n[2]} {ca})"
    if k in ("min", "max"):
        la, ra, ca = render_e(n[1], T, cx)
        lb, rb, cb = render_e(n[2], T, cx)
        return f"{k}({la}, {lb})", f"{k}({ra}, {rb})", f"(E{k.capitalize()} {ca} {cb})"
    if k == "abs":
        la, ra, ca = render_e(n[1], T, cx)
        return f"abs({la})", f"abs({ra})", f"(EAbs {ca})"
    if k == "shift":
        la, ra, ca = render_e(n[1], T, cx)
        lb, rb, cb = render_e(n[2], I256, cx)
        return f"shift({la}, {lb})", f"shift({ra}, {rb})", f"(EShift {ca} I256 {cb})"
    if k in ("addmod", "mulmod"):
        parts = [render_e(x, U256, cx) for x in n[1:4]]
        f = "uint256_" + k
        return (f"{f}({', '.join(p[0] for p in parts)})", f"{f}({', '.join(p[1] for p in parts)})",
                f"(E{'AddMod' if k == 'addmod' else 'MulMod'} {' '.join(p[2] for p in parts)})")
    if k == "powmod":
        la, ra, ca = render_e(n[1], U256, cx)
        lb, rb, cb = render_e(n[2], U256, cx)
        return f"pow_mod256({la}, {lb})", f"pow_mod256({ra}, {rb})", f"(EPowMod {ca} {cb})"
    if k in ("floor", "ceil"):
        l, r, c = render_d(n[1], cx)
        return f"{k}({l})", f"{k}({r})", f"(E{k.capitalize()} {c})"
    if k == "len":
        txt, kind, named = n[1], n[2], n[3]
        ty = f"{'String' if kind == 'str' else 'Bytes'}[{max(1, len(txt))}]"
        lit = ('"' if kind == "str" else 'b"') + txt + '"'
        rt = cx.arg(ty, txt if kind == "str" else txt.encode())
        return f"len({cx.const('S', ty, lit) if named else lit})", f"len({rt})", f"(ELen {_codes(txt)})"
    if k == "bound":
        rt = cx.arg(tn, P.bounds(n[2])[1 if n[1] else 0])
        return f"{'max' if n[1] else 'min'}_value({P.tname(n[2])})", rt, f"(EBound {'true' if n[1] else 'false'} {coq_ty(n[2])})"
    if k == "aswei":
        l, r, c = render_e(n[2], n[1], cx)
        return f'as_wei_value({l}, "{n[3]}")', f'as_wei_value({r}, "{n[3]}")', f"(EAsWei {coq_ty(n[1])} {c} {DENOMS[n[3]]})"
    if k == "asweid":
        l, r, c = render_d(n[1], cx)
        return f'as_wei_value({l}, "{n[2]}")', f'as_wei_value({r}, "{n[2]}")', f"(EAsWeiD {c} {DENOMS[n[2]]})"
    if k == "idx":
        parts = [render_e(x, T, cx) for x in n[1]]
        li, ri, ci = render_e(n[2], U256, cx)
        cl = "LNil"
        for p in reversed(parts):
            cl = f"(LCons {p[2]} {cl})"
        return f"[{', '.join(p[0] for p in parts)}][{li}]", f"[{', '.join(p[1] for p in parts)}][{ri}]", f"(EIdx {cl} U256 {ci})"
    raise AssertionError(k)


def render_d(n, cx):
    k = n[0]
    if k == "dlit":
        v = n[1]
        rt = cx.arg("decimal", v)
        lit = cx.const("D", "decimal", P.dec_lit(v).strip("()")) if n[2] == "name" else P.dec_lit(v)
        return lit, rt, f"(DLit {coqrun.hexlit(v)})"
    if k == "dnamed":
        l, r, c = render_d(n[1], cx)
        return cx.const("KD", "decimal", l), r, f"(DNamed {c})"
    if k == "dbin":
        la, ra, ca = render_d(n[3], cx)
        lb, rb, cb = render_d(n[4], cx)
        return f"({la} {n[1]} {lb})", f"({ra} {n[1]} {rb})", f"(DBin {n[2]} {ca} {cb})"
    if k == "dneg":
        la, ra, ca = render_d(n[1], cx)
        return f"(-{la})", f"(-{ra})", f"(DNeg {ca})"
    la, ra, ca = render_d(n[1], cx)
    lb, rb, cb = render_d(n[2], cx)
    f = k[1:]
    return f"{f}({la}, {lb})", f"{f}({ra}, {rb})", f"(DMinMax {'true' if f == 'max' else 'false'} {ca} {cb})"


def _codes(s):
    return "[" + "; ".join(str(c) for c in (s if isinstance(s, bytes) else s.encode())) + "]"


def render_v(kind, val, named, cx):
    """a literal of a non-integer kind -> (literal text or constant name, run-time arg, Coq cval)"""
    if kind == "dec":
        ty, lit, arg, cq = "decimal", (P.dec_lit(val).strip("()") if val >= 0 else P.dec_lit(val)), val, f"(VDec {coqrun.hexlit(val)})"
    elif kind.startswith("hex"):
        ty, lit, arg, cq = f"bytes{int(kind[3:])}", "0x" + val, bytes.fromhex(val), f"(VHex {_codes(val)})"
    elif kind == "addr":
        ty, lit, arg, cq = "address", "0x" + val, "0x" + val, f"(VHex {_codes(val)})"
    elif kind == "str":
        ty, lit, arg, cq = f"String[{max(1, len(val))}]", '"' + val + '"', val, f"(VStr {_codes(val)})"
    elif kind == "bytes":
        ty, lit, arg, cq = f"Bytes[{max(1, len(val))}]", 'b"' + val + '"', val.encode(), f"(VBytes {_codes(val)})"
    else:
        ty, lit, arg, cq = "bool", str(bool(val)), bool(val), f"(VBool {'true' if val else 'false'})"
    rt = cx.arg(ty, arg)
    return (cx.const("V", ty, lit) if named else lit), rt, cq


def render_b(n, cx):
    k = n[0]
    if k == "blit":
        rt = cx.arg("bool", n[1])
        lit = cx.const("B", "bool", str(n[1])) if n[2] == "name" else str(n[1])
        return lit, rt, f"(BLit {'true' if n[1] else 'false'})"
    if k == "bnamed":
        l, r, c = render_b(n[1], cx)
        return cx.const("KB", "bool", l), r, f"(BNamed {c})"
    if k == "cmpd":
        la, ra, ca = render_d(n[3], cx)
        lb, rb, cb = render_d(n[4], cx)
        return f"({la} {n[1]} {lb})", f"({ra} {n[1]} {rb})", f"(BCmpD {n[2]} {ca} {cb})"
    if k == "cmp":
        T = n[3]
        la, ra, ca = render_e(n[4], T, cx)
        lb, rb, cb = render_e(n[5], T, cx)
        return f"({la} {n[1]} {lb})", f"({ra} {n[1]} {rb})", f"(BCmp {n[2]} {coq_ty(T)} {ca} {cb})"
    if k == "in":
        T = n[2]
        la, ra, ca = render_e(n[3], T, cx)
        parts = [render_e(x, T, cx) for x in n[4]]
        cl = "LNil"
        for p in reversed(parts):
            cl = f"(LCons {p[2]} {cl})"
        op = "not in" if n[1] else "in"
        return (f"({la} {op} [{', '.join(p[0] for p in parts)}])", f"({ra} {op} [{', '.join(p[1] for p in parts)}])",
                f"(BIn {'true' if n[1] else 'false'} {coq_ty(T)} {ca} {cl})")
    if k == "not":
        l, r, c = render_b(n[1], cx)
        return f"(not {l})", f"(not {r})", f"(BNot {c})"
    if k in ("and", "or"):
        parts = [render_b(x, cx) for x in n[1]]
        cl = "BNil"
        for p in reversed(parts):
            cl = f"(BCons {p[2]} {cl})"
        return (f"({f' {k} '.join(p[0] for p in parts)})", f"({f' {k} '.join(p[1] for p in parts)})", f"({'BConj' if k == 'and' else 'BDisj'} {cl})")
    if k == "cmpv":
        la, ra, ca = render_v(n[2], n[3][0], n[3][1], cx)
        lb, rb, cb = render_v(n[2], n[4][0], n[4][1], cx)
        op = "!=" if n[1] else "=="
        return f"({la} {op} {lb})", f"({ra} {op} {rb})", f"(BCmpV {'true' if n[1] else 'false'} {ca} {cb})"
    if k == "inv":
        la, ra, ca = render_v(n[2], n[3][0], n[3][1], cx)
        parts = [render_v(n[2], v, False, cx) for v in n[4]]
        op = "not in" if n[1] else "in"
        return (f"({la} {op} [{', '.join(p[0] for p in parts)}])", f"({ra} {op} [{', '.join(p[1] for p in parts)}])",
                f"(BInV {'true' if n[1] else 'false'} {ca} [{'; '.join(p[2] for p in parts)}])")
    raise AssertionError(k)


class Case:
    __slots__ = ("tree", "T", "lit", "rt", "coq", "pre", "args", "cls", "real", "model", "probe")

    def __init__(self, tree, T, rnd):
        cx = Ctx(rnd)
        self.tree, self.T = tree, T
        if T is None:
            self.lit, self.rt, self.coq = render_b(tree, cx)
        elif T == "dec":
            self.lit, self.rt, self.coq = render_d(tree, cx)
        else:
            self.lit, self.rt, self.coq = render_e(tree, T, cx)
        self.pre, self.args = cx.pre(), cx.args
        self.real = self.model = self.probe = None

    def ret(self):
        return "bool" if self.T is None else "decimal" if self.T == "dec" else P.tname(self.T)

    def module(self):
        return self.pre.replace("{i}", "0") + f"R: constant({self.ret()}) = {self.lit.replace('{i}', '0')}\n"

    def coq_expr(self):
        if self.T is None:
            return f"enc_nestb gP gT {self.coq}"
        if self.T == "dec":
            return f"enc_nestd gP gT {self.coq}"
        return f"enc_nest gP gT {coq_ty(self.T)} {self.coq}"

    def ident(self):
        return {"type": self.ret(), "constants": self.pre.replace("{i}", "0"), "expression": self.lit.replace("{i}", "0"),
                "runtime_expression": self.rt, "runtime_args": [f"{t} {a!r}" for t, a in self.args]}


def has_v(n):
    if isinstance(n, tuple):
        return n[0] in ("cmpv", "inv") or any(has_v(x) for x in n[1:])
    if isinstance(n, list):
        return any(has_v(x) for x in n)
    return False


MUST = [  # always present: the case-sensitivity rules of visit_Compare (hex texts are compared case-insensitively, nothing else is)
    ("cmpv", False, "str", ("Hello", False), ("hello", False)), ("cmpv", True, "str", ("ABC", True), ("abc", True)),
    ("cmpv", False, "str", ("Hello", True), ("Hello", False)), ("cmpv", False, "bytes", ("Hello", False), ("hello", True)),
    ("cmpv", False, "hex4", ("A1AAB33F", False), ("a1aab33f", False)), ("cmpv", True, "hex4", ("A1AAB33F", True), ("a1aab33f", False)),
    ("cmpv", False, "hex4", ("a1aab33f", False), ("A1AAB33F", True)), ("inv", False, "hex4", ("a1aab33f", True), ["00000000", "A1AAB33F"]),
    ("cmpv", False, "hex32", ("AB" * 32, False), ("ab" * 31 + "aa", True)),
    ("inv", False, "hex4", ("A1AAB33F", False), ["a1aab33f", "00000000"]), ("inv", True, "hex4", ("A1AAB33F", True), ["00000000", "a1aab33f"]),
    ("inv", False, "hex2", ("abcd", False), ["ABCD"]), ("inv", False, "str", ("Hello", False), ["hello", "HELLO"]),
    ("inv", True, "bytes", ("abc", False), ["ABC", "abd"]), ("inv", False, "dec", (15 * 10**9, False), [15 * 10**9 + 1, 15 * 10**9]),
    ("cmpv", False, "dec", (-(2**167), False), (-(2**167), True)), ("cmpv", True, "bool", (True, True), (False, False)),
    ("or", [("cmpv", False, "str", ("Hi", True), ("hi", False)), ("inv", False, "hex1", ("AB", False), ["ab"])]),
    ("not", ("bnamed", ("cmpv", False, "str", ("MiXeD", False), ("mixed", True)))),
    # n-ary and / or where only the LAST operand decides
    ("and", [("cmp", "<", "CLt", (True, 8), ("lit", -128, "name"), ("bin", "+", "BAdd", ("lit", 100, "lit"), ("lit", 27, "name"))), ("blit", True, "name"),
             ("cmp", "==", "CEq", U256, ("lit", 2**256 - 1, "name"), ("lit", 0, "lit"))]),
    ("or", [("blit", False, "lit"), ("not", ("blit", True, "name")),
            ("in", False, (False, 8), ("lit", 255, "name"), [("lit", 1, "lit"), ("bin", "-", "BSub", ("lit", 255, "name"), ("lit", 0, "lit"))])]),
    ("and", [("blit", True, "lit"), ("blit", True, "name"), ("blit", True, "lit"), ("bnamed", ("blit", False, "name"))]),
]


def generate(ctx, n_int, n_bool, n_v, salt="nest", must=True):
    """-> list of Case: a mix of accepted trees, trees with an out-of-range INTERMEDIATE but an in-range result, and others"""
    rnd = ctx.rng(salt)
    g = Gen(rnd)
    types = [(True, 8), (False, 8), (True, 16), (True, 128), U256, I256, U256, I256, (False, 64), rnd.choice([(s, b) for b in range(24, 249, 8) for s in (False, True)])]
    want = {"accept": int(n_int * 0.6), "intermediate": int(n_int * 0.25), "other": n_int - int(n_int * 0.6) - int(n_int * 0.25)}
    got = {k: [] for k in want}
    tries = 0
    while any(len(got[k]) < want[k] for k in want) and tries < 60000:
        tries += 1
        T = rnd.choice(types)
        t = g.e(T, rnd.randrange(2, 6))
        if not 2 <= depth(t) <= 5 or not safe_for_coq(t):
            continue
        v = pyfold(t)
        cls = "accept" if pytc(t, T) else "intermediate" if (v is not None and in_range(T, v)) else "other"
        if len(got[cls]) < want[cls]:
            c = Case(t, T, rnd)
            c.cls = cls
            got[cls].append(c)
    cases = got["accept"] + got["intermediate"] + got["other"]
    nd, tries = 0, 0
    n_dec = max(6, n_int // 4)
    dgot = {"accept": 0, "intermediate": 0, "other": 0}
    dwant = {"accept": n_dec - 2 * (n_dec // 4), "intermediate": n_dec // 4, "other": n_dec // 4}
    while nd < n_dec and tries < 20000:
        tries += 1
        t = g.d(rnd.randrange(2, 5))
        if not 2 <= depth(t) <= 5:
            continue
        v = pyfold(t)
        cls = "accept" if pytcd(t) else "intermediate" if (v is not None and -(2**167) <= v < 2**167) else "other"
        if dgot[cls] >= dwant[cls]:
            continue
        dgot[cls] += 1
        c = Case(t, "dec", rnd)
        c.cls = cls
        cases.append(c)
        nd += 1
    nb = 0
    tries = 0
    while nb < n_bool + n_v and tries < 20000:
        tries += 1
        if nb < n_v:  # comparisons of non-integer literal kinds, bare or one level below and / or / not
            t = g.b(1) if rnd.random() < 0.7 else g.b(2)
            if not has_v(t) or not safe_for_coq(t):
                continue
        else:
            t = g.b(rnd.randrange(2, 5))
            if not 2 <= depth(t) <= 5 or not safe_for_coq(t):
                continue
        c = Case(t, None, rnd)
        c.cls = "bool"
        cases.append(c)
        nb += 1
    if must:
        for t in MUST:
            c = Case(t, None, rnd)
            c.cls = "bool"
            cases.append(c)
    return cases


# ------------------------------------------------------------------ tie 1: the real front end
def real_frontend(src):
    """('ok', folded value) | ('nofold', _) | ('err', exception name)"""
    from pathlib import Path

    from vyper import ast as vy_ast
    from vyper.compiler.input_bundle import FileInput
    from vyper.compiler.phases import CompilerData
    from vyper.compiler.settings import Settings
    with warnings.catch_warnings():
        warnings.simplefilter("ignore")
        try:
            cd = CompilerData(FileInput(0, Path("t.vy"), Path("t.vy"), src), settings=Settings(enable_decimals=True))
            m = cd.annotated_vyper_module
        except Exception as e:
            return "err", type(e).__name__
        for d in m.get_children(vy_ast.VariableDecl):
            if d.target.id == "R":
                try:
                    return "ok", d.value.get_folded_value().value
                except Exception as e:
                    return "nofold", type(e).__name__
    return "err", "no-R"


def frontend_tie(ctx, cases, prelude):
    """returns (n, mismatches).  Directions checked:
       real accepts with value v   =>  model: fold_e = v, tc = true (wf may be false only for shapes the model does not speak about)
       model: fold ok, final value in range, tc = false (an intermediate is out of range)  =>  real rejects."""
    outs = coqrun.eval_zlists(prelude + NEST_IMPORT, ["(" + " ++ ".join(f"({c.coq_expr()})" for c in cases[i:i + 60]) + ")" for i in range(0, len(cases), 60)],
                              "c17nest", shard=2, timeout=300)
    flat = [x for o in outs for x in o]
    assert len(flat) == 6 * len(cases), (len(flat), len(cases))
    mism = []
    stats = {"real_accept": 0, "real_reject": 0, "model_tc_reject_intermediate": 0, "nofold": 0}
    for i, c in enumerate(cases):
        ff, fv, tc, wf, ef, ev = flat[6 * i:6 * i + 6]
        c.model = {"fold": fv if ff else None, "tc": bool(tc), "wf": bool(wf), "eval": ev if ef else None}
        c.real = real_frontend(c.module())
        st, v = c.real
        if st == "ok":
            stats["real_accept"] += 1
            if c.T == "dec":
                from decimal import Decimal
                v = int(Decimal(v) * Decimal(10**10))
            else:
                v = int(v)
            if not (ff and fv == v and tc):
                mism.append({"case": c.ident(), "real_frontend": f"accepts, folded value {v}", "model": str(c.model),
                             "what": "the real front end accepts / folds differently from the model"})
        elif st == "nofold":
            stats["nofold"] += 1
            if ff and tc and wf:
                mism.append({"case": c.ident(), "real_frontend": f"accepts but does not fold ({v})", "model": str(c.model),
                             "what": "the model folds an expression the ConstantFolder leaves unfolded"})
        else:
            stats["real_reject"] += 1
        if ff and not tc:
            stats["model_tc_reject_intermediate"] += 1
    ctx.corr["nest_frontend"] = stats
    return len(cases), mism


# ------------------------------------------------------------------ tie 2: twin probes
def twin_probes(ctx, cases, cfgs_lit, cfgs_rt):
    """literal side vs run-time side for the cases the front end accepts (+ a few it rejects: both sides must not disagree
    on a value either).  Returns (n_evaluations, failing, mismatches-with-model)."""
    front = cfgs_lit[0]
    probes = []
    for c in cases:
        if c.real is None or c.real[0] == "err" and c.cls != "intermediate":
            continue
        p = P.Probe("nest", c.T, (), c.lit, [t for t, _ in c.args], c.rt, [a for _, a in c.args], c.ret(), pre=c.pre)
        c.probe = p
        probes.append(p)
    stats = {}
    P.run_literal_side(probes, lambda k: cfgs_lit, front, batch=25, stats=stats)

    def abi_valid(p):
        for t, a in zip(p.argtypes, p.args):
            if t == "decimal" and not -(2**167) <= a < 2**167:
                return False
            if (t.startswith("int") or t.startswith("uint")) and t.lstrip("uint").isdigit() and isinstance(a, int) and not isinstance(a, bool):
                if not in_range((t.startswith("int"), int(t.lstrip("uint"))), a):
                    return False
        return True
    callable_ = [p for p in probes if abi_valid(p)]
    for p in probes:
        if not abi_valid(p):  # a leaf outside its type cannot be supplied as a non-constant: the ABI decoder of the twin reverts
            p.rt_res["abi-invalid-leaf"] = "revert"
    P.run_runtime_side(callable_, cfgs_rt, front, batch=25, stats=stats)
    n_eval, failing, mism = 0, 0, []
    combos = {}
    per_key = {}
    for c in cases:
        p = c.probe
        if p is None:
            continue
        signed = c.T == "dec" or (c.T is not None and c.T[0])

        def dec(v):
            if isinstance(v, (bytes, bytearray)) and len(v) == 32:
                return P.decode_int(v, signed)
            return v if isinstance(v, str) else bytes(v).hex()
        lit = {k: dec(v) for k, v in p.lit_res.items() if k != "why"}
        rt = {k: dec(v) for k, v in p.rt_res.items() if k != "why"}
        n_eval += len(lit) + len(rt)
        harness = [v for v in list(lit.values()) + list(rt.values()) if isinstance(v, str) and (v.startswith("encode") or v.startswith("deploy"))]
        if harness:
            mism.append({"case": c.ident(), "harness": harness[:2]})
            continue
        lv = {v for v in lit.values() if isinstance(v, int)}
        rv = {v for v in rt.values() if isinstance(v, int)}
        key = ("value" if lv else "reject") + "/" + ("value" if rv else "revert" if "revert" in rt.values() else "reject")
        combos[key] = combos.get(key, 0) + 1
        if len(lv | rv) > 1:
            failing += 1
            kinds = sorted({x[0] for x in _walk(c.tree)} & {"cmpv", "inv", "cmp", "in", "idx", "shift", "shf", "powmod", "addmod", "mulmod", "abs", "min", "max"})
            kkey = f"c17:nest:{c.ret()}:{'+'.join(kinds) or 'arith'}"
            per_key[kkey] = per_key.get(kkey, 0) + 1
            if per_key[kkey] > 2:
                ctx.corr["nest_further_failing_probes"] = ctx.corr.get("nest_further_failing_probes", 0) + 1
                continue
            ctx.violation("failing-input", f"nested constant expression: folded value differs from run-time value ({c.ret()})",
                          {"case": c.ident(), "literal_side": {k: str(v) for k, v in lit.items()}, "runtime_side": {k: str(v) for k, v in rt.items()},
                           "model": str(c.model),
                           "how": "literal side: `<constants>` + `@external def L() -> T: return <expression>`; run-time side: `@external def R(x0: .., ..) -> T: "
                                  "return <runtime_expression>` called with runtime_args; compile both with vyper.compiler.compile_code under the named configuration"},
                          key=kkey)
            continue
        if rv and "revert" in rt.values():
            failing += 1
            ctx.violation("failing-input", "nested expression: run-time side reverts under some configurations and returns a value under others",
                          {"case": c.ident(), "runtime_side": {k: str(v) for k, v in rt.items()}}, key=f"c17:nest-runtime-configs-disagree:{c.ret()}")
            continue
        if c.model is not None and c.model["wf"]:
            m = c.model
            obs_l = next(iter(lv)) if lv else None
            obs_r = next(iter(rv)) if rv else None
            exp_l = m["fold"] if m["tc"] else None
            rt_rejected = all(v == P.REJECT for v in rt.values())
            if obs_l != exp_l and not (obs_l is None and exp_l is not None and c.real[0] != "ok"):
                mism.append({"case": c.ident(), "model_fold": str(exp_l), "compiler_fold": str(obs_l), "what": "literal side vs fold_e/tc"})
            elif not rt_rejected and obs_r != m["eval"]:
                mism.append({"case": c.ident(), "model_eval": str(m["eval"]), "runtime": str(obs_r), "what": "run-time side vs eval (ArithSpec composition)"})
    ctx.corr["nest_probe_outcomes"] = combos
    ctx.corr["nest_probe_compiles"] = stats.get("compiles", 0)
    return n_eval, failing, mism


def _walk(n):
    if isinstance(n, tuple):
        if n and isinstance(n[0], str) and n[0] in KINDS:
            yield n
        for x in n[1:]:
            yield from _walk(x)
    elif isinstance(n, list):
        for x in n:
            yield from _walk(x)


# ------------------------------------------------------------------ part 4: flags and struct constants (twin contracts)
FLAG_SRC = """
flag F:
    A
    B
    C
    D

struct S:
    a: uint256
    b: int8

struct T2:
    s: S
    c: bool

K: constant(S) = S(a=3 + 4 * 5, b=-128 + 1)
K2: constant(uint256) = 2 ** 8 - 1
K3: constant(S) = S(a=K2 * 2, b=max(-5, 3) - 4)
J: constant(T2) = T2(s=K3, c=K2 < 256)
L: constant(uint256[3]) = [1 + 1, K2 * 3, 7]
I: constant(uint256) = 1
"""
# flag "constants" are expressions over flag members (this compiler version does not admit `constant(F)` declarations:
# "Value must be a literal"); struct / list constants are not folded as a whole, their member expressions are.
FLAG_PAIRS = [  # (name, return type, compile-time expression, run-time argument types, run-time expression, args)
    ("or", "F", "(F.A | F.C) | (F.B | F.A | F.C)", ["F", "F"], "x0 | x1", (5, 7)), ("and", "F", "(F.A | F.C) & F.B", ["F", "F"], "x0 & x1", (5, 2)),
    ("and2", "F", "(F.A | F.B | F.C) & F.C", ["F", "F"], "x0 & x1", (7, 4)), ("xor", "F", "(F.A | F.C) ^ (F.A | F.B | F.C)", ["F", "F"], "x0 ^ x1", (5, 7)),
    ("not", "F", "~(F.A | F.C)", ["F"], "~x0", (5,)), ("notnot", "F", "~(~(F.A | F.B | F.C))", ["F"], "~(~x0)", (7,)), ("notD", "F", "~F.D", ["F"], "~x0", (8,)),
    ("nest", "F", "((F.A | F.C) | F.D) & ~((F.A | F.B | F.C) ^ F.A)", ["F", "F", "F", "F"], "(x0 | x1) & ~(x2 ^ x3)", (5, 8, 7, 1)),
    ("in1", "bool", "F.A in (F.A | F.C)", ["F", "F"], "x0 in x1", (1, 5)), ("in2", "bool", "F.B in (F.A | F.C)", ["F", "F"], "x0 in x1", (2, 5)),
    ("in3", "bool", "(F.A | F.B | F.C) in ~(F.A | F.B | F.C)", ["F", "F"], "x0 in x1", (7, 8)), ("in4", "bool", "(F.A | F.B) in (F.A | F.C)", ["F", "F"], "x0 in x1", (3, 5)),
    ("nin1", "bool", "F.B not in (F.A | F.C)", ["F", "F"], "x0 not in x1", (2, 5)), ("nin2", "bool", "F.C not in (F.A | F.B | F.C)", ["F", "F"], "x0 not in x1", (4, 7)),
    ("eq", "bool", "(F.A | F.C) == (F.C | F.A)", ["F", "F"], "x0 == x1", (5, 5)), ("ne", "bool", "(F.A | F.C) != (F.A | F.D)", ["F", "F"], "x0 != x1", (5, 9)),
    ("sa", "uint256", "K.a", ["uint256", "uint256", "uint256"], "S(a=x0 + x1 * x2, b=1).a", (3, 4, 5)),
    ("sb", "int8", "K.b", ["int8", "int8"], "S(a=1, b=x0 + x1).b", (-128, 1)),
    ("sa2", "uint256", "K.a * 2 + K3.a", ["uint256", "uint256"], "S(a=x0, b=1).a * 2 + S(a=x1 * 2, b=1).a", (23, 255)),
    ("sb2", "int8", "K3.b + K.b", ["int8", "int8", "int8", "int8"], "S(a=1, b=max(x0, x1) - x2).b + x3", (-5, 3, 4, -127)),
    ("js", "int8", "J.s.b - 1", ["int8", "int8", "int8"], "T2(s=S(a=1, b=max(x0, x1) - x2), c=True).s.b - 1", (-5, 3, 4)),
    ("jc", "bool", "J.c and K.a == 23", ["uint256", "uint256"], "T2(s=S(a=1, b=1), c=x0 < 256).c and x1 == 23", (255, 23)),
    ("l1", "uint256", "L[1] + L[I + 1]", ["uint256", "uint256"], "[2, x0 * 3, 7][1] + [2, x0 * 3, 7][x1 + 1]", (255, 1)),
    ("len1", "uint256", 'len("hello") + len(b"\\x00\\x01") * 2', ["String[8]", "Bytes[8]"], "len(x0) + len(x1) * 2", ("hello", b"\x00\x01")),
]


def flag_struct_twins(ctx, cfgs):
    """folded (constants) vs run-time (arguments) for flag operators, flag membership, struct-constant members and len();
    returns (n_evaluations, failing)"""
    src = FLAG_SRC
    for nm, ret, fe, at, re_, _ in FLAG_PAIRS:
        src += f"\n@external\ndef c_{nm}() -> {ret}:\n    return {fe}\n"
        src += f"\n@external\ndef r_{nm}({', '.join(f'x{i}: {t}' for i, t in enumerate(at))}) -> {ret}:\n    return {re_}\n"
    n, failing = 0, 0
    abi = lambda t: "uint256" if t == "F" else "string" if t.startswith("String") else "bytes" if t.startswith("Bytes") else t  # noqa
    results = {}
    for cfg in cfgs:
        code = P.full_compile(src, cfg)
        if isinstance(code, Exception):
            ctx.violation("correspondence-broken", "flag / struct twin contract rejected", {"config": cfg.name, "error": f"{type(code).__name__}: {str(code)[:300]}"})
            return n, failing
        ch, addr = P._deploy(code, cfg)
        for nm, ret, fe, at, re_, args in FLAG_PAIRS:
            a = ch.call(addr, P._selector(f"c_{nm}()"))
            ats = [abi(t) for t in at]
            b = ch.call(addr, P._selector(f"r_{nm}({','.join(ats)})") + encode(ats, list(args)))
            n += 2
            results.setdefault(nm, {})[cfg.name] = (bytes(a.out).hex() if a.ok else "revert", bytes(b.out).hex() if b.ok else "revert")
    for nm, ret, fe, at, re_, args in FLAG_PAIRS:
        vals = {v for pr in results[nm].values() for v in pr}
        if len(vals) > 1:
            failing += 1
            ctx.violation("failing-input", f"flag / struct / len constant expression `{fe}`: folded value differs from run-time value",
                          {"source": src, "folded_call": f"c_{nm}()", "runtime_call": f"r_{nm}{args}", "results (folded, run time) per configuration": {k: list(v) for k, v in results[nm].items()}},
                          key=f"c17:flag-struct:{nm}")
    ctx.corr["flag_struct_pairs"] = len(FLAG_PAIRS)
    return n, failing


# ------------------------------------------------------------------ syntactic tie of the hand-modelled dispatch code
MIRRORED = [  # (module, class or None, function): the source NestModel.v's fold_e / tc / veq_fold were written from
    ("vyper.semantics.analysis.constant_folding", "ConstantFolder", f) for f in
    ("_get_constants", "visit", "visit_Constant", "visit_Name", "visit_UnaryOp", "visit_BinOp", "visit_BoolOp", "visit_Compare", "visit_List",
     "visit_Call", "visit_Subscript")] + [
    ("vyper.semantics.analysis.local", "ExprVisitor", f) for f in
    ("visit", "visit_BinOp", "visit_BoolOp", "visit_Compare", "visit_Constant", "visit_List", "visit_Name", "visit_Subscript", "visit_UnaryOp")] + [
    ("vyper.semantics.types.primitives", "NumericT", "validate_literal"), ("vyper.ast.parse", "AnnotatingVisitor", "visit_UnaryOp"),
    ("vyper.ast.nodes", "Num", "validate"), ("vyper.ast.nodes", "In", "_op"), ("vyper.ast.nodes", "NotIn", "_op"),
    ("vyper.ast.nodes", "VyperNode", "from_node")]
# function -> sha256 prefix of ast.dump of its source, as of the tree the model was written against (/repo at 70929bb)
FINGERPRINT = {
    "constant_folding.ConstantFolder._get_constants": "12c005452972bdad",
    "constant_folding.ConstantFolder.visit": "b33711bd69eb4114",
    "constant_folding.ConstantFolder.visit_Constant": "07d3713256c816a7",
    "constant_folding.ConstantFolder.visit_Name": "4535d65a1dcee6f3",
    "constant_folding.ConstantFolder.visit_UnaryOp": "f80168a441539554",
    "constant_folding.ConstantFolder.visit_BinOp": "da5640a352e736e5",
    "constant_folding.ConstantFolder.visit_BoolOp": "5de84e70dfdf1ecc",
    "constant_folding.ConstantFolder.visit_Compare": "ceb1c4fe730cdc2f",
    "constant_folding.ConstantFolder.visit_List": "23bf403bfad0d945",
    "constant_folding.ConstantFolder.visit_Call": "3a967593514e2e7f",
    "constant_folding.ConstantFolder.visit_Subscript": "7fd02c7bea8c599e",
    "local.ExprVisitor.visit": "c702634ebbfc94a3",
    "local.ExprVisitor.visit_BinOp": "9bac15b7bae824dd",
    "local.ExprVisitor.visit_BoolOp": "f409fe3e755a09ba",
    "local.ExprVisitor.visit_Compare": "0a2aa3cd1f7419e8",
    "local.ExprVisitor.visit_Constant": "1a27c5123eb57f7d",
    "local.ExprVisitor.visit_List": "4c94aff7347c97ab",
    "local.ExprVisitor.visit_Name": "35313be9ca232452",
    "local.ExprVisitor.visit_Subscript": "e9c79cd0ac8a8f51",
    "local.ExprVisitor.visit_UnaryOp": "6bf49ea858a17502",
    "primitives.NumericT.validate_literal": "b506fdf91bea64aa",
    "parse.AnnotatingVisitor.visit_UnaryOp": "2b7ab3dd13564fb8",
    "nodes.Num.validate": "0215208ee8ac593b",
    "nodes.In._op": "522fe25ae42b454e",
    "nodes.NotIn._op": "673452e565e39f68",
    "nodes.VyperNode.from_node": "6ee889c1350589e0",
}


def source_fingerprint():
    """normalised (comment / layout independent) hash of every mirrored function of the CURRENT tree"""
    import ast as pyast
    import hashlib
    import importlib
    import inspect
    import textwrap
    out = {}
    for mod, cls, fn in MIRRORED:
        name = f"{mod.split('.')[-1]}.{cls}.{fn}"
        try:
            obj = getattr(getattr(importlib.import_module(mod), cls), fn)
            src = textwrap.dedent(inspect.getsource(obj))
            out[name] = hashlib.sha256(pyast.dump(pyast.parse(src)).encode()).hexdigest()[:16]
        except Exception as e:  # moved / renamed: counts as changed
            out[name] = f"missing:{type(e).__name__}"
    return out


# ------------------------------------------------------------------ orchestration (called from tools/checks/c17.py)
def run(ctx, cfgs, prelude, model_ok):
    """returns (n_evaluations, n_failing).  Protocol: front-end tie / model-prediction mismatches trigger the Search (a four
    times larger generated set through the twin probes); a value conflict found there (or here) is a failing-input, otherwise
    correspondence-broken naming the tie."""
    quick = ctx.tier == "quick"
    sizes = base = (36, 10, 12) if quick else (260, 70, 80)
    # syntactic tie: the dispatch code the hand model mirrors, compared with the recorded tree; a change does not by itself
    # raise a violation (the differential decides) but triples the sample of this run
    cur = source_fingerprint()
    changed = sorted(k for k in cur if FINGERPRINT.get(k) != cur[k])
    ctx.corr["nest_mirrored_functions"] = len(cur)
    ctx.corr["nest_mirrored_functions_changed"] = changed
    if changed and quick:
        ctx.log(f"nested: mirrored source changed ({', '.join(changed)}): larger sample")
        sizes = tuple(3 * x for x in sizes)
    cases = generate(ctx, *sizes)
    total, mism = 0, []
    if model_ok:
        n, mism = frontend_tie(ctx, cases, prelude)
        total += n
    else:
        for c in cases:
            c.real = real_frontend(c.module())
    lit_cfgs = cfgs[:2]
    rt_cfgs = [cfgs[0], cfgs[1], cfgs[2 + ctx.seed % max(1, len(cfgs) - 2)]] if quick else cfgs[:8]
    n, failing, m2 = twin_probes(ctx, cases, lit_cfgs, rt_cfgs)
    total += n
    mism += m2
    n, f2 = flag_struct_twins(ctx, cfgs[:3] if quick else cfgs[:8])
    total += n
    failing += f2
    ctx.corr["nest_cases"] = len(cases)
    ctx.corr["nest_classes"] = {k: sum(1 for c in cases if c.cls == k) for k in ("accept", "intermediate", "other", "bool")}
    ctx.corr["nest_depths"] = {str(d): sum(1 for c in cases if depth(c.tree) == d) for d in range(0, 7)}
    for c in cases[:2]:
        ctx.samples.append({"nested": c.ident(), "real_frontend": str(c.real), "model": str(c.model)})
    if mism and not failing:
        more = generate(ctx, base[0] * 4, base[1] * 4, base[2] * 4, salt="nest-search", must=False)
        for c in more:
            c.real = real_frontend(c.module())
        ctx.log(f"nested search: {len(more)} further generated expressions through the twin probes")
        n, f3, _ = twin_probes(ctx, more, lit_cfgs, rt_cfgs[:2])
        total += n
        failing += f3
    if mism and not failing:
        for m in mism[:4]:
            ctx.violation("correspondence-broken", "nested-expression model (NestModel.v: fold_e / tc / eval) disagrees with the real compiler "
                          "(no value conflict between the folded and the run-time side found)", m)
    return total, failing
