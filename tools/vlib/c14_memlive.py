"""C14 (memory liveness / concretisation): MemLivenessAnalysis + ConcretizeMemLocPass, validated per invocation and
executed on hand-written Venom IR.

 * `Observer` wraps `ConcretizeMemLocPass.run_pass` in-process: the tables of the real MemLivenessAnalysis (liveat, used,
   livesets), the instruction-level CFG, per instruction the allocas read / the write-pointer candidates / the literal write
   size (operand positions from an OWN table, cross-checked against memory_location.py; NOT `get_write_size`), and the
   addresses the pass chose are exported as a term for `memlive_check` of coq/C14/MemLive.v (theorem
   memlive_concretize_sound, PropsMemLive.v).  The kill (must-write of a whole allocation) is derived in Coq from the
   opcode's write kind: the call family only MAY-writes (at most) its output buffer and never kills.
 * `family(rnd, n)`: structured hand IR (parsed by the real parser): an allocation is given a value (mstore / calldatacopy),
   then a temporary is written and read, then a WRITER touches the allocation again -- call / staticcall / delegatecall
   whose callee returns nothing / fewer bytes than / exactly the output buffer (identity, sha256, account without code), or
   mstore / calldatacopy / mcopy / codecopy of the whole or of a part of the allocation -- and the allocation is read
   back; straight-line and diamond shapes.  The expected storage is computed here from the EVM semantics of the program
   (allocas = disjoint objects); the program goes through the real O2 / Os / O3 pipeline + assembler and runs on pyrevm.
"""
import contextlib
import hashlib

from . import coqrun

COQ_FILES = ["C14/MemLive.v", "C14/MemLiveProofs.v", "C14/PropsMemLive.v", "C14/MemLiveTie.v"]
COQ_DEPS = ["C14M/MemSem.v"]

# operand positions (IRInstruction.operands order = reversed text order), written from the instruction definitions
WRITE_OPS = {  # opcode -> (index of the destination pointer, index of the size operand or the constant 32)
    "mstore": (1, 32), "mcopy": (2, 0), "calldatacopy": (2, 0), "codecopy": (2, 0), "returndatacopy": (2, 0),
    "dloadbytes": (2, 0), "extcodecopy": (2, 0), "call": (1, 0), "staticcall": (1, 0), "delegatecall": (1, 0), "istore": (0, 32),
}
READ_OPS = {  # opcode -> index of the source pointer
    "mload": 0, "iload": 0, "mcopy": 1, "call": 3, "staticcall": 3, "delegatecall": 3, "return": 1, "revert": 1,
    "create": 1, "create2": 2, "sha3": 1, "log": -1,
}


def export(ml, fn):
    """rows for memlive_check from an analysed MemLivenessAnalysis `ml` of function `fn` (before the pass mutates it)"""
    from vyper.venom.basicblock import IRLabel, IRLiteral
    from vyper.venom.memory_location import get_memory_read_op, get_memory_write_op
    alloc = fn.ctx.mem_allocator
    bbs = list(ml.cfg.dfs_pre_walk)
    ids, insts = {}, []
    for bb in bbs:
        for inst in bb.instructions:
            ids[id(inst)] = len(insts)
            insts.append((bb, inst))
    # ---- abstract objects: an allocation, or a cluster of ALREADY PLACED allocations that overlap each other (frames of
    # callees, clones of pinned allocations: their mutual layout was decided -- and validated -- when they were placed)
    allset = {}
    for d_ in (ml.liveat, ml.used):
        for v_ in d_.values():
            for m in v_:
                allset[m] = 1
    for m in ml.livesets:
        allset[m] = 1
    for _, inst in insts:
        for op in inst.operands:
            for p_ in ml._find_base_ptrs(op):
                allset[p_.base_alloca] = 1
        if inst.opcode == "invoke":
            for m in alloc.mems_used[fn.ctx.get_function(inst.operands[0])]:
                allset[m] = 1
    placed = sorted((m for m in allset if alloc.allocated.get(m) is not None and m.alloca_size > 0),
                    key=lambda m: (alloc.allocated[m], -m.alloca_size))
    aid, shift, objs = {}, {}, []          # objs: [start, end, preplaced, members]
    for m in placed:
        st, en = alloc.allocated[m], alloc.allocated[m] + m.alloca_size
        if objs and objs[-1][2] and st < objs[-1][1]:
            objs[-1][1] = max(objs[-1][1], en)
            objs[-1][3].append(m)
        else:
            objs.append([st, en, True, [m]])
        aid[m] = len(objs) - 1
        shift[m] = st - objs[-1][0]
    notes = []

    def A(m):
        if m not in aid:
            aid[m] = len(objs)
            shift[m] = 0
            pos = alloc.allocated.get(m)
            objs.append([pos, None if pos is None else pos + m.alloca_size, False, [m]])
        return aid[m]

    def cands(op):
        out = set()
        for p in ml._find_base_ptrs(op):
            a = A(p.base_alloca)
            out.add((a, None if p.offset is None else p.offset + shift[p.base_alloca]))
        return sorted(out, key=lambda t: (t[0], -1 if t[1] is None else t[1]))

    rows = []
    for k, (bb, inst) in enumerate(insts):
        opc = inst.opcode
        succ = [ids[id(s.instructions[0])] for s in ml.cfg.cfg_out(bb)] if inst is bb.instructions[-1] else [k + 1]
        wop, wsize = None, None
        if opc in WRITE_OPS:
            pi, si = WRITE_OPS[opc]
            wop = inst.operands[pi]
            sz = IRLiteral(32) if si == 32 else inst.operands[si]
            wsize = sz.value if isinstance(sz, IRLiteral) else None
        rop = inst.operands[READ_OPS[opc]] if opc in READ_OPS else None
        if get_memory_write_op(inst) is not wop or get_memory_read_op(inst) is not rop:
            notes.append(f"operand table mismatch on {opc}: memory_location.py names other read/write pointers than the validator's table")
        wc = cands(wop)
        reads = {a for a, _ in cands(rop)}
        refs = set()
        for op in inst.operands:
            refs |= {a for a, _ in cands(op)}
        if opc == "invoke":
            label = inst.operands[0]
            assert isinstance(label, IRLabel)
            callee = fn.ctx.get_function(label)
            cm = {A(m) for m in alloc.mems_used[callee]}
            reads |= cm | refs
            refs |= cm
            wc = [(a, None) for a in sorted(cm | refs)]
        refs |= reads | {a for a, _ in wc}
        rows.append({"op": opc, "succ": succ, "reads": sorted(reads), "wcands": wc, "wsize": wsize, "refs": sorted(refs),
                     "liveat": sorted({A(m) for m in ml.liveat[inst]}), "used": sorted({A(m) for m in ml.used[inst]})})
    ls = {}
    for m, s_ in ml.livesets.items():
        ls.setdefault(A(m), set()).update(ids[id(i)] for i in s_ if id(i) in ids)
    sizes = [(o[1] - o[0]) if o[2] else o[3][0].alloca_size for o in objs]
    return {"rows": rows, "livesets": sorted((a, sorted(s_)) for a, s_ in ls.items()), "objs": objs,
            "clusters": sum(1 for o in objs if len(o[3]) > 1), "sizes": sizes, "notes": notes, "name": str(fn.name)}


class Observer:
    """records one export per ConcretizeMemLocPass invocation (analysis tables before, addresses after)"""

    def __init__(self, max_rows=1500):
        self.samples, self.errors, self.max_rows, self.skipped_big = [], [], max_rows, 0

    def __enter__(self):
        from vyper.venom.analysis import MemLivenessAnalysis
        from vyper.venom.passes.concretize_mem_loc import ConcretizeMemLocPass
        self.cls = ConcretizeMemLocPass
        self.orig = orig = ConcretizeMemLocPass.run_pass
        obs = self

        def wrapped(self):
            rec = None
            try:
                ml = self.analyses_cache.request_analysis(MemLivenessAnalysis)
                rec = export(ml, self.function)
            except Exception as e:  # noqa: fail closed (reported by the part)
                obs.errors.append(f"{type(e).__name__}: {e}")
            r = orig(self)
            if rec is not None:
                alloc = self.function.ctx.mem_allocator
                far = 1 << 40
                place = []
                for k, o in enumerate(rec.pop("objs")):
                    p = o[0] if o[2] else alloc.allocated.get(o[3][0])
                    place.append(far + k * (1 << 24) if p is None else p)     # never placed = never addressed
                rec["place"] = place
                if len(rec["rows"]) > obs.max_rows:
                    obs.skipped_big += 1
                else:
                    obs.samples.append(rec)
            return r
        ConcretizeMemLocPass.run_pass = wrapped
        return self

    def __exit__(self, *a):
        self.cls.run_pass = self.orig
        return False


def term(rec):
    def nl(xs):
        return "[" + "; ".join(f"{x}%nat" for x in xs) + "]"

    def zl(xs):
        return "[" + "; ".join(coqrun.hexlit(x) for x in xs) + "]"

    def oz(x):
        return "None" if x is None else f"(Some {coqrun.hexlit(x)})"
    rows = "; ".join(
        f'mkR "{r["op"]}" {nl(r["succ"])} {nl(r["reads"])} [' + "; ".join(f"({a}%nat, {oz(o)})" for a, o in r["wcands"]) + f'] {oz(r["wsize"])} '
        f'{nl(r["refs"])} {nl(r["liveat"])} {nl(r["used"])}' for r in rec["rows"])
    ls = "; ".join(f"({m}%nat, {nl(s_)})" for m, s_ in rec["livesets"])
    asz, pl = zl(rec["sizes"]), zl(rec["place"])
    return (f"(let tbl := [{rows}] in let ls := [{ls}] in let asz := {asz} in let pl := {pl} in "
            "[if memlive_check asz pl tbl ls then 1 else 0; if table_check asz tbl then 1 else 0; "
            "if livesets_check tbl ls then 1 else 0; if place_check asz pl ls then 1 else 0])")


def evaluate(recs, shard=4, timeout=600):
    if not recs:
        return []
    return coqrun.eval_zlists("From Coq Require Import String.\nFrom Verif Require Import C14.MemLive.\nOpen Scope string_scope.\n",
                              [term(r) for r in recs], "c14memlive", shard=shard, timeout=timeout)


# ---------------------------------------------------------------------------------------------- hand IR family
IDENTITY, SHA256, NOCODE = 4, 2, 0xDEAD00000000000000000000000000000000BEEF
CD_LEN = 160


class Prog:
    """straight-line / diamond program over allocas; builds the IR text and, independently, the expected storage"""

    def __init__(self, name, kind):
        self.name, self.kind = name, kind
        self.decl, self.blocks, self.cur = [], {"main": []}, "main"
        self.n = 0
        self.sizes = {}
        self.sem = {"main": []}        # per block: list of closures on the interpreter state
        self.term = {}

    def v(self, p="v"):
        self.n += 1
        return f"%{p}{self.n}"

    def alloca(self, name, size):
        self.decl.append(f"%{name} = alloca {size}")
        self.sizes[name] = size

    def emit(self, text, fn=None):
        self.blocks[self.cur].append(text)
        if fn is not None:
            self.sem[self.cur].append(fn)

    def ptr(self, a, off):
        # "sel" is a pointer variable defined by a phi over two allocations (S["alias"]["sel"] says which one at run time)
        if off == 0:
            return f"%{a}"
        q = self.v("q")
        self.emit(f"{q} = add %{a}, {off}")
        return q

    # ---- actions (IR + semantics on S = {"mem": {alloca: bytearray}, "init": {alloca: set}, "sto": {}, "cd": bytes})
    def mstore(self, a, off, val):
        p = self.ptr(a, off)
        if isinstance(val, tuple):      # ("cd", k): calldata word k
            x = self.v("x")
            self.emit(f"{x} = calldataload {32 * val[1]}")
            self.emit(f"mstore {p}, {x}", lambda S: _wr(S, a, off, S["cd"][32 * val[1]:32 * val[1] + 32]))
        else:
            self.emit(f"mstore {p}, {val}", lambda S: _wr(S, a, off, val.to_bytes(32, "big")))

    def cdcopy(self, a, off, cdoff, n, dynamic=False):
        p = self.ptr(a, off)
        if dynamic:   # the size is a run-time value: calldata word 4 holds n
            x = self.v("n")
            self.emit(f"{x} = calldataload 128")
            self.emit(f"calldatacopy {p}, {cdoff}, {x}", lambda S: _wr(S, a, off, S["cd"][cdoff:cdoff + int.from_bytes(S['cd'][128:160], 'big')]))
        else:
            self.emit(f"calldatacopy {p}, {cdoff}, {n}", lambda S: _wr(S, a, off, S["cd"][cdoff:cdoff + n]))

    def mcopy(self, a, off, b, boff, n):
        p, q = self.ptr(a, off), self.ptr(b, boff)
        self.emit(f"mcopy {p}, {q}, {n}", lambda S: _wr(S, a, off, _rd(S, b, boff, n)))

    def codecopy(self, a, off, n):
        p = self.ptr(a, off)
        # bytes of the running code are not predicted: the written range becomes "unknown" and is not read back
        self.emit(f"codecopy {p}, 0, {n}", lambda S: _wr(S, a, off, None, n))

    def hash_to(self, a, off, n, slot, tolerant=False):
        p, h = self.ptr(a, off), self.v("h")
        self.emit(f"{h} = sha3 {p}, {n}")

        def sem(S):
            try:
                S["sto"][slot] = int.from_bytes(_keccak(_rd(S, a, off, n)), "big")
            except _Uninit:
                if not tolerant:
                    raise
                S["sto"].pop(slot, None)
        self.emit(f"sstore {slot}, {h}", sem)

    def load_to(self, a, off, slot, tolerant=False):
        p, r = self.ptr(a, off), self.v("r")
        self.emit(f"{r} = mload {p}")

        def sem(S):
            try:
                S["sto"][slot] = int.from_bytes(_rd(S, a, off, 32), "big")
            except _Uninit:
                if not tolerant:
                    raise
                S["sto"].pop(slot, None)      # bytes the model does not predict (codecopy): the slot is not compared
        self.emit(f"sstore {slot}, {r}", sem)

    def xcall(self, op, target, ia, ioff, n_in, oa, ooff, n_out, slot):
        pi, po, g, ok = self.ptr(ia, ioff), self.ptr(oa, ooff), self.v("g"), self.v("ok")
        self.emit(f"{g} = gas")
        mid = "0, " if op == "call" else ""
        self.emit(f"{ok} = {op} {g}, {target}, {mid}{pi}, {n_in}, {po}, {n_out}")

        def sem(S):
            data = _rd(S, ia, ioff, n_in) if n_in else b""
            ret = data if target == IDENTITY else hashlib.sha256(data).digest() if target == SHA256 else b""
            _wr(S, oa, ooff, ret[:n_out])
            S["sto"][slot] = 1
        self.sem[self.cur].append(sem)
        self.emit(f"sstore {slot}, {ok}")

    def branch(self, cdword, then_l, else_l):
        c = self.v("c")
        self.emit(f"{c} = calldataload {32 * cdword}")
        self.emit(f"jnz {c}, @{then_l}, @{else_l}")
        self.term[self.cur] = ("jnz", cdword, then_l, else_l)
        for l in (then_l, else_l):
            self.blocks.setdefault(l, [])
            self.sem.setdefault(l, [])

    def jmp(self, l):
        self.emit(f"jmp @{l}")
        self.term[self.cur] = ("jmp", l)
        self.blocks.setdefault(l, [])
        self.sem.setdefault(l, [])

    def stop(self):
        self.emit("stop")
        self.term[self.cur] = ("stop",)

    def text(self):
        out = ["function main {"]
        for l, body in self.blocks.items():
            out.append(f"{l}:")
            if l == "main":
                out += ["    " + d for d in self.decl]
            out += ["    " + s for s in body]
        out.append("}")
        return "\n".join(out) + "\n"

    def expected(self, cd):
        """storage after the call, or None when the program would read bytes nobody wrote (not a valid test)"""
        S = {"mem": {a: bytearray(n) for a, n in self.sizes.items()}, "init": {a: set() for a in self.sizes}, "sto": {}, "cd": cd + bytes(64),
             "alias": {}}
        l = "main"
        try:
            for _ in range(20):
                for f in self.sem[l]:
                    f(S)
                t = self.term[l]
                if t[0] == "stop":
                    return S["sto"]
                l = t[1] if t[0] == "jmp" else (t[2] if int.from_bytes(S["cd"][32 * t[1]:32 * t[1] + 32], "big") else t[3])
        except _Uninit:
            return None
        return None


class _Uninit(Exception):
    pass


def _keccak(b):
    from eth_utils import keccak
    return keccak(bytes(b))


def _wr(S, a, off, data, n=None):
    a = S["alias"].get(a, a)
    if data is None:                       # unknown bytes
        S["init"][a] -= set(range(off, off + n))
        return
    assert off + len(data) <= len(S["mem"][a]), "family bug: write outside the allocation"
    S["mem"][a][off:off + len(data)] = data
    S["init"][a] |= set(range(off, off + len(data)))


def _rd(S, a, off, n):
    a = S["alias"].get(a, a)
    assert off + n <= len(S["mem"][a]), "family bug: read outside the allocation"
    if not set(range(off, off + n)) <= S["init"][a]:
        raise _Uninit()
    return bytes(S["mem"][a][off:off + n])


CALLOPS = ["staticcall", "call", "delegatecall"]


def _gap(P, rnd, style, k):
    """a temporary that is written and read only here"""
    t = f"tmp{k}"
    size = rnd.choice([32, 64, 64, 96, 128])
    P.alloca(t, size)
    if style == "hash":
        P.cdcopy(t, 0, rnd.choice([0, 32]), size)
        P.hash_to(t, 0, size, 10 + k)
    elif style == "words":
        for w in range(size // 32):
            P.mstore(t, 32 * w, ("cd", (w + k) % 4))
        P.load_to(t, 32 * (size // 32 - 1), 20 + k)
        P.hash_to(t, 0, size, 10 + k)          # a read that no pass can forward: the stores stay
    else:
        P.cdcopy(t, 0, 0, size)
        u = f"tmq{k}"
        P.alloca(u, size)
        P.mcopy(u, 0, t, 0, size)
        P.hash_to(u, 0, size, 10 + k)


def _prestore(P, rnd, a, size, how):
    if how == "cdcopy":
        P.cdcopy(a, 0, 32, size)
    else:
        for w in range(size // 32):
            P.mstore(a, 32 * w, 0xDEAD0000 + w if how == "lit" else ("cd", (w + 1) % 4))


def _readback(P, a, size, base):
    # the hash of the whole allocation first: a load of a word can be forwarded from the store that wrote it, a hash cannot
    P.hash_to(a, 0, size, base + 9, tolerant=True)
    for w in range(size // 32):
        P.load_to(a, 32 * w, base + w, tolerant=True)


def _writer(P, rnd, w, a, size, args):
    """the second access to the allocation: (kind, parameters) -> emits it; returns a short description"""
    kind = w[0]
    if kind in CALLOPS:
        _, target, n_in, n_out, ooff = w
        P.xcall(kind, target, args, 0, n_in, a, ooff, n_out, 3)
        return f"{kind} to {target:#x}: {n_in} bytes in, output buffer {n_out} at +{ooff}"
    if kind == "mstore":
        P.mstore(a, w[1], ("cd", 2))
    elif kind == "calldatacopy":
        P.cdcopy(a, w[1], 64, w[2])
    elif kind == "calldatacopy_dyn":
        P.cdcopy(a, 0, 64, None, dynamic=True)
    elif kind == "mcopy":
        P.mcopy(a, w[1], args, 0, w[2])
    elif kind == "codecopy":
        P.codecopy(a, w[1], w[2])
    return f"{kind} {w[1:]}"


def writers(size):
    """boundary-biased list of writers for an allocation of `size` bytes"""
    ws = []
    for op in CALLOPS:
        ws.append((op, IDENTITY, 0, size, 0))              # returns nothing: the whole buffer survives
        ws.append((op, NOCODE, 32, size, 0))               # account without code: success, no data
        ws.append((op, IDENTITY, 32, size, 0))             # 32 bytes back (all of a 32-byte buffer, a part of a larger one)
        if size > 32:
            ws.append((op, SHA256, 32, size, 0))           # 32 of `size` bytes
            ws.append((op, IDENTITY, 32, size - 32, 32))   # output buffer = upper part of the allocation
        ws.append((op, IDENTITY, 1, size, 0))              # one byte back
        ws.append((op, IDENTITY, 0, 0, 0))                 # no output buffer at all
    ws += [("mstore", 0), ("calldatacopy", 0, size), ("mcopy", 0, 32), ("codecopy", 0, size), ("calldatacopy_dyn",)]
    if size > 32:
        ws += [("mstore", size - 32), ("calldatacopy", 0, size - 32), ("calldatacopy", 32, size - 32), ("calldatacopy", 0, size - 1),
               ("mcopy", 32, 32), ("codecopy", 32, size - 32)]
    else:
        ws += [("calldatacopy", 0, 31), ("calldatacopy", 1, 31)]
    return ws


def build(rnd, shape, size, how, gap, w, k):
    P = Prog(f"{shape}/{w[0]}/{k}", f"{shape}:{w[0]}")
    order = rnd.random() < 0.5
    if order:
        P.alloca("out", size)
    P.alloca("args", 32)
    if not order:
        P.alloca("out", size)
    P.mstore("args", 0, ("cd", 3))
    if shape == "line":
        _prestore(P, rnd, "out", size, how)
        _gap(P, rnd, gap, 0)
        d = _writer(P, rnd, w, "out", size, "args")
        if rnd.random() < 0.4:
            _gap(P, rnd, rnd.choice(["hash", "words"]), 1)
        _readback(P, "out", size, 40)
        P.stop()
    elif shape == "diamond_w":      # the writer only on one arm; the default must survive on the other
        _prestore(P, rnd, "out", size, how)
        _gap(P, rnd, gap, 0)
        P.branch(0, "yes", "no")
        P.cur = "yes"
        d = _writer(P, rnd, w, "out", size, "args")
        P.jmp("join")
        P.cur = "no"
        _gap(P, rnd, "words", 1)
        P.jmp("join")
        P.cur = "join"
        _readback(P, "out", size, 40)
        P.stop()
    elif shape == "phi":             # the writer goes through a pointer that is one of two allocations: never a must-write
        P.alloca("out2", size)
        _prestore(P, rnd, "out", size, how)
        _prestore(P, rnd, "out2", size, "lit")
        P.branch(0, "yes", "no")
        P.cur = "yes"
        P.emit("sstore 30, 1", lambda S: (S["sto"].__setitem__(30, 1), S["alias"].__setitem__("sel", "out")))
        P.jmp("join")
        P.cur = "no"
        P.emit("sstore 30, 2", lambda S: (S["sto"].__setitem__(30, 2), S["alias"].__setitem__("sel", "out2")))
        P.jmp("join")
        P.cur = "join"
        P.emit("%sel = phi @yes, %out, @no, %out2")
        _gap(P, rnd, gap, 0)
        d = "through a phi pointer: " + _writer(P, rnd, w, "sel", size, "args")
        _readback(P, "out", size, 40)
        _readback(P, "out2", size, 60)
        P.stop()
    else:                            # diamond_g: the temporary only on one arm, the writer after the join
        _prestore(P, rnd, "out", size, how)
        P.branch(0, "yes", "no")
        P.cur = "yes"
        _gap(P, rnd, gap, 0)
        P.jmp("join")
        P.cur = "no"
        P.emit("sstore 30, 1", lambda S: S["sto"].__setitem__(30, 1))
        P.jmp("join")
        P.cur = "join"
        d = _writer(P, rnd, w, "out", size, "args")
        _readback(P, "out", size, 40)
        P.stop()
    P.what = d
    return P


def family(rnd, n):
    """every call-family writer shape at least once per callop rotation + a seeded sample of the rest"""
    progs, k = [], 0
    core = []
    for size in (32, 64):
        for w in writers(size):
            core.append((size, w))
    calls = [c for c in core if c[1][0] in CALLOPS]
    others = [c for c in core if c[1][0] not in CALLOPS]
    rnd.shuffle(calls)
    rnd.shuffle(others)
    # always: the idiom itself for every call opcode (default store, temporary, call that returns nothing), a partial
    # must-write, a must-write / a call through a pointer with two candidates, the call on one arm of a diamond
    fixed = [("line", 32, (op, IDENTITY, 0, 32, 0)) for op in CALLOPS]
    fixed += [("line", 64, ("mstore", 0)), ("line", 64, ("calldatacopy", 0, 32)), ("phi", 32, ("mstore", 0)),
              ("phi", 64, ("calldatacopy", 0, 64)), ("phi", 32, (rnd.choice(CALLOPS), IDENTITY, 0, 32, 0)),
              ("diamond_w", 32, (rnd.choice(CALLOPS), NOCODE, 32, 32, 0)), ("diamond_g", 64, (rnd.choice(CALLOPS), SHA256, 32, 64, 0))]
    m = max(0, n - len(fixed))
    picked = fixed + [(None, sz, w) for sz, w in calls[:(2 * m) // 3] + others[:m - (2 * m) // 3]]
    for shape, size, w in picked:
        if shape is None:
            shape = rnd.choice(["line", "line", "diamond_w", "diamond_g", "phi"])
        how = rnd.choice(["lit", "cd", "cdcopy"])
        gap = rnd.choice(["hash", "words", "copy"])
        progs.append(build(rnd, shape, size, how, gap, w, k))
        k += 1
    return progs


LEVELS = ["GAS", "CODESIZE", "O3"]


def compile_ir(text, level, observe=True):
    """-> (bytecode, samples, errors): the real pipeline of vyper.venom for hand-written IR"""
    from vyper.compiler.phases import generate_bytecode
    from vyper.compiler.settings import OptimizationLevel, VenomOptimizationFlags
    from vyper.venom import generate_assembly_experimental, run_passes_on
    from vyper.venom.check_venom import check_venom_ctx
    from vyper.venom.parser import parse_venom
    ctx = parse_venom(text)
    check_venom_ctx(ctx)
    with Observer() as obs:
        run_passes_on(ctx, VenomOptimizationFlags(level=getattr(OptimizationLevel, level)))
    asm = generate_assembly_experimental(ctx)
    bytecode, _ = generate_bytecode(asm)
    return bytecode, obs.samples, obs.errors


CALLER = "0x" + "11" * 20
TARGET = "0x" + "ab" * 20


def run_evm(bytecode, cd, slots):
    from pyrevm import EVM, AccountInfo
    evm = EVM(gas_limit=10_000_000, spec_id="CANCUN")
    evm.set_balance(CALLER, 10 ** 20)
    evm.insert_account_info(TARGET, AccountInfo(code=bytecode))
    try:
        evm.message_call(to=TARGET, caller=CALLER, calldata=cd)
    except Exception as e:  # noqa
        return {"error": str(e)[:80]}
    return {s: evm.storage(TARGET, s) for s in slots}


def calldatas(rnd):
    w = lambda x: x.to_bytes(32, "big")  # noqa
    return [bytes(range(1, CD_LEN - 31)) + w(rnd.choice([0, 1, 31, 32])),
            w(0) + b"\xff" * 96 + w(rnd.choice([0, 32])),
            w(rnd.getrandbits(256)) + w(0x1234) + w(rnd.getrandbits(256)) + w(0x5678) + w(rnd.choice([1, 16, 32]))]


REPLAY = '''# PYTHONPATH=<repo> /venv/bin/python this_file.py   (prints the storage of the compiled program after one call)
from pyrevm import EVM, AccountInfo
from vyper.compiler.phases import generate_bytecode
from vyper.compiler.settings import OptimizationLevel, VenomOptimizationFlags
from vyper.venom import generate_assembly_experimental, run_passes_on
from vyper.venom.parser import parse_venom
SRC = """%(src)s"""
ctx = parse_venom(SRC)
run_passes_on(ctx, VenomOptimizationFlags(level=OptimizationLevel.%(level)s))
code, _ = generate_bytecode(generate_assembly_experimental(ctx))
evm = EVM(gas_limit=10_000_000, spec_id="CANCUN")
evm.set_balance("%(caller)s", 10**20)
evm.insert_account_info("%(target)s", AccountInfo(code=code))
evm.message_call(to="%(target)s", caller="%(caller)s", calldata=bytes.fromhex("%(cd)s"))
expected = %(expected)r
got = {s: evm.storage("%(target)s", s) for s in expected}
print("expected", expected); print("observed", got); raise SystemExit(0 if got == expected else 1)
'''


def run_family(ctx, rnd, n, levels_per_prog):
    """-> (stats, samples for the validator [(prog, level, rec)], failures [(prog, detail)])"""
    stats = {"programs": 0, "compilations": 0, "executions": 0, "skipped_uninitialised": 0, "mismatches": 0, "compile_errors": 0,
             "by_writer": {}}
    samples, failures = [], []
    progs = family(rnd, n)
    cds = calldatas(rnd)
    for k, P in enumerate(progs):
        stats["programs"] += 1
        text = P.text()
        lv = [LEVELS[(k + j) % 3] for j in range(levels_per_prog)]
        for level in lv:
            try:
                code, ss, ee = compile_ir(text, level)
            except Exception as e:  # noqa
                stats["compile_errors"] += 1
                failures.append((P, {"kind": "compile", "venom": text, "level": level, "error": f"{type(e).__name__}: {e}"[:400]}))
                continue
            stats["compilations"] += 1
            for e_ in ee:
                failures.append((P, {"kind": "export", "venom": text, "level": level, "error": e_}))
            for s_ in ss:
                samples.append((P, level, s_))
            bad = None
            for cd in cds:
                want = P.expected(cd)
                if want is None:
                    stats["skipped_uninitialised"] += 1
                    continue
                got = run_evm(code, cd, sorted(want))
                stats["executions"] += 1
                stats["by_writer"][P.kind] = stats["by_writer"].get(P.kind, 0) + 1
                if got != want and bad is None:
                    diff = sorted(s for s in want if got.get(s) != want[s]) if "error" not in got else ["call failed"]
                    bad = {"kind": "behaviour", "venom": text, "level": level, "calldata": cd.hex(), "writer": P.what,
                           "expected_storage": {str(s): hex(v) for s, v in want.items()},
                           "observed_storage": {str(s): (hex(v) if isinstance(v, int) else v) for s, v in got.items()},
                           "slots_that_differ": diff,
                           "how": "parse_venom -> run_passes_on(level) -> generate_assembly_experimental -> generate_bytecode -> pyrevm "
                                  "message_call; expected = EVM semantics of the IR with allocas as disjoint objects "
                                  "(slots 40.. = the allocation read back after the writer)",
                           "replay_script": REPLAY % {"src": text, "level": level, "caller": CALLER, "target": TARGET, "cd": cd.hex(),
                                                      "expected": want}}
            if bad is not None:
                stats["mismatches"] += 1
                failures.append((P, bad))
    return stats, samples, failures


# ---------------------------------------------------------------------------------------------- front-end corpus
CORPUS = ["""
@external
def rec(h: bytes32, v: uint8, r: bytes32, s: bytes32, q: uint256[3]) -> address:
    t: uint256[3] = q
    a: address = ecrecover(h, v, r, s)
    if a == empty(address):
        return ecrecover(keccak256(abi_encode(t)), v, r, s)
    return a
""", """
@external
def fwd(t: address, d: Bytes[96]) -> Bytes[64]:
    x: Bytes[64] = b"default"
    ok: bool = False
    y: uint256[4] = [1, 2, 3, 4]
    ok, x = raw_call(t, d, max_outsize=64, revert_on_failure=False)
    if not ok:
        return slice(abi_encode(y), 0, 64)
    return x

@external
@view
def st(t: address, d: Bytes[64]) -> (bytes32, Bytes[32]):
    h: bytes32 = sha256(d)
    r: Bytes[32] = raw_call(t, concat(h, d), max_outsize=32, is_static_call=True)
    return h, r
""", """
interface T:
    def f(a: uint256[2]) -> uint256[3]: view
    def g(b: Bytes[40]) -> Bytes[40]: nonpayable

@internal
def inner(t: address, a: uint256[2]) -> uint256[3]:
    z: uint256[3] = [a[0], a[1], 7]
    if a[0] > 3:
        z = staticcall T(t).f(a)
    return z

@external
def top(t: address, a: uint256[2], b: Bytes[40]) -> (uint256, Bytes[40]):
    u: uint256[3] = self.inner(t, a)
    w: Bytes[40] = extcall T(t).g(b)
    v: uint256[3] = self.inner(t, [u[2], a[1]])
    return u[0] + v[1], w
"""]


def run_corpus(ctx, levels):
    import warnings
    import vyper
    from vyper.compiler.settings import OptimizationLevel, Settings
    samples, errors, nfail = [], [], 0
    with warnings.catch_warnings():
        warnings.simplefilter("ignore")
        with Observer() as obs:
            for src in CORPUS:
                for lvl in levels:
                    try:
                        vyper.compile_code(src, output_formats=["bytecode_runtime"],
                                           settings=Settings(experimental_codegen=True, optimize=getattr(OptimizationLevel, lvl)))
                    except Exception as e:  # noqa
                        nfail += 1
                        errors.append(f"compile: {type(e).__name__}: {e}"[:300])
    return obs.samples, obs.errors + errors, nfail, obs.skipped_big


def build_coq(ctx):
    coqrun.build_sequence(COQ_DEPS, force=False)       # C14M's file: never force-rebuild someone else's .vo
    return ctx.coq_build_cached(COQ_FILES, deps=COQ_DEPS, timeout=600)


def prebuild(ctx):
    build_coq(ctx)


def part_memlive(ctx):
    import random
    from vlib.common import COQ
    rnd = random.Random(ctx.seed * 104729 + 17)
    quick = ctx.tier == "quick"
    b = build_coq(ctx)
    stats, fam_samples, failures = run_family(ctx, rnd, 30 if quick else 110, 1 if quick else 3)
    cs, cerr, cfail, cbig = run_corpus(ctx, ["GAS"] if quick else LEVELS)
    stats.update({"corpus_functions": len(cs), "corpus_compile_failures": cfail, "corpus_too_big": cbig})
    recs = [s_ for _, _, s_ in fam_samples] + cs
    stats["tables"] = len(recs)
    stats["instructions"] = sum(len(r["rows"]) for r in recs)
    stats["call_family_writes"] = sum(1 for r in recs for row in r["rows"] if row["op"] in CALLOPS and row["wcands"])
    res = None
    if (COQ / "C14" / "MemLive.vo").exists() and recs:
        try:
            res = evaluate(recs, shard=max(1, len(recs) // 10), timeout=600)
        except RuntimeError as e:
            ctx.violation("correspondence-broken", "the memory-liveness validator could not be evaluated", {"error": str(e)[-1500:]})
    found = set()
    # ---- behaviour on the EVM: the property's own oracle
    for P, d in failures:
        if d["kind"] == "behaviour" and P.kind not in found and len(found) < 3:
            found.add(P.kind)
            ctx.violation("failing-input", "hand-written Venom program computes a different result after the O2/Os/O3 pipeline: an "
                          "allocation loses its contents between two accesses (memory concretisation lets another allocation share "
                          "its address while its value is still needed)", d, key="memlive:" + P.kind)
    for P, d in failures:
        if d["kind"] == "compile" and "compile" not in found:
            found.add("compile")
            ctx.violation("failing-input", "the Venom pipeline raises on a well-formed hand-written program: " + d["error"][:120], d,
                          key="memlive:compile:" + d["error"][:50])
        if d["kind"] == "export" and "export" not in found:
            found.add("export")
            ctx.violation("correspondence-broken", "MemLivenessAnalysis tables could not be exported: " + d["error"], d)
    for e_ in cerr[:1]:
        ctx.violation("correspondence-broken", "MemLivenessAnalysis could not be observed on the corpus contracts: " + e_, {"errors": cerr[:5]})
    notes = sorted({n_ for r in recs for n_ in r["notes"]})
    if notes:
        ctx.violation("correspondence-broken", "memory_location.py and the validator disagree on which operand is the memory pointer: " + notes[0],
                      {"notes": notes})
    # ---- validator verdicts
    stats.update({"accepted": 0, "rejected": 0})
    bad_progs = {id(P) for P, d in failures if d["kind"] == "behaviour"}
    rejected = []
    if res is not None:
        owners = [(P, lvl) for P, lvl, _ in fam_samples] + [(None, None)] * len(cs)
        for (P, lvl), r, v in zip(owners, recs, res):
            if v and v[0] == 1:
                stats["accepted"] += 1
            else:
                stats["rejected"] += 1
                rejected.append((P, lvl, r, v))
    reported = 0
    for P, lvl, r, v in rejected:
        if reported >= 2:
            break
        if P is not None and (id(P) in bad_progs or any(d["kind"] == "behaviour" for _, d in failures)):
            continue                    # the failing inputs above are the report for these rejections
        reported += 1
        why = ("the liveat/used tables are not a post-fixpoint of the transfer function (a kill needs a must-write of the whole allocation; "
               "call/staticcall/delegatecall only may-write their output buffer)" if len(v) > 1 and v[1] == 0 else
               "the livesets miss an instruction required by liveat/used or by a write" if len(v) > 2 and v[2] == 0 else
               "two allocations that share a byte have intersecting livesets" if len(v) > 3 and v[3] == 0 else "memlive_check = false")
        wit = None
        if P is not None:               # Search: all levels, more calldatas
            wit = _search(P, random.Random(ctx.seed + 5))
        if wit is not None:
            ctx.violation("failing-input", "memory concretisation overlaps an allocation whose value is still needed (validator rejected the "
                          "analysis result; behaviour differs on the EVM)", dict(wit, why=why), key="memlive:" + P.kind)
        else:
            ctx.violation("theorem-broken", "memlive_concretize_sound does not apply: " + why + " (function " + r["name"] + ")",
                          {"theorem": "memlive_concretize_sound (memlive_check = false)", "why": why, "checks [all, table, livesets, placement]": v,
                           "venom": P.text() if P is not None else None, "level": lvl,
                           "rows": [dict(row, k=k) for k, row in enumerate(r["rows"])][:120], "livesets": r["livesets"], "sizes": r["sizes"],
                           "place": r["place"]})
    if not b["ok"] and not found:
        ctx.violation("theorem-broken", f"{b.get('failed_lemma')} in {b['file']}",
                      {"theorem": b.get("failed_lemma"), "file": b["file"], "coq_output": b["out"][-1500:]})
    if stats["programs"] and stats["executions"] < stats["programs"]:
        ctx.violation("correspondence-broken", "most programs of the memory-liveness family were not executed", dict(stats))
    ctx.corr["memory_liveness"] = stats
    if fam_samples:
        ctx.samples.append({"memlive_family_program": fam_samples[0][0].text(), "writer": fam_samples[0][0].what})
    return stats["executions"] + stats["accepted"]


def _search(P, rnd):
    text = P.text()
    for level in LEVELS:
        try:
            code, _, _ = compile_ir(text, level)
        except Exception:  # noqa
            continue
        for _ in range(3):
            for cd in calldatas(rnd):
                want = P.expected(cd)
                if want is None:
                    continue
                got = run_evm(code, cd, sorted(want))
                if got != want:
                    return {"venom": text, "level": level, "calldata": cd.hex(), "writer": P.what,
                            "expected_storage": {str(s): hex(v) for s, v in want.items()},
                            "observed_storage": {str(s): (hex(v) if isinstance(v, int) else v) for s, v in got.items()},
                            "replay_script": REPLAY % {"src": text, "level": level, "caller": CALLER, "target": TARGET, "cd": cd.hex(),
                                                       "expected": want}}
    return None
