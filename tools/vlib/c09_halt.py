"""C09: terminating statements whose ARGUMENT expressions hand control over.

A lock-protected function is "executing" until its terminating statement is over -- including the evaluation of that
statement's operands.  Some terminators do not pass the function's exit sequence at all (selfdestruct halts; raw_revert /
raise / assert-with-reason revert), so the code generators place the lock release (if any) by hand; others (return) go
through the exit sequence after the returned expression has been evaluated.  For every terminator T and every operand
expression E that can run foreign code

    T in  selfdestruct(E)   raw_revert(E)   raise E   assert c, E   return E
    E in  extcall   staticcall   internal function that does extcall / raw_call / send / create_from_blueprint
          a call nested in another call's argument

the victim has  h_T_E(p) (@nonreentrant)  and  u_T_E(p) (unprotected control group), plus @nonreentrant INTERNAL
functions that end that way, called from an unprotected external function.  The foreign code (attacker callback /
fallback / constructor of the created contract) re-enters poke() [nonreentrant], price() [nonreentrant view, static],
__default__ [nonreentrant], free() [unprotected] exactly as in c09_handover and reports a bit mask:
    through attacker storage (successful exits), the value returned (return E), the revert data (reverting exits; the
    state is rolled back but the data comes out), or the balance of the selfdestruct beneficiary (static operand: the
    callback returns an address that encodes the mask).
Oracle (the property's own = Lock.v held_blocks_all / lock_released): from h_*: every protected re-entry reverts
(bits = 8|16); from u_*: all succeed; afterwards, in the SAME transaction, poke / price / fallback succeed.

Two parts per configuration, on the SAME compilation (CompilerData):
  1. EVM scenarios on pyrevm (failing inputs);
  2. the printed IR of the exported stage (venom runtime after all passes / linearised legacy IR tree), with every
     hand-over instruction printed, checked by coq/C09/HaltCheck.hcheck_program (proved sound in HaltProofs.v,
     PropsHalt.v): no hand-over point between an unlock store and ANY way out of the function (return / stop / the
     halting selfdestruct / internal ret), no way out with the lock held."""
import json
import re
import traceback

from vlib import c09_cfg as cg
from vlib import c09_handover as ho
from vlib import configs, coqrun
from vlib.evm import Chain

HAND_OPS = ("call", "staticcall", "delegatecall", "callcode", "create", "create2")
ADDR_BASE = 0xB17500      # static selfdestruct operand: beneficiary = ADDR_BASE + bit mask

ATTACKER = """
victim: public(address)
bits: public(uint256)
ok1: public(bool)
after: public(uint256)
res: public(Bytes[256])

@external
def set_victim(v: address):
    self.victim = v
    self.bits = 0

@internal
def _probe(v: address, static_only: bool) -> uint256:
""" + ho.PROBE_BODY + """
    return b

@internal
@view
def _probev(v: address) -> uint256:
    b: uint256 = 16
    ok: bool = False
    res: Bytes[32] = b""
    ok, res = raw_call(v, method_id("price()"), max_outsize=32, is_static_call=True, revert_on_failure=False)
    if ok:
        b |= 2
    ok, res = raw_call(v, method_id("free()"), max_outsize=32, is_static_call=True, revert_on_failure=False)
    if ok and len(res) == 32:
        if convert(res, uint256) == 42:
            b |= 8
    return b

@external
def cb(p: uint256) -> uint256:
    b: uint256 = self._probe(self.victim, False)
    self.bits = b
    return b

@external
@view
def cbv(p: uint256) -> uint256:
    return self._probev(self.victim)

@external
def cba(p: uint256) -> address:
    self.bits = self._probe(self.victim, False)
    return self

@external
@view
def cbav(p: uint256) -> address:
    return convert(self._probev(self.victim) + """ + str(ADDR_BASE) + """, address)

@external
def cbb(p: uint256) -> Bytes[32]:
    b: uint256 = self._probe(self.victim, False)
    self.bits = b
    return abi_encode(b)

@external
@view
def cbbv(p: uint256) -> Bytes[32]:
    return abi_encode(self._probev(self.victim))

@external
@view
def cbsv(p: uint256) -> String[78]:
    return uint2str(self._probev(self.victim))

@external
def report(b: uint256):
    self.bits = b

@external
@payable
def __default__():
    self.bits = self._probe(self.victim, False)

@external
def drive(data: Bytes[68]):
    # ONE transaction: the call under test, then the release probes
    self.bits = 0
    ok: bool = False
    res: Bytes[256] = b""
    ok, res = raw_call(self.victim, data, max_outsize=256, revert_on_failure=False)
    self.ok1 = ok
    self.res = res
    a: uint256 = 0
    ok2: bool = raw_call(self.victim, method_id("poke()"), revert_on_failure=False)
    if ok2:
        a |= 1
    ok3: bool = False
    r3: Bytes[32] = b""
    ok3, r3 = raw_call(self.victim, method_id("price()"), max_outsize=32, is_static_call=True, revert_on_failure=False)
    if ok3:
        a |= 2
    ok4: bool = raw_call(self.victim, b"\\xde\\xad\\xbe\\xef", revert_on_failure=False)
    if ok4:
        a |= 4
    self.after = a
"""

# constructor of the contract created inside an operand expression: probes the victim, reports to the attacker
CHILD = """
interface R:
    def report(b: uint256): nonpayable

@deploy
def __init__(v: address, a: address):
    static_only: bool = False
""" + ho.PROBE_BODY + """
    extcall R(a).report(b)
"""

X_CBA = "extcall A(self.att).cba(p)"
# name -> (terminating statement, return annotation, where the mask is reported, static hand-over, reverting)
#   report: att (attacker storage) | ret (value returned) | revdata (raw revert data) | revstr (Error(string) data) |
#           bal (balance of the beneficiary address)
TERMS = {
    "sd_ext": (f"selfdestruct({X_CBA})", "", "att", False, False),
    "sd_stat": ("selfdestruct(staticcall A(self.att).cbav(p))", "", "bal", True, False),
    "sd_int": ("selfdestruct(self._who(p))", "", "att", False, False),
    "sd_intraw": ("selfdestruct(self._who_raw(p))", "", "att", False, False),
    "sd_intsend": ("selfdestruct(self._who_send(p))", "", "att", False, False),
    "sd_intnew": ("selfdestruct(self._who_new(p))", "", "att", False, False),
    "sd_new": ("selfdestruct(create_from_blueprint(self.bp, self, self.att))", "", "att", False, False),
    "sd_nest": (f"selfdestruct(self._id({X_CBA}))", "", "att", False, False),
    "rr_ext": ("raw_revert(extcall A(self.att).cbb(p))", "", "revdata", False, True),
    "rr_stat": ("raw_revert(staticcall A(self.att).cbbv(p))", "", "revdata", True, True),
    "rr_int": ("raw_revert(self._whob(p))", "", "revdata", False, True),
    "raise_stat": ("raise staticcall A(self.att).cbsv(p)", "", "revstr", True, True),
    "assert_stat": ("assert p == 12345, staticcall A(self.att).cbsv(p)", "", "revstr", True, True),
    "ret_ext": ("return extcall A(self.att).cb(p)", " -> uint256", "ret", False, False),
    "ret_stat": ("return staticcall A(self.att).cbv(p)", " -> uint256", "ret", True, False),
    "ret_int": ("return self._val(p)", " -> uint256", "ret", False, False),
    "ret_intsend": ("return self._val_send(p)", " -> uint256", "att", False, False),
}
# shapes: rw = own storage write before the terminator; bare = the terminator is the whole body
BARE = ("sd_ext", "sd_int", "sd_stat", "ret_ext", "rr_ext")
# @nonreentrant INTERNAL functions that end in T(E), called from an unprotected external function
PINT = {
    "pint_sd": (["@nonreentrant", "def _p_sd(p: uint256):", "    self.total += p", f"    selfdestruct({X_CBA})"],
                ["def h_pint_sd(p: uint256):", "    self._p_sd(p)"], "att", False, False),
    "pint_sdint": (["@nonreentrant", "def _p_sdint(p: uint256):", "    selfdestruct(self._who(p))"],
                   ["def h_pint_sdint(p: uint256):", "    self._p_sdint(p)"], "att", False, False),
    "pint_ret": (["@nonreentrant", "def _p_ret(p: uint256) -> uint256:", "    self.total += p", "    return extcall A(self.att).cb(p)"],
                 ["def h_pint_ret(p: uint256) -> uint256:", "    return self._p_ret(p)"], "ret", False, False),
    "pint_rr": (["@nonreentrant", "def _p_rr(p: uint256):", "    raw_revert(extcall A(self.att).cbb(p))"],
                ["def h_pint_rr(p: uint256):", "    self._p_rr(p)"], "revdata", False, True),
}


def victim_source(pragma=False):
    """pragma=True: protection by `#pragma nonreentrancy on` (every external function is protected unless @reentrant),
    else by @nonreentrant decorators"""
    prot_dec = [] if pragma else ["@nonreentrant"]
    unprot_dec = ["@reentrant"] if pragma else []
    L = (["#pragma nonreentrancy on", ""] if pragma else []) + ["interface A:", "    def cb(p: uint256) -> uint256: nonpayable", "    def cbv(p: uint256) -> uint256: view",
         "    def cba(p: uint256) -> address: nonpayable", "    def cbav(p: uint256) -> address: view",
         "    def cbb(p: uint256) -> Bytes[32]: nonpayable", "    def cbbv(p: uint256) -> Bytes[32]: view",
         "    def cbsv(p: uint256) -> String[78]: view", "",
         ("att: reentrant(public(address))" if pragma else "att: public(address)"),
         ("bp: reentrant(public(address))" if pragma else "bp: public(address)"),
         ("total: reentrant(public(uint256))" if pragma else "total: public(uint256)"), "",
         "@deploy", "def __init__(a: address, b: address):", "    self.att = a", "    self.bp = b", "",
         "@external", "@payable"] + unprot_dec + ["def fund():", "    pass", "",
         "@external"] + prot_dec + ["def poke():", "    self.total += 1", "",
         "@external", "@view"] + prot_dec + ["def price() -> uint256:", "    return self.total", "",
         "@external", "@payable"] + prot_dec + ["def __default__():", "    self.total += 1", "",
         "@external", "@view"] + unprot_dec + ["def free() -> uint256:", "    return 42", "",
         # internal functions (not themselves @nonreentrant) that hand control over
         "def _who(p: uint256) -> address:", f"    return {X_CBA}", "",
         "def _who_raw(p: uint256) -> address:",
         '    resp: Bytes[32] = raw_call(self.att, concat(method_id("cba(uint256)"), convert(p, bytes32)), max_outsize=32)',
         "    return abi_decode(resp, address)", "",
         "def _who_send(p: uint256) -> address:", "    send(self.att, 0, gas=3000000)", "    return self.att", "",
         "def _who_new(p: uint256) -> address:", "    return create_from_blueprint(self.bp, self, self.att)", "",
         "def _id(a: address) -> address:", "    return a", "",
         "def _whob(p: uint256) -> Bytes[32]:", "    return extcall A(self.att).cbb(p)", "",
         "def _val(p: uint256) -> uint256:", "    return extcall A(self.att).cb(p)", "",
         "def _val_send(p: uint256) -> uint256:", "    send(self.att, 0, gas=3000000)", "    return p", ""]
    for k, (stmt, ann, _rep, _static, _rev) in TERMS.items():
        for shape in (("rw", "bare") if k in BARE else ("rw",)):
            for prot in (True, False):
                if shape == "bare" and not prot:
                    continue
                L.append("@external")
                L += prot_dec if prot else unprot_dec
                L.append(f"def {'h' if prot else 'u'}_{k}{'_bare' if shape == 'bare' else ''}(p: uint256){ann}:")
                if shape == "rw":
                    L.append("    self.total += p")
                L += ["    " + stmt, ""]
    for k, (internal, external, _rep, _static, _rev) in PINT.items():
        L += internal + [""] + ["@external"] + unprot_dec + external + [""]
    return "\n".join(L)


def scenarios():
    """[(function, family key, protected, report, static, reverting)]"""
    out = []
    for k, (_stmt, _ann, rep, static, rev) in TERMS.items():
        out.append((f"h_{k}", k, True, rep, static, rev))
        if k in BARE:
            out.append((f"h_{k}_bare", k, True, rep, static, rev))
        out.append((f"u_{k}", k, False, rep, static, rev))
    for k, (_i, _e, rep, static, rev) in PINT.items():
        out.append((f"h_{k}", k, True, rep, static, rev))
    return out


# ------------------------------------------------------------------ IR export (printer; classification happens in Coq)
class HaltLin(cg.LegacyLin):
    """legacy IR tree -> blocks, additionally printing every hand-over instruction (in evaluation order: operands
    first) and ending a block at selfdestruct with a `halt` terminator"""

    def walk(self, n):
        v = n.value
        if v in HAND_OPS:
            for a in n.args:
                self.walk(a)
            self.cur.ins.append("H")
            self.cur.raw.append(f'mkI None "{v}" []')
        elif v == "selfdestruct":
            for a in n.args:
                self.walk(a)
            self.terminate(("halt",))
        else:
            super().walk(n)


def legacy_functions(ir_runtime, lock_op, slot, temp, final):
    lin = HaltLin(lock_op, slot, temp, final)
    lin.walk(ir_runtime)
    if lin.cur.term is None:
        lin.cur.term = ("exit",)
    for name, b in lin.by_name.items():
        if b not in lin.blocks:
            raise cg.Unclassifiable(f"jump to undefined label {name}")
    for b in lin.blocks:
        if b.term is None:
            b.term = ("abort",)
    idx = {id(b): i for i, b in enumerate(lin.blocks)}
    for b in lin.blocks:
        if b.term[0] == "jump":
            b.term = ("jump", [idx[id(t)] for t in b.term[1]])
    roots = {"runtime": 0}
    for name, b in lin.by_name.items():
        if str(name).startswith("internal") and not name.endswith("_cleanup") and "_call" not in name.split(")")[-1]:
            roots[name] = idx[id(b)]
    return {name: cg.extract(lin.blocks, r) for name, r in roots.items()}


OPRE = re.compile(r'^mkI \((?:None|Some \d+%N)\) "(\w+)"')
TERM_OPS = ("jmp", "jnz", "djmp", "ret", "dret", "retfmp", "return", "stop", "selfdestruct", "sink", "revert", "invalid")


def venom_functions(ctx, lock_op, slot, temp, final):
    funcs = cg.venom_functions(ctx, lock_op, slot, temp, final)
    for blocks in funcs.values():
        for b in blocks:
            ops = [OPRE.match(r).group(1) for r in b.raw]
            body = [o for o in ops if o not in TERM_OPS]
            if len(body) != len(b.ins):
                raise cg.Unclassifiable(f"block {b.name}: {len(body)} printed instructions, {len(b.ins)} classified")
            b.ins = ["H" if (o in HAND_OPS and i == "O") else i for o, i in zip(body, b.ins)]
            if ops and ops[-1] == "selfdestruct":
                b.term = ("halt",)
    return funcs


def resolve_calls(funcs):
    """('call', name) placeholders -> C (callee touches the lock) | H (callee may hand over) | O; the Coq side recomputes
    both closures -- this is only needed for the certificate"""
    locks = {n: any(i in ("L", "U") for b in bl for i in b.ins) for n, bl in funcs.items()}
    hands = {n: any(i == "H" for b in bl for i in b.ins) for n, bl in funcs.items()}
    changed = True
    while changed:
        changed = False
        for n, bl in funcs.items():
            for b in bl:
                for i in b.ins:
                    if isinstance(i, tuple):
                        if i[1] not in funcs:
                            raise cg.Unclassifiable(f"call to unknown function {i[1]}")
                        if locks[i[1]] and not locks[n]:
                            locks[n] = changed = True
                        if hands[i[1]] and not hands[n]:
                            hands[n] = changed = True
    for bl in funcs.values():
        for b in bl:
            b.ins = [("C" if locks[i[1]] else "H" if hands[i[1]] else "O") if isinstance(i, tuple) else ("O" if i == "O?" else i)
                     for i in b.ins]


def htr(a, i):
    """HaltCheck.htr; states 0 free, 1 held, 2 released"""
    if i == "L":
        return None if a == 1 else 1
    if i == "U":
        return 2
    if i == "C":
        return None if a == 1 else a
    if i == "H":
        return None if a == 2 else a
    return a


def label3(blocks, stuck=None):
    """certificate (untrusted, re-checked by Coq): possible abstract states at the entry of each block.
    `stuck` collects a diagnostic hint (block names where the Python run of the abstract machine got stuck)"""
    lab = [[False, False, False] for _ in blocks]
    lab[0][0] = True
    todo = [(0, 0)]
    while todo:
        i, a = todo.pop()
        for k in blocks[i].ins:
            a0, a = a, htr(a, k)
            if a is None:
                if stuck is not None:
                    stuck.append(f"{blocks[i].name}: {IK3[k]} in state {ST3[a0]}")
                break
        if a is None:
            continue
        if a == 1 and blocks[i].term[0] in ("exit", "halt", "ret") and stuck is not None:
            stuck.append(f"{blocks[i].name}: way out ({blocks[i].term[0]}) with the lock held")
        if blocks[i].term[0] == "jump":
            for t in blocks[i].term[1]:
                if not lab[t][a]:
                    lab[t][a] = True
                    todo.append((t, a))
    return lab


IK3 = {"L": "lock store", "U": "unlock store", "C": "call of a locking function", "H": "hand-over point", "O": "other"}
ST3 = ["free", "held", "released"]


def coq_labels3(lab):
    tf = lambda x: "true" if x else "false"  # noqa
    return "[" + "; ".join(f"({tf(x[0])}, {tf(x[1])}, {tf(x[2])})" for x in lab) + "]"


def rich_program(funcs, legacy):
    names = list(funcs)
    fidx = {n: i for i, n in enumerate(names)}
    fs = []
    for n in names:
        bs = []
        for b in funcs[n]:
            if not legacy:
                bs.append("[" + "; ".join(b.raw) + "]")
                continue
            ins = []
            for r in b.raw:
                if isinstance(r, tuple):
                    if r[1] not in fidx:
                        raise cg.Unclassifiable(f"call to unknown function {r[1]}")
                    ins.append(f'mkI None "invoke" [ALab {fidx[r[1]]}%N]')
                else:
                    ins.append(r)
            t = b.term
            if t[0] == "jump":
                ins.append('mkI None "djmp" [' + "; ".join(f"ALab {x}%N" for x in t[1]) + "]")
            else:
                ins.append('mkI None "' + {"exit": "stop", "halt": "selfdestruct", "ret": "ret", "abort": "revert"}[t[0]] + '" []')
            bs.append("[" + "; ".join(ins) + "]")
        fs.append("[" + ";\n ".join(bs) + "]")
    return "[" + ";\n\n ".join(fs) + "]"


def export(cd, cfg, layout):
    """-> dict(program, labels, lock_cfg, names, py_stats) for HaltCheck.hcheck_program"""
    from vlib.c09_build import lock_consts
    lock_op, temp, final, transient = lock_consts(cfg.evm)
    key = "transient_storage_layout" if transient else "storage_layout"
    slot = layout[key]["$.nonreentrant_key"]["slot"]
    if cfg.venom:
        funcs = venom_functions(cd.venom_runtime, lock_op, slot, temp, final)
    else:
        funcs = legacy_functions(cd.ir_runtime, lock_op, slot, temp, final)
    rich = rich_program(funcs, legacy=not cfg.venom)      # printed before calls are resolved
    resolve_calls(funcs)
    stuck = []
    labs = [coq_labels3(label3(bl, stuck)) for bl in funcs.values()]
    return {"hint": stuck[:6], "program": rich, "labels": "[" + ";\n ".join(labs) + "]",
            "lock_cfg": f"(lockcfg_of {'true' if transient else 'false'} {slot})", "names": list(funcs)}


def compile_victim(cfg, src):
    from pathlib import Path

    from vyper.compiler import output
    from vyper.compiler.input_bundle import FileInput
    from vyper.compiler.phases import CompilerData
    from vyper.compiler.settings import anchor_settings

    fi = FileInput(contents=src, source_id=0, path=Path("halt.vy"), resolved_path=Path("halt.vy"))
    cd = CompilerData(fi, settings=cfg.settings())
    with anchor_settings(cd.settings):
        res = {"bytecode": "0x" + cd.bytecode.hex(),
               "method_identifiers": output.build_method_identifiers_output(cd),
               "layout": json.loads(json.dumps(output.build_layout_output(cd)))}
        try:
            res["export"] = export(cd, cfg, res["layout"])
            res["export_error"] = None
        except cg.Unclassifiable as e:
            res["export"], res["export_error"] = None, str(e)
    return res


# ------------------------------------------------------------------ EVM scenarios
class World:
    def __init__(self, cfg, v, a, c):
        self.ch = Chain(cfg.evm)
        enc = lambda x: bytes(12) + bytes.fromhex(x[2:])  # noqa
        self.A = self.ch.deploy(bytes.fromhex(a["bytecode"][2:]))
        payload = bytes([0xFE, 0x71, 0x00]) + bytes.fromhex(c["bytecode"][2:])     # ERC-5202 blueprint
        pre = bytes([0x61]) + len(payload).to_bytes(2, "big") + bytes([0x80, 0x60, 0x0C, 0x60, 0x00, 0x39, 0x60, 0x00, 0xF3])
        self.BP = self.ch.deploy(pre + payload)
        self.V = self.ch.deploy(bytes.fromhex(v["bytecode"][2:]) + enc(self.A) + enc(self.BP))
        if None in (self.A, self.BP, self.V):
            raise RuntimeError("deployment failed")
        self.vmi = {k: int(x, 16).to_bytes(4, "big") for k, x in v["method_identifiers"].items()}
        self.ami = {k: int(x, 16).to_bytes(4, "big") for k, x in a["method_identifiers"].items()}
        r = self.ch.call(self.A, self.ami["set_victim(address)"] + enc(self.V))
        r2 = self.ch.call(self.V, self.vmi["fund()"], value=1000)
        if not (r.ok and r2.ok):
            raise RuntimeError("setup failed")
        self.ch.reset_transient()
        self.base = self.ch.snapshot()

    def word(self, sel):
        r = self.ch.call(self.A, self.ami[sel])
        return int.from_bytes(r.out, "big") if r.ok and len(r.out) == 32 else None

    def run(self, fn, p, rep):
        self.ch.revert(self.base)
        self.base = self.ch.snapshot()
        self.ch.reset_transient()
        data = self.vmi[f"{fn}(uint256)"] + p.to_bytes(32, "big")
        call = self.ami["drive(bytes)"] + (32).to_bytes(32, "big") + len(data).to_bytes(32, "big") + data + bytes(-len(data) % 32)
        r = self.ch.call(self.A, call)
        self.ch.reset_transient()
        o = {"driver_ok": r.ok, "ok": None, "bits": None, "after": None, "calldata_to_attacker": call.hex()}
        if not r.ok:
            return o
        o["ok"] = bool(self.word("ok1()"))
        o["after"] = self.word("after()")
        rr = self.ch.call(self.A, self.ami["res()"])
        res = b""
        if rr.ok and len(rr.out) >= 64:
            n = int.from_bytes(rr.out[32:64], "big")
            res = rr.out[64:64 + n]
        o["returned_or_revert_data"] = res.hex()
        if rep == "att":
            o["bits"] = self.word("bits()")
        elif rep in ("ret", "revdata"):
            o["bits"] = int.from_bytes(res, "big") if len(res) == 32 else None
        elif rep == "revstr":
            # Error(string): selector, offset, length, characters
            if len(res) >= 68 and res[:4] == bytes.fromhex("08c379a0"):
                n = int.from_bytes(res[36:68], "big")
                s = res[68:68 + n]
                o["bits"] = int(s) if s.isdigit() else None
        elif rep == "bal":
            hit = [b for b in range(32) if self.ch.evm.get_balance("0x" + (ADDR_BASE + b).to_bytes(20, "big").hex()) > 0]
            o["bits"] = hit[0] if len(hit) == 1 else None
        return o


def check_config(cfg, pragma=False):
    """-> dict(n, nt, viol[(name, detail)], mism[detail], export, export_error)"""
    src = victim_source(pragma)
    ref = configs.Config(False, "gas", cfg.evm)
    v = compile_victim(cfg, src)
    a = configs.compile_src(ATTACKER, ref, formats=("bytecode", "method_identifiers"))
    c = configs.compile_src(CHILD, ref, formats=("bytecode", "method_identifiers"))
    w = World(cfg, v, a, c)
    transient = "$.nonreentrant_key" in v["layout"].get("transient_storage_layout", {})
    viol, mism = [], []
    n = nt = 0
    for fn, k, prot, rep, static, rev in scenarios():
        stmt = (TERMS[k][0] if k in TERMS else " / ".join(x.strip() for x in PINT[k][0][1:]))
        o = w.run(fn, 3, rep)
        n += 1
        base = {"config": cfg.name, "pragma_style": pragma, "lock": "transient" if transient else "storage", "family": k, "function": fn,
                "terminating_statement": stmt, "observed": o, "victim_source": src, "attacker_source": ATTACKER, "child_source": CHILD,
                "how": "vlib.c09_halt.World(cfg, compile_victim(cfg, victim_source(pragma_style)), attacker, child).run(function, 3, report): deploy "
                       "attacker, blueprint of CHILD, victim(attacker, blueprint); attacker.set_victim(victim); victim.fund() with 1000 wei; "
                       "send `calldata_to_attacker` = attacker.drive(calldata of function(3)): one transaction = function(3), then poke(), "
                       "price(), fallback; read attacker.ok1() / bits() / after() / res()"}
        if not o["driver_ok"] or o["after"] is None:
            mism.append(dict(base, problem="the driver transaction failed"))
            continue
        if o["after"] != 7:
            viol.append((f"lock not released after {fn} [{stmt}] under {cfg.name}: follow-up poke/price/fallback in the same transaction "
                         f"= {[bool(o['after'] >> i & 1) for i in range(3)]}", dict(base, problem="lock still held after the outermost call was over")))
        if o["ok"] != (not rev):
            mism.append(dict(base, problem=f"call outcome: expected {'revert' if rev else 'success'}"))
            continue
        want = ho.expected_bits(prot, static)
        nt += 1 if prot else 0
        got = o["bits"]
        if got is None or not (got & 16):
            mism.append(dict(base, problem="the foreign code did not report (probe did not run)"))
            continue
        if prot and (got & 7):
            viol.append((f"re-entry into a @nonreentrant function succeeded while a protected function was still executing (evaluating the "
                         f"operand of its terminating statement `{stmt}`, {fn}) under {cfg.name}: {ho.describe(got)}",
                         dict(base, expected_bits=want, problem=ho.describe(got))))
        elif got != want:
            mism.append(dict(base, expected_bits=want, problem="unexpected re-entry outcome: " + ho.describe(got)))
    return {"n": n, "nt": nt, "viol": viol, "mism": mism, "export": v["export"], "export_error": v["export_error"],
            "config": f"{cfg.name}{' #pragma nonreentrancy on' if pragma else ''}"}


def worker(job):
    """one (configuration, protection style): compile, run the EVM scenarios, run the Coq checker on the printed IR
    (coqc in this worker process, so that the whole part overlaps with the rest of the check)"""
    import warnings
    warnings.filterwarnings("ignore")
    cfg, pragma = job
    try:
        r = check_config(cfg, pragma)
    except Exception as e:  # noqa
        return {"n": 0, "nt": 0, "viol": [], "failures": [], "tot": {}, "config": cfg.name,
                "mism": [{"config": cfg.name, "pragma_style": pragma, "function": "-", "family": "-",
                          "problem": f"terminator family failed: {type(e).__name__}: {e}", "observed": traceback.format_exc()[-1500:]}]}
    try:
        r["failures"], r["tot"] = run_checker([r])
    except Exception as e:  # coqc failure / time limit: fail closed
        r["failures"], r["tot"] = [(r["config"], f"checker run failed: {type(e).__name__}: {str(e)[-600:]}")], {}
    r["export"] = None      # large strings: not needed by the parent
    return r


STAT_KEYS = ["blocks", "locks", "unlocks", "calllocks", "handovers", "halting_exits", "other_exits"]


def run_checker(res):
    """HaltCheck.hcheck_program on every exported program (vm_compute).  -> (failures[(config, text)], totals)"""
    failures, exprs, owners = [], [], []
    for r in res:
        if r["export"] is None:
            if r["export_error"]:
                failures.append((r["config"], "export: " + r["export_error"]))
            continue
        e = r["export"]
        exprs.append(f"let p := {e['program']} in let L := {e['lock_cfg']} in "
                     f"hstats_program L p ++ map (fun b : bool => if b then 1 else 0) (hcheck_program L p {e['labels']})")
        owners.append((r["config"], e["names"], e.get("hint")))
    outs = coqrun.eval_zlists("From Verif Require Import C09.Lock C09.LockTpl C09.ExitCheck C09.RichCfg C09.HaltCheck.\n", exprs,
                              "c09halt", shard=2, timeout=600) if exprs else []
    tot = dict.fromkeys(STAT_KEYS, 0)
    tot["functions"] = tot["functions_checked"] = 0
    for (name, fnames, hint), o in zip(owners, outs):
        if len(o) != len(STAT_KEYS) + len(fnames):
            failures.append((name, f"unexpected checker output of length {len(o)} for {len(fnames)} functions"))
            continue
        st = dict(zip(STAT_KEYS, o))
        for k, v in st.items():
            tot[k] += v
        tot["functions"] += len(fnames)
        # non-vacuity (counted by Coq): the victim has 24 protected terminators with a hand-over operand and 10 halting ones;
        # tail merging may share code, so the floors are well below
        if st["locks"] < 10 or st["unlocks"] < 10 or st["handovers"] < 12 or st["halting_exits"] < 4:
            failures.append((name, f"too few lock / hand-over / halting sites classified: {st}"))
        for fn, v in zip(fnames, o[len(STAT_KEYS):]):
            tot["functions_checked"] += 1
            if v != 1:
                failures.append((name, f"function {fn}: rejected by HaltCheck.hcheck_program (a hand-over point -- call / staticcall / "
                                       "delegatecall / create / invoke of a function that calls out -- between the unlock store and the way out "
                                       "of the function, a way out (return / stop / selfdestruct / ret) with the lock held, or an "
                                       "unclassifiable store to the lock slot)" + (f"; hint (untrusted): {hint}" if hint else "")))
    return failures, tot


def jobs_for(cfgs, seed=0, both=False, pragma=None):
    """protection style per configuration: decorators / `#pragma nonreentrancy on` alternate (which one starts depends on
    the seed, so both pipelines see both styles over the seeds); both=True (thorough tier): every configuration in both styles"""
    if pragma is not None:
        return [(c, pragma) for c in cfgs]
    if both:
        return [(c, p) for c in cfgs for p in (False, True)]
    return [(c, (i + seed) % 2 == 1) for i, c in enumerate(cfgs)]


def launch(jobs):
    """start compiling / executing the family in 2 worker processes (overlaps with the other parts of the check);
    hand the result to part_halt(..., launched=...)"""
    from concurrent.futures import ProcessPoolExecutor
    ex = ProcessPoolExecutor(max_workers=2)
    return ex, [ex.submit(worker, j) for j in jobs]


def part_halt(ctx, jobs, found_before=False, launched=None):
    """returns True iff a failing input was found.  found_before: another part already reported a failing input (then a
    rejected placement is recorded but not reported a second time as theorem-broken)"""
    ex, futs = launched if launched is not None else launch(jobs)
    try:
        res = [f.result() for f in futs]
    finally:
        ex.shutdown(wait=False)
    viol = [v for r in res for v in r["viol"]]
    mism = [m for r in res for m in r["mism"]]
    failures = [f for r in res for f in r["failures"]]
    tot = {}
    for r in res:
        for k, v in r["tot"].items():
            tot[k] = tot.get(k, 0) + v
    ctx.corr["terminator_family"] = {"evaluations": sum(r["n"] for r in res), "protected_terminators_with_handover_operand": sum(r["nt"] for r in res),
                                     "terminators": list(TERMS) + list(PINT), "jobs (configuration, pragma style)": [[c.name, p] for c, p in jobs], "violations": len(viol),
                                     "mismatches": len(mism), "halt_check": tot, "halt_check_failures": len(failures),
                                     "halt_check_failure_samples": [f"{c}: {t}"[:400] for c, t in failures[:3]]}
    ctx.extra["halt_checker"] = ("coq/C09/HaltCheck.v hcheck_program (hand-over closure + classification + CFG construction in Coq; sound: "
                                 "printed_function_no_handover_after_unlock) via vm_compute on the printed IR of the terminator family")
    seen = set()
    for name, d in viol:
        key = f"c09:terminator:{d['family']}:{d['lock']}"
        if key in seen or len(seen) >= 3:
            continue
        seen.add(key)
        d = dict(d, configurations=sorted({x[1]["config"] for x in viol if x[1]["family"] == d["family"]}),
                 families_affected=sorted({x[1]["family"] for x in viol}))
        ctx.violation("failing-input", name, d, key=key)
    if not viol:
        for d in mism[:3]:
            ctx.violation("correspondence-broken", f"terminator family: {d.get('problem')} ({d.get('function')}, {d.get('config')})", d)
        for cfgname, text in ([] if found_before else failures[:3]):
            ctx.violation("theorem-broken", f"printed_function_no_handover_after_unlock: {text} [{cfgname}]",
                          {"config": cfgname, "what": text, "source": victim_source("pragma" in cfgname)})
    return bool(viol)
