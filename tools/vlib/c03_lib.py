"""C03 shared helpers: boundary grids, EVM snippet runners, compare-inside-Coq."""
import math

from . import coqrun

W = 2**256

MISM = """
Fixpoint mism_go (fuel : nat) (i : Z) (a b : list Z) : list Z :=
  match a, b with
  | x :: a', y :: b' =>
      if x =? y then mism_go fuel (i + 1) a' b'
      else match fuel with O => [] | S f => i :: x :: mism_go f (i + 1) a' b' end
  | [], [] => []
  | _, _ => [-1; i]
  end.
(* first two mismatches between expected (a) and observed (b): [i1; exp1; i2; exp2]; [-1; i] = length mismatch *)
Definition mism (a b : list Z) : list Z := mism_go 2 0 a b.
"""


def word(v):
    return (v % W).to_bytes(32, "big")


def _decode(m):
    out = []
    i = 0
    while i + 1 < len(m):
        out.append((m[i], m[i + 1]))
        i += 2
    return out


def compare_rows(imports, rows, name, shard=40, timeout=900):
    """rows: [{"spec": coq list-Z expr, "model": coq expr or None, "obs": [int]}].
    The comparison runs INSIDE Coq (vm_compute); only mismatches are printed.
    Returns [(spec_mismatches, model_mismatches)], each a list of (index, expected); index -1 = length mismatch."""
    exprs = []
    for r in rows:
        o = coqrun.zlist(r["obs"])
        e = f"mism ({r['spec']}) {o}"
        if r.get("model"):
            e = f"({e}) ++ [-7] ++ (mism ({r['model']}) {o})"
        exprs.append(e)
    outs = coqrun.eval_zlists(imports + MISM, exprs, name, shard=shard, timeout=timeout)
    res = []
    for r, o in zip(rows, outs):
        if r.get("model"):
            k = o.index(-7) if -7 in o else len(o)
            res.append((_decode(o[:k]), _decode(o[k + 1:])))
        else:
            res.append((_decode(o), []))
    return res


def bounds(k, s):
    bits = 8 * k
    return (-(2**(bits - 1)), 2**(bits - 1) - 1) if s else (0, 2**bits - 1)


def type_grid(ty, rnd, size=None):
    """Boundary grid of DESIGN C03 Search for numeric type ty=(k, signed, dec), in-range values only."""
    k, s, d = ty
    bits = 8 * k
    lo, hi = bounds(k, s)
    h = bits // 2
    r = math.isqrt(hi)
    must = {0, 1, 2, -1, -2, lo, lo + 1, hi, hi - 1}
    cand = {2**h, -(2**h), 2**h - 1, 2**h + 1, -(2**h) - 1, 2**(bits - 1) - 1, 2**(bits - 1), 2**(bits - 1) + 1,
            -(2**(bits - 1)) + 1, r, r + 1, r - 1, -r, -r - 1, -r + 1, 3, -3, 7, 10, hi // 2, lo // 2, hi // 3}
    if d:
        must |= {10**10, -(10**10)}
        cand |= {3 * 10**10, 10**5, -(10**5), 10**10 + 1, 10**20, -(10**20), 5 * 10**9}
    must = {v for v in must if lo <= v <= hi}
    cand = sorted(v for v in cand if lo <= v <= hi and v not in must)
    extra = [rnd.randrange(lo, hi + 1) for _ in range(2)]
    if size is not None and len(must) + len(cand) > size:
        cand = rnd.sample(cand, max(0, size - len(must)))
    return sorted(must | set(cand) | set(extra))


def tyname(ty):
    k, s, d = ty
    return "decimal" if d else f"{'int' if s else 'uint'}{8 * k}"


def call_word(chain, addr, data):
    r = chain.call(addr, data)
    return int.from_bytes(r.out, "big") if r.ok and len(r.out) == 32 else -1


def ir_snippet_code(node, nargs=2):
    """Legacy IR expression `node` (free variables x, y) -> runtime bytecode via the REAL compile_ir + assembler."""
    from vyper.codegen.ir_node import IRnode
    from vyper.compiler.settings import OptimizationLevel
    from vyper.evm.assembler.core import assembly_to_evm
    from vyper.ir import compile_ir
    from . import c03_export as X
    with X.settings_ctx():
        ir = IRnode.from_list(["with", "x", ["calldataload", 0], ["with", "y", ["calldataload", 32],
                               ["seq", ["mstore", 0, node], ["return", 0, 32]]]])
        asm = compile_ir.compile_to_assembly(ir, OptimizationLevel.NONE)
        code, _ = assembly_to_evm(asm)
    return code


def venom_snippet_code(tmpl):
    """Exported Venom template -> runtime bytecode: REAL printer, REAL parser, -O none pipeline, venom back end."""
    from vyper.compiler.settings import OptimizationLevel, Settings, VenomOptimizationFlags, anchor_settings
    from vyper.evm.assembler.core import assembly_to_evm
    from vyper.venom import generate_assembly_experimental, run_passes_on
    from vyper.venom.parser import parse_venom
    ins, r = tmpl
    body = "\n".join("  " + str(i).rstrip() for i in ins)
    text = f"function main {{\nmain:\n  %1 = calldataload 0\n  %2 = calldataload 32\n{body}\n  mstore 0, {r}\n  return 0, 32\n}}\n"
    with anchor_settings(Settings(optimize=OptimizationLevel.NONE)):
        vctx = parse_venom(text)
        run_passes_on(vctx, VenomOptimizationFlags(level=OptimizationLevel.NONE), disable_mem_checks=True)
        asm = generate_assembly_experimental(vctx, OptimizationLevel.NONE)
        code, _ = assembly_to_evm(asm)
    return code


def run_code(chain, code, cases):
    addr = chain.set_code(None, code)
    return [call_word(chain, addr, word(x) + word(y)) for x, y in cases]
