"""C03 shared helpers: boundary grids, EVM snippet runners, compare-inside-Coq."""
import math

from . import coqrun

W = 2**256

FP_MASK = 2**320 - 1
FP_B = 0x100000000000005B  # odd multiplier

FPCOQ = f"""
(* fingerprint of a result row: polynomial hash modulo 2^320 with an odd multiplier (values shifted by 3 to be
   >= 0).  Rows differing in exactly one position never collide (entries are < 2^257, the multiplier is odd). *)
Definition fp_M : Z := 2 ^ 320 - 1.
Definition fp_B : Z := {hex(FP_B)}.
Definition fp (l : list Z) : list Z :=
  [Z.of_nat (List.length l); fold_left (fun acc v => Z.land (acc * fp_B + (v + 3)) fp_M) l 0].
"""


def fp(obs):
    acc = 0
    for v in obs:
        acc = (acc * FP_B + (v + 3)) & FP_MASK
    return [len(obs), acc]


def word(v):
    return (v % W).to_bytes(32, "big")


def compare_rows(imports, rows, name, shard=40, timeout=900):
    """rows: [{"spec": coq list-Z expr, "model": coq expr or None, "obs": [int] | "multi": [[int], ...]}].
    Stage 1: Coq (vm_compute) returns (length, 320-bit polynomial fingerprint) of each expected row; equal
    fingerprints are taken as equal rows (a single wrong entry can never collide; see FPCOQ).
    Stage 2, only for rows whose fingerprint differs: the exact expected row is printed and compared.
    Returns one entry per row: (spec_mismatches, model_mismatches), each a list of (index, expected[, which obs]);
    index -1 = length mismatch.  With "multi", several observation lists are compared against the same spec and
    mismatches carry the index of the observation list as third component."""
    exprs = []
    for r in rows:
        e = f"fp ({r['spec']})"
        if r.get("model"):
            e = f"({e}) ++ (fp ({r['model']}))"
        exprs.append(e)
    outs = coqrun.eval_zlists(imports + FPCOQ, exprs, name, shard=shard, timeout=timeout)
    res = [([], []) for _ in rows]
    todo = []
    for k, (r, o) in enumerate(zip(rows, outs)):
        obss = r["multi"] if "multi" in r else [r["obs"]]
        for m, obs in enumerate(obss):
            want = fp(obs)
            if o[:2] != want:
                todo.append((k, "spec", m))
            if r.get("model") and o[2:4] != want:
                todo.append((k, "model", m))
    if todo:
        todo = todo[:40]
        outs2 = coqrun.eval_zlists(imports, [rows[k][w] for k, w, _ in todo], name + "x", shard=4, timeout=timeout)
        for (k, w, m), exp in zip(todo, outs2):
            obs = (rows[k]["multi"] if "multi" in rows[k] else [rows[k]["obs"]])[m]
            mis = []
            if len(exp) != len(obs):
                mis.append((-1, len(exp), m))
            for i, (a, b) in enumerate(zip(exp, obs)):
                if a != b:
                    mis.append((i, a, m))
                    if len(mis) >= 2:
                        break
            if not mis:
                mis.append((-1, len(exp), m))  # fingerprint differed but rows equal: cannot happen
            if w == "spec":
                res[k] = (res[k][0] + mis, res[k][1])
            else:
                res[k] = (res[k][0], res[k][1] + mis)
    return res


def bounds(k, s):
    bits = 8 * k
    return (-(2**(bits - 1)), 2**(bits - 1) - 1) if s else (0, 2**bits - 1)


def type_grid(ty, rnd, size=None):
    """Boundary grid of DESIGN C03 Search for numeric type ty=(k, signed, dec), in-range values only."""
    k, s, d = ty
    bits = 8 * k
    lo, hi = bounds(k, s)
    h = bits // 2
    r = math.isqrt(hi)
    must = {0, 1, 2, -1, -2, lo, lo + 1, hi, hi - 1}
    cand = {2**h, -(2**h), 2**h - 1, 2**h + 1, -(2**h) - 1, 2**(bits - 1) - 1, 2**(bits - 1), 2**(bits - 1) + 1,
            -(2**(bits - 1)) + 1, r, r + 1, r - 1, -r, -r - 1, -r + 1, 3, -3, 7, 10, hi // 2, lo // 2, hi // 3}
    if d:
        must |= {10**10, -(10**10)}
        cand |= {3 * 10**10, 10**5, -(10**5), 10**10 + 1, 10**20, -(10**20), 5 * 10**9}
    must = {v for v in must if lo <= v <= hi}
    cand = sorted(v for v in cand if lo <= v <= hi and v not in must)
    extra = [rnd.randrange(lo, hi + 1) for _ in range(2)]
    if size is not None and len(must) + len(cand) > size:
        cand = rnd.sample(cand, max(0, size - len(must)))
    return sorted(must | set(cand) | set(extra))


def tyname(ty):
    k, s, d = ty
    return "decimal" if d else f"{'int' if s else 'uint'}{8 * k}"


def call_word(chain, addr, data):
    r = chain.call(addr, data)
    return int.from_bytes(r.out, "big") if r.ok and len(r.out) == 32 else -1


def ir_snippet_code(node, nargs=2):
    """Legacy IR expression `node` (free variables x, y) -> runtime bytecode via the REAL compile_ir + assembler."""
    from vyper.codegen.ir_node import IRnode
    from vyper.compiler.settings import OptimizationLevel
    from vyper.evm.assembler.core import assembly_to_evm
    from vyper.ir import compile_ir
    from . import c03_export as X
    with X.settings_ctx():
        ir = IRnode.from_list(["with", "x", ["calldataload", 0], ["with", "y", ["calldataload", 32],
                               ["seq", ["mstore", 0, node], ["return", 0, 32]]]])
        asm = compile_ir.compile_to_assembly(ir, OptimizationLevel.NONE)
        code, _ = assembly_to_evm(asm)
    return code


def venom_snippet_code(tmpl):
    """Exported Venom template -> runtime bytecode: REAL printer, REAL parser, -O none pipeline, venom back end."""
    from vyper.compiler.settings import OptimizationLevel, Settings, VenomOptimizationFlags, anchor_settings
    from vyper.evm.assembler.core import assembly_to_evm
    from vyper.venom import generate_assembly_experimental, run_passes_on
    from vyper.venom.parser import parse_venom
    ins, r = tmpl
    body = "\n".join("  " + str(i).rstrip() for i in ins)
    text = f"function main {{\nmain:\n  %1 = calldataload 0\n  %2 = calldataload 32\n{body}\n  mstore 0, {r}\n  return 0, 32\n}}\n"
    with anchor_settings(Settings(optimize=OptimizationLevel.NONE)):
        vctx = parse_venom(text)
        run_passes_on(vctx, VenomOptimizationFlags(level=OptimizationLevel.NONE), disable_mem_checks=True)
        asm = generate_assembly_experimental(vctx, OptimizationLevel.NONE)
        code, _ = assembly_to_evm(asm)
    return code


def run_code(chain, code, cases):
    addr = chain.set_code(None, code)
    return [call_word(chain, addr, word(x) + word(y)) for x, y in cases]
