"""C14 (pass level), stage 1: pass-localising behavioural differential on the real back end + pyrevm.

One worker call = one corpus program: reference (legacy -O none) vs the full Venom pipelines, with every pass wrapped
(snapshots, well-formedness, print/parse round trip); on disagreement (and for a seeded sample of passes otherwise) the
pipeline is re-run with one pass class turned into a no-op to localise.
"""
import random
import re
import time
import traceback

from vlib import c02_runner as R
from vlib import c14_pass_harness as H
from vlib.c14_pass_corpus import HELPERS
from vlib.configs import Config, compile_src
from vlib.evm import DEPLOYER, SENDER2, Chain, log_tuple

EVM = "cancun"
LEVELS = ["gas", "O3", "codesize"]       # O2, O3, Os   (venom -O none is an alias of O2 in vyper/venom/__init__.py)
_helper_cache = {}
_NEVER_COMPILES = set()      # pass classes whose removal made the pipeline fail/hang for an earlier program (per worker process)


def _helper_code(kind):
    if kind not in _helper_cache:
        src, blueprint = HELPERS[kind]
        fmt = "blueprint_bytecode" if blueprint else "bytecode"
        out = compile_src(src, Config(False, "gas", EVM), formats=(fmt,))
        _helper_cache[kind] = bytes.fromhex(out[fmt][2:])
    return _helper_code_get(kind)


def _helper_code_get(kind):
    return _helper_cache[kind]


class Deployed:
    def __init__(self, entry, bytecode_hex, abi):
        self.chain = Chain(EVM)
        self.helper = None
        if entry.get("helper"):
            self.helper = self.chain.deploy(_helper_code(entry["helper"]))
            if self.helper is None:
                raise RuntimeError("helper deployment failed")
        init = bytes.fromhex(bytecode_hex[2:])
        ctor = [a for a in abi if a["type"] == "constructor"]
        if ctor and ctor[0]["inputs"]:
            vals = []
            for i in ctor[0]["inputs"]:
                if i["type"] == "address":
                    vals.append(self.helper or DEPLOYER)
                else:
                    vals.append(R.gen_value(i, random.Random(1), [DEPLOYER]))
            init += R.encode_args(ctor[0]["inputs"], vals)
        self.addr = self.chain.deploy(init)

    def addrs(self):
        return [a for a in [self.helper, DEPLOYER, SENDER2, self.addr, "0x" + "00" * 20] if a]


_INT = re.compile(r"^(u?)int(\d+)$")
_LIT = re.compile(r"(?<![\w.])(-?\d+)(?![\w.])")


def source_literals(src):
    out = set()
    for m in _LIT.finditer(src):
        try:
            v = int(m.group(1))
        except ValueError:
            continue
        if abs(v) < 2 ** 64:
            out.add(v)
    return sorted(out)


def boundary_value(inp, rng, addrs, lits, t=None):
    """like c02_runner.gen_value, but integers are drawn around the literals of the source text and the type bounds"""
    t = t if t is not None else inp["type"]
    m = _INT.match(t)
    if not m:
        a = R._arr(t)
        if a is not None:
            base, n = a
            if n is None:
                n = rng.choice([0, 1, 2, 2, 3, 4])
            return [boundary_value(inp, rng, addrs, lits, base) for _ in range(n)]
        if t == "tuple":
            return tuple(boundary_value(c, rng, addrs, lits) for c in inp["components"])
        return R.gen_value(inp, rng, addrs, t)
    bits = int(m.group(2))
    lo, hi = (0, 2 ** bits - 1) if m.group(1) else (-(2 ** (bits - 1)), 2 ** (bits - 1) - 1)
    x = rng.random()
    if x < 0.6 and lits:
        v = rng.choice(lits) + rng.choice([0, 0, 0, 1, -1, 2, -2])
        if rng.random() < 0.15:
            v = -v
    elif x < 0.8:
        v = rng.choice([lo, lo + 1, hi, hi - 1, 0, 1, -1, hi // 2])
    else:
        v = rng.randrange(lo, hi + 1) if rng.random() < 0.4 else rng.randrange(0, 40)
    return min(max(v, lo), hi)


def fn_source(src, name):
    """text of `def name(...)` up to the next top-level def/decorator (for per-function literal pools)"""
    m = re.search(r"^def " + re.escape(name) + r"\(", src, re.M)
    if not m:
        return src
    rest = src[m.end():]
    n = re.search(r"^(@|def )", rest, re.M)
    return rest[: n.start()] if n else rest


def _sweep_values(inp, lits):
    """boundary sweep for a scalar integer input: every literal of the function text and its neighbours, clipped to the
    type, smallest magnitudes first"""
    m = _INT.match(inp["type"])
    if not m:
        return None
    bits = int(m.group(2))
    lo, hi = (0, 2 ** bits - 1) if m.group(1) else (-(2 ** (bits - 1)), 2 ** (bits - 1) - 1)
    c = set()
    for l in lits:
        for sgn in ((1, -1) if lo < 0 else (1,)):
            for d in (-1, 0, 1):
                c.add(min(max(sgn * l + d, lo), hi))
    c |= {lo, hi, min(max(0, lo), hi)}
    return sorted(c, key=lambda v: (abs(v), v))


def make_plan(abi, src, rng, addrs, per_fn, n_random):
    lits = source_literals(src)
    fns = [a for a in abi if a["type"] == "function"]
    plan = []
    for fn in fns:
        flits = source_literals(fn_source(src, fn["name"])) or lits
        sweeps = [_sweep_values(i, flits) for i in fn["inputs"]]
        n_sweep = min(max([len(s) for s in sweeps if s] or [0]), per_fn * 4)
        ints = [j for j, sw in enumerate(sweeps) if sw]
        pairs = None
        if len(ints) == 2:
            # two integer arguments: all pairs of the 7 smallest-magnitude boundary values of each
            pairs = [(x, y) for x in sweeps[ints[0]][:7] for y in sweeps[ints[1]][:7]]
            n_sweep = len(pairs)
        seen = set()
        for k in range(per_fn + n_sweep):
            try:
                vals = [boundary_value(i, rng, addrs, flits) for i in fn["inputs"]]
                if k < n_sweep:
                    # systematic part: the k-th sweep value in every integer position that has one (other positions random)
                    if pairs is not None:
                        vals[ints[0]], vals[ints[1]] = pairs[k]
                    else:
                        for j, sw in enumerate(sweeps):
                            if sw and (k < len(sw)):
                                vals[j] = sw[k]
                data = R.selector(fn) + R.encode_args(fn["inputs"], vals)
            except Exception:  # noqa
                vals, data = None, R.selector(fn)
            if data in seen:
                continue
            seen.add(data)
            payable = fn.get("stateMutability") == "payable"
            plan.append({"name": fn["name"], "data": data, "value": rng.choice([0, 1, 1000]) if payable else 0,
                         "sender": DEPLOYER if rng.random() < 0.7 else SENDER2, "args": repr(vals)[:300]})
    rng.shuffle(plan)
    plan += R.plan_calls(abi, rng, n_random, addrs)
    return plan


def observe(entry, out, abi, plan):
    d = Deployed(entry, out["bytecode"], abi)
    if d.addr is None:
        return {"deployed": False, "results": [], "state": None}
    res = []
    for c in plan:
        r = d.chain.call(d.addr, c["data"], value=c["value"], sender=c["sender"])
        try:
            d.chain.reset_transient()
        except Exception:  # noqa
            pass
        logs = []
        for l in r.logs:
            if isinstance(l, tuple):
                logs.append(("halt", str(l[1])[:40]))
            else:
                lt = log_tuple(l)
                logs.append((lt[0], tuple(x.hex() for x in lt[1]), lt[2].hex()))
        res.append((r.ok, r.out.hex(), tuple(logs)))
    st = {}
    for name, slot, n in R.layout_vars(out.get("layout", {})):
        st[name] = tuple(d.chain.storage(d.addr, slot + i) for i in range(n))
    bal = {"self": d.chain.evm.get_balance(d.addr)}
    return {"deployed": True, "results": res, "state": (st, bal)}


def _call_desc(plan, i):
    if i is None or i >= len(plan):
        return None
    c = plan[i]
    return {"index": i, "fn": c["name"], "args": c.get("args"), "calldata": "0x" + c["data"].hex(), "value": c["value"],
            "sender": c["sender"]}


def _harvest_live(res, stats, st, job, rng, entry, level):
    """liveness observations: those made for code generation, and a seeded sample of those made for passes"""
    if not st.want_live:
        return
    stats["live_runs"] = stats.get("live_runs", 0) + st.n_live_runs
    cg = [o for o in st.live_obs if o["phase"] in ("codegen", "observer-error")]
    rest = [o for o in st.live_obs if o["phase"] not in ("codegen", "observer-error")]
    rng.shuffle(rest)
    cap = job.get("live_cap", 4)
    if job["tier"] == "quick" and level != job["levels"][-1]:
        cg, rest = cg[:0], rest[:1]          # quick: code-generation tables of one level, one pass-time table per level
    for o in cg[:2 * cap] + rest[:cap]:
        res["live"].append(dict(o, prog=entry["name"], level=level))


def run_program(job):
    """job: dict(entry, tier, seed, skip_sample(list of pass names to try even without disagreement), want_snaps)
    -> picklable result dict"""
    entry, tier = job["entry"], job["tier"]
    if "__BPLEN__" in entry["src"]:
        # length of the blueprint's initcode (the deployed blueprint is the 3-byte ERC-5202 preamble + initcode)
        hsrc, _ = HELPERS[entry["helper"]]
        n = len(bytes.fromhex(compile_src(hsrc, Config(False, "gas", EVM), formats=("bytecode",))["bytecode"][2:]))
        entry = dict(entry, src=entry["src"].replace("__BPLEN__", str(n)))
    rng = random.Random(f"{job['seed']}:c14p:{entry['name']}")
    res = {"name": entry["name"], "findings": [], "stats": {}, "snaps": [], "errors": [], "inputs": [], "ref_runtime": None, "live": [], "texts": {}}
    stats = res["stats"]
    t0 = time.time()
    try:
        ref_cfg = Config(False, "none", EVM)
        ref_out = compile_src(entry["src"], ref_cfg, formats=("bytecode", "bytecode_runtime", "abi", "layout"))
        res["ref_runtime"] = ref_out["bytecode_runtime"]
        abi = ref_out["abi"]
        d = Deployed(entry, ref_out["bytecode"], abi)
        if d.addr is None:
            res["errors"].append("reference deployment failed")
            return res
        per_fn, n_random = (6, 10) if tier == "quick" else (14, 40)
        plan = make_plan(abi, entry["src"], rng, d.addrs(), per_fn, n_random)
        ref = observe(entry, ref_out, abi, plan)
        # inputs for stage 2 (single calls on the runtime function): one call per function first, then plan order
        seen_fn, first, rest = set(), [], []
        for c in plan:
            (rest if c["name"] in seen_fn else first).append(c)
            seen_fn.add(c["name"])
        res["inputs"] = [{"fn": c["name"], "args": c.get("args"), "data": c["data"].hex(), "value": c["value"], "sender": c["sender"]}
                         for c in (first + rest)[: job.get("n_inputs", 10)]]
        stats["calls"] = len(plan)
        stats["ref_ok_calls"] = sum(1 for r in ref["results"] if r[0])
        stats["compiles"] = 1
        stats["skip_compiles"] = 0
        stats["skip_failed"] = 0
        stats["skip_equal_ref"] = 0
        stats["invocations"] = 0
        stats["changed"] = 0
        stats["wf_checks"] = 0
        stats["roundtrip"] = {}
        seen_rt = set()
        scale = H.load_scale()
        stats["skip_limit"] = stats.get("skip_limit", 8) * scale
        for level in job["levels"]:
            cfg = Config(True, level, EVM)
            st = H.State(record=True, wf=True, keep_text=True)
            st.want_live = bool(job.get("want_live"))
            try:
                out = None
                for limit in (60 * scale, 240 * scale):
                    try:
                        out = H.compile_with(entry["src"], cfg, st, formats=("bytecode", "layout"), limit=limit)
                        break
                    except H.CompileTimeout:
                        # wall-clock limit hit (loaded machine): not a finding; one retry with a larger limit, fresh state
                        stats["compile_timeout"] = stats.get("compile_timeout", 0) + 1
                        st = H.State(record=True, wf=True, keep_text=True)
                        st.want_live = bool(job.get("want_live"))
                if out is None:
                    stats["compile_gave_up"] = stats.get("compile_gave_up", 0) + 1
                    continue
            except Exception as e:  # noqa
                res["findings"].append({"kind": "compile-failure", "level": level, "config": cfg.name,
                                        "error": f"{type(e).__name__}: {str(e)[:500]}"})
                _harvest_live(res, stats, st, job, rng, entry, level)       # tables computed before the failure
                continue
            stats["compiles"] += 1
            stats["invocations"] += st.n_invocations
            stats["changed"] += st.n_changed
            stats["wf_checks"] += st.n_wf_checks
            for w in st.wf_errors[:5]:
                res["findings"].append(dict(w, kind="ill-formed", level=level, config=cfg.name))
            # IRLiteral(True/False) printed as such (not re-parsable): reported once per program
            if not any(f["kind"] == "bool-literal" for f in res["findings"]):
                for s in st.snaps:
                    if s["changed"] and s["fn"] != "<ctx>" and H.has_bool_literal(s["after"]) and not H.has_bool_literal(s["before"]):
                        status, detail = H.parse_roundtrip(s["after"], normalize_bool=False)
                        line = next((l.strip() for l in s["after"].splitlines() if H.has_bool_literal(l)), "")
                        res["findings"].append({"kind": "bool-literal", "level": level, "config": cfg.name, "pass": s["pass"], "fn": s["fn"],
                                                "idx": s["idx"], "status": status, "detail": detail, "line": line, "text": s["after"][:3000]})
                        break
            # print/parse round trip on changed snapshots
            budget = job.get("roundtrip_budget", 10 ** 9)
            for s in st.snaps:
                if not s["changed"] or s["fn"] == "<ctx>" or s["h_after"] in seen_rt:
                    continue
                if budget <= 0:
                    break
                budget -= 1
                seen_rt.add(s["h_after"])
                status, detail = H.parse_roundtrip(s["after"])
                stats["roundtrip"][status] = stats["roundtrip"].get(status, 0) + 1
                if status in ("mismatch", "not-idempotent"):
                    res["findings"].append({"kind": "roundtrip", "level": level, "config": cfg.name, "pass": s["pass"], "fn": s["fn"],
                                            "idx": s["idx"], "status": status, "detail": detail, "text": s["after"][:3000]})
            _harvest_live(res, stats, st, job, rng, entry, level)
            if job.get("want_snaps"):
                for s in st.snaps:
                    if s["changed"] and s["fn"] != "<ctx>":
                        res["snaps"].append({"prog": entry["name"], "level": level, "pass": s["pass"], "fn": s["fn"], "idx": s["idx"],
                                             "arg": s["arg"], "before": s["before"], "after": s["after"], "ctx": s.get("ctx", {})})
                        for h in s.get("ctx", {}).values():
                            res["texts"][h] = st.texts[h]
                    elif s["changed"] and s["fn"] == "<ctx>" and s.get("ctx_before") and "runtime" in s["ctx_before"] \
                            and "runtime" in s.get("ctx_after", {}):
                        # context-level pass (FunctionInlinerPass): the functions before and after, by hash
                        res["snaps"].append({"prog": entry["name"], "level": level, "pass": s["pass"], "fn": "<ctx>", "idx": s["idx"],
                                             "arg": s["arg"], "before": "", "after": "", "ctx_before": s["ctx_before"],
                                             "ctx_after": s["ctx_after"]})
                        for h in list(s["ctx_before"].values()) + list(s["ctx_after"].values()):
                            res["texts"][h] = st.texts[h]
            obs = observe(entry, out, abi, plan)
            diff = R.first_difference(ref, obs)
            names = H.pipeline_pass_names(level)
            ran = {s["pass"] for s in st.snaps if s["changed"]}
            if diff is not None:
                loc, still, failed = [], [], []
                first = not any(f["kind"] == "behaviour" for f in res["findings"])
                t_loc = time.time()
                for p in names:
                    if p not in ran or not first:      # localise on the first failing level only (cost)
                        continue
                    if p in _NEVER_COMPILES or time.time() - t_loc > job.get("localise_secs", 90):
                        failed.append(p)               # known from an earlier program in this worker / out of budget
                        continue
                    r = _skip_run(entry, cfg, p, abi, plan, stats)
                    if r is None:
                        failed.append(p)
                        _NEVER_COMPILES.add(p)
                    elif R.first_difference(ref, r) is None:
                        loc.append(p)
                    else:
                        still.append(p)
                res["findings"].append({"kind": "behaviour", "level": level, "config": cfg.name, "diff": diff,
                                        "call": _call_desc(plan, diff.get("call")), "localised_to": loc, "localisation_run": first,
                                        "skip_does_not_help": still, "skip_does_not_compile": failed,
                                        "plan_prefix": [_call_desc(plan, i) for i in range(min(len(plan), (diff.get("call") or 0) + 1))][-6:]})
            else:
                for p in job.get("skip_sample", {}).get(level, []):
                    if p not in ran:
                        continue
                    r = _skip_run(entry, cfg, p, abi, plan, stats)
                    if r is None:
                        continue
                    d2 = R.first_difference(ref, r)
                    if d2 is None:
                        stats["skip_equal_ref"] += 1
                    else:
                        res["findings"].append({"kind": "skip-behaviour", "level": level, "config": cfg.name, "skipped": p, "diff": d2,
                                                "call": _call_desc(plan, d2.get("call"))})
    except H.CompileTimeout:
        # an alarm outside compile_with's own handling (should not happen): a lost measurement, never a finding
        stats["compile_timeout"] = stats.get("compile_timeout", 0) + 1
        stats["compile_gave_up"] = stats.get("compile_gave_up", 0) + 1
    except Exception as e:  # noqa
        res["errors"].append(f"{type(e).__name__}: {e}\n{traceback.format_exc()[-1500:]}")
    stats["secs"] = round(time.time() - t0, 2)
    return res


def _skip_run(entry, cfg, p, abi, plan, stats):
    stats["skip_compiles"] += 1
    try:
        out = H.compile_with(entry["src"], cfg, H.State(skip=[p]), formats=("bytecode", "layout"), limit=stats.get("skip_limit", 8))
        return observe(entry, out, abi, plan)
    except BaseException as e:  # noqa  (a skipped essential pass makes the compiler panic/assert: expected)
        if isinstance(e, (KeyboardInterrupt, SystemExit)):
            raise
        stats["skip_failed"] += 1
        if isinstance(e, H.CompileTimeout):
            stats["skip_timeout"] = stats.get("skip_timeout", 0) + 1
        return None
