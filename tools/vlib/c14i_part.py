"""C14I: verified validators for FunctionInlinerPass (per inlined call site) and Mem2Var (per promoted alloca).

The real passes are observed in-process while corpus contracts compile (and on hand-written Venom IR through
parse_venom): FunctionInlinerPass._inline_call_site / Mem2Var._process_alloca_var are wrapped, the caller before, the
callee, the caller after and the renaming certificate are exported as Coq literals and the Gallina checkers
coq/C14I/ISyn.v inline_check / M2V.v mem2var_check are evaluated by vm_compute.  Theorems (PropsInline.v):
inline_check_sound, mem2var_check_sound."""
import warnings
from contextlib import contextmanager

from vlib import coqrun
from vlib.common import COQ

FB = 4294967296
COQ_MODEL = ["C14I/ISyn.v", "C14I/M2V.v"]
COQ_PROOFS = ["C14I/IProofs.v", "C14I/M2VProofs.v", "C14I/PropsInline.v"]


class FnExport:
    """one function as Coq `func` literal; variables numbered through a shared dict (so before / after agree)"""

    def __init__(self, fn, var_ids, fids, foreign):
        self.fn = fn
        self.var, self.fids, self.foreign = var_ids, fids, foreign
        self.blocks = list(fn.get_basic_blocks())
        self.entry_first = bool(self.blocks) and self.blocks[0] is fn.entry
        self.lab = {bb.label.value: i for i, bb in enumerate(self.blocks)}

    def v(self, var):
        k = var.value
        if k not in self.var:
            self.var[k] = len(self.var)
        return self.var[k]

    def operand(self, o):
        from vyper.venom.basicblock import IRLabel, IRLiteral, IRVariable
        if isinstance(o, IRLiteral):
            return f"OLit {coqrun.hexlit(o.value)}"
        if isinstance(o, IRVariable):
            return f"OVar {self.v(o)}%N"
        if isinstance(o, IRLabel):
            if o.value in self.lab:
                return f"OLab {self.lab[o.value]}%N"
            if o.value in self.fids:
                return f"OLab {FB + self.fids[o.value]}%N"
            if o.value not in self.foreign:
                self.foreign[o.value] = 2 * FB + len(self.foreign)
            return f"OLab {self.foreign[o.value]}%N"
        raise ValueError(f"operand {o!r}")

    def inst(self, i):
        args = "; ".join(self.operand(o) for o in i.operands)
        outs = "; ".join(f"{self.v(o)}%N" for o in i.get_outputs())
        return f'mkI "{i.opcode}" [{args}] [{outs}]'

    def term(self):
        return "[" + ";\n ".join("[" + "; ".join(self.inst(i) for i in bb.instructions) + "]" for bb in self.blocks) + "]"

    def text(self):
        return str(self.fn)

    def ninsts(self):
        return sum(len(bb.instructions) for bb in self.blocks)


class Observer:
    """wraps the two passes; collects samples"""

    def __init__(self, max_insts=900):
        self.inline, self.m2v, self.errors = [], [], []
        self.max_insts = max_insts
        self.skipped_big = 0

    def __enter__(self):
        from vyper.venom.passes.function_inliner import FunctionInlinerPass as FI
        self._fi = FI
        self._orig_site = FI._inline_call_site
        obs = self

        def site(self_, func, call_site):
            rec = None
            try:
                rec = obs.before_site(self_, func, call_site)
            except Exception as e:   # exporter does not understand this IR: counted, never a violation by itself
                obs.errors.append(f"{type(e).__name__}: {e}")
            r = obs._orig_site(self_, func, call_site)
            if rec is not None:
                try:
                    obs.after_site(rec)
                except Exception as e:
                    obs.errors.append(f"{type(e).__name__}: {e}")
            return r
        FI._inline_call_site = site
        from vlib import c14i_m2v
        self._m2v_ctx = c14i_m2v.wrap(self)
        self._m2v_ctx.__enter__()
        return self

    def __exit__(self, *a):
        self._fi._inline_call_site = self._orig_site
        self._m2v_ctx.__exit__(*a)

    def before_site(self, pass_, func, call_site):
        caller = call_site.parent.parent
        ctx = pass_.ctx
        fids = {f.name.value: i for i, f in enumerate(ctx.functions.values())}
        var_c, var_g, foreign = {}, {}, {}
        fe = FnExport(caller, var_c, fids, foreign)
        ge = FnExport(func, var_g, fids, foreign)
        if fe.ninsts() + ge.ninsts() > self.max_insts:
            self.skipped_big += 1
            return None
        bbs = fe.blocks
        sb = bbs.index(call_site.parent)
        idx = call_site.parent.instructions.index(call_site)
        prefix = f"inl{pass_.inline_count}_"
        rec = {"caller": caller, "caller_name": caller.name.value, "callee_name": func.name.value, "prefix": prefix, "sb": sb, "idx": idx,
               "cf": fids[caller.name.value], "g": fids[func.name.value], "F": fe.term(), "G": ge.term(), "F_text": fe.text(),
               "G_text": ge.text(), "var_c": var_c, "var_g": var_g, "fids": fids, "foreign": foreign,
               "supported": fe.entry_first and ge.entry_first, "ninsts": fe.ninsts() + ge.ninsts()}
        return rec

    def after_site(self, rec):
        fe = FnExport(rec["caller"], rec["var_c"], rec["fids"], rec["foreign"])
        rec["F2"] = fe.term()
        rec["F2_text"] = fe.text()
        # the renaming certificate: callee variable %x -> %<prefix>x
        rho = []
        for name, gid in rec["var_g"].items():
            new = "%" + rec["prefix"] + name.removeprefix("%")
            if new not in rec["var_c"]:
                rec["var_c"][new] = len(rec["var_c"])      # never used in the clone (dead): any fresh id will do
            rho.append((gid, rec["var_c"][new]))
        rec["rho"] = "[" + "; ".join(f"({a}%N, {b}%N)" for a, b in rho) + "]"
        del rec["caller"], rec["var_c"], rec["var_g"]
        self.inline.append(rec)


def inline_expr(rec):
    return (f"[if inline_check {rec['F']} {rec['G']} {rec['cf']}%nat {rec['g']}%nat {rec['sb']}%nat {rec['idx']}%nat "
            f"{rec['rho']} {rec['F2']} then 1 else 0]")


IMPORTS = "From Verif Require Import C14I.ISyn C14I.M2V.\nOpen Scope string_scope.\n"


def evaluate(exprs, name, shard=8, timeout=600):
    return coqrun.eval_zlists(IMPORTS, exprs, name, shard=shard, timeout=timeout)
