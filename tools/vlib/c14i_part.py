"""C14I: verified validators for FunctionInlinerPass (per inlined call site) and Mem2Var (per promoted alloca).

The real passes are observed in-process while corpus contracts compile (and on hand-written Venom IR through
parse_venom): FunctionInlinerPass._inline_call_site / Mem2Var._process_alloca_var are wrapped, the caller before, the
callee, the caller after and the renaming certificate are exported as Coq literals and the Gallina checkers
coq/C14I/ISyn.v inline_check / M2V.v mem2var_check are evaluated by vm_compute.  Theorems (PropsInline.v):
inline_check_sound, mem2var_check_sound."""
import warnings
from contextlib import contextmanager

from vlib import coqrun
from vlib.common import COQ

FB = 4294967296
COQ_MODEL = ["C14I/ISyn.v", "C14I/M2V.v"]
COQ_PROOFS = ["C14I/IProofs.v", "C14I/M2VProofs.v", "C14I/PropsInline.v"]


class FnExport:
    """one function as Coq `func` literal; variables numbered through a shared dict (so before / after agree).  The
    instructions are snapshotted at construction (the passes mutate IRInstruction objects in place), rendering is lazy."""

    def __init__(self, fn, var_ids, fids, foreign):
        self.fn = fn
        self.var, self.fids, self.foreign = var_ids, fids, foreign
        self.blocks = list(fn.get_basic_blocks())
        self.entry_first = bool(self.blocks) and self.blocks[0] is fn.entry
        self.lab = {bb.label.value: i for i, bb in enumerate(self.blocks)}
        self.name = fn.name.value
        self.rows = [(bb.label.value, [(i.opcode, tuple(i.operands), tuple(i.get_outputs())) for i in bb.instructions]) for bb in self.blocks]

    def v(self, var):
        k = var.value
        if k not in self.var:
            self.var[k] = len(self.var)
        return self.var[k]

    def operand(self, o):
        from vyper.venom.basicblock import IRLabel, IRLiteral, IRVariable
        if isinstance(o, IRLiteral):
            return f"OLit {coqrun.hexlit(o.value)}"
        if isinstance(o, IRVariable):
            return f"OVar {self.v(o)}%N"
        if isinstance(o, IRLabel):
            if o.value in self.lab:
                return f"OLab {self.lab[o.value]}%N"
            if o.value in self.fids:
                return f"OLab {FB + self.fids[o.value]}%N"
            if o.value not in self.foreign:
                self.foreign[o.value] = 2 * FB + len(self.foreign)
            return f"OLab {self.foreign[o.value]}%N"
        raise ValueError(f"operand {o!r}")

    def term(self):
        def inst(r):
            args = "; ".join(self.operand(o) for o in r[1])
            outs = "; ".join(f"{self.v(o)}%N" for o in r[2])
            return f'mkI "{r[0]}" [{args}] [{outs}]'
        return "[" + ";\n ".join("[" + "; ".join(inst(r) for r in rows) + "]" for _, rows in self.rows) + "]"

    def text(self):
        """the snapshot in the compiler's own text form (operands are printed in reverse, see IRInstruction.__repr__)"""
        out = [f"function {self.name} {{"]
        for lab, rows in self.rows:
            out.append(f"  {lab}:")
            for op, ops, outs in rows:
                ops = list(ops)
                if op == "invoke":
                    ops = [ops[0]] + list(reversed(ops[1:]))
                elif op not in ("jmp", "jnz", "djmp", "phi", "dret", "retfmp"):
                    ops = list(reversed(ops))
                from vyper.venom.basicblock import IRLabel
                rhs = ", ".join(("@" + str(o.value)) if isinstance(o, IRLabel) else str(o) for o in ops)
                lhs = (", ".join(str(o) for o in outs) + " = ") if outs else ""
                out.append(f"      {lhs}{'' if op == 'assign' else op + ' '}{rhs}".rstrip())
        out.append("}")
        return "\n".join(out)

    def ninsts(self):
        return sum(len(rows) for _, rows in self.rows)


class Observer:
    """wraps the two passes; collects samples"""

    def __init__(self, max_insts=900):
        self.inline, self.m2v, self.errors = [], [], []
        self.max_insts = max_insts
        self.skipped_big = 0
        self.origin = None          # what is being compiled (corpus program / hand-written family), for reports

    def __enter__(self):
        from vyper.venom.passes.function_inliner import FunctionInlinerPass as FI
        self._fi = FI
        self._orig_site = FI._inline_call_site
        obs = self

        def site(self_, func, call_site):
            rec = None
            try:
                rec = obs.before_site(self_, func, call_site)
            except Exception as e:   # exporter does not understand this IR: counted, never a violation by itself
                obs.errors.append(f"{type(e).__name__}: {e}")
            r = obs._orig_site(self_, func, call_site)
            if rec is not None:
                try:
                    obs.after_site(rec)
                except Exception as e:
                    obs.errors.append(f"{type(e).__name__}: {e}")
            return r
        FI._inline_call_site = site
        from vlib import c14i_m2v
        self._m2v_ctx = c14i_m2v.wrap(self)
        self._m2v_ctx.__enter__()
        return self

    def __exit__(self, *a):
        self._fi._inline_call_site = self._orig_site
        self._m2v_ctx.__exit__(*a)

    def before_site(self, pass_, func, call_site):
        caller = call_site.parent.parent
        ctx = pass_.ctx
        fids = {f.name.value: i for i, f in enumerate(ctx.functions.values())}
        var_c, var_g, foreign = {}, {}, {}
        fe = FnExport(caller, var_c, fids, foreign)
        ge = FnExport(func, var_g, fids, foreign)
        if fe.ninsts() + ge.ninsts() > self.max_insts:
            self.skipped_big += 1
            return None
        bbs = fe.blocks
        sb = bbs.index(call_site.parent)
        idx = call_site.parent.instructions.index(call_site)
        prefix = f"inl{pass_.inline_count}_"
        rec = {"ctx_before": {f.name.value: str(f) for f in ctx.functions.values()}, "ctx": ctx,
               "caller": caller, "caller_name": caller.name.value, "callee_name": func.name.value, "prefix": prefix, "sb": sb, "idx": idx,
               "cf": fids[caller.name.value], "g": fids[func.name.value], "F": fe.term(), "G": ge.term(), "F_text": fe.text(),
               "G_text": ge.text(), "var_c": var_c, "var_g": var_g, "fids": fids, "foreign": foreign,
               "supported": fe.entry_first and ge.entry_first, "ninsts": fe.ninsts() + ge.ninsts(), "nblocks_F": len(fe.blocks),
               "callee_outs": [[None if i.opcode in ("ret", "retfmp") else [o.value for o in i.get_outputs()] for i in bb.instructions] for bb in ge.blocks]}
        return rec

    def after_site(self, rec):
        fe = FnExport(rec["caller"], rec["var_c"], rec["fids"], rec["foreign"])
        rec["F2"] = fe.term()
        rec["F2_text"] = fe.text()
        # the renaming certificate (untrusted): read off the clone positionally -- the outputs of instruction pc of callee block j
        # against the outputs of instruction pc of block n + 1 + j of the caller after the pass; callee variables that are never
        # defined (or a clone of another shape) fall back to the naming scheme %x -> %<prefix>x
        rho_names = {}
        n = rec["nblocks_F"]
        for j, outs_j in enumerate(rec["callee_outs"]):
            if n + 1 + j >= len(fe.blocks):
                break
            insts = fe.blocks[n + 1 + j].instructions
            for pc, outs in enumerate(outs_j):
                if outs is None:          # a ret: the clone has another length from here on
                    break
                if pc >= len(insts):
                    break
                new_outs = [o.value for o in insts[pc].get_outputs()]
                if len(new_outs) == len(outs):
                    for a, b_ in zip(outs, new_outs):
                        rho_names.setdefault(a, b_)
        rho = []
        for name, gid in rec["var_g"].items():
            new = rho_names.get(name, "%" + rec["prefix"] + name.removeprefix("%"))
            if new not in rec["var_c"]:
                rec["var_c"][new] = len(rec["var_c"])      # never used in the clone (dead): any fresh id will do
            rho.append((gid, rec["var_c"][new]))
        rec["rho"] = "[" + "; ".join(f"({a}%N, {b}%N)" for a, b in rho) + "]"
        rec["ctx_after"] = {f.name.value: str(f) for f in rec["ctx"].functions.values()}
        rec["entry"] = rec["ctx"].entry_function.name.value if rec["ctx"].entry_function is not None else None
        rec["origin"] = self.origin
        del rec["caller"], rec["var_c"], rec["var_g"], rec["ctx"], rec["callee_outs"]
        self.inline.append(rec)


def inline_expr(rec):
    """[in the validator's domain?; accepted?]"""
    a = f"{rec['F']} {rec['G']} {rec['cf']}%nat {rec['g']}%nat {rec['sb']}%nat {rec['idx']}%nat"
    return (f"[if inline_domain {a} then 1 else 0; if inline_check {a} {rec['rho']} {rec['F2']} then 1 else 0]")


IMPORTS = "From Verif Require Import C14I.ISyn C14I.M2V.\nOpen Scope string_scope.\n"


def evaluate(exprs, name, shard=8, timeout=600):
    return coqrun.eval_zlists(IMPORTS, exprs, name, shard=shard, timeout=timeout)


# ------------------------------------------------------------------ the part
def _abi_inputs(src, rnd, n=6):
    """calldata for a corpus contract: every external function with static word arguments, seeded argument values"""
    import warnings as _w
    from vyper.compiler import compile_code
    from vyper.utils import method_id
    with _w.catch_warnings():
        _w.simplefilter("ignore")
        abi = compile_code(src, output_formats=["abi"])["abi"]
    out = []
    for e in abi:
        if e.get("type") != "function":
            continue
        tys = [i["type"] for i in e["inputs"]]
        if any(("[" in t or t in ("bytes", "string") or t.startswith("(")) for t in tys):
            continue
        for _ in range(2):
            words = [rnd.choice([0, 1, 2, 5, rnd.randrange(2**16), rnd.randrange(2**256)]) for _ in tys]
            data = method_id(f"{e['name']}({','.join(tys)})") + b"".join((w % 2**256).to_bytes(32, "big") for w in words)
            out.append({"data": data.hex(), "value": 0, "sender": "0x" + "11" * 20})
    rnd.shuffle(out)
    return out[:n] or [{"data": "", "value": 0, "sender": "0x" + "11" * 20}]


def search_inline(ctx, rec, inputs):
    """a rejected call site: run the contexts before / after this inlining step in the Coq Venom semantics of
    coq/C14/VenomCall.v (differential harness of the pass-level part) and look for an input with different behaviour"""
    try:
        from vlib import c14_pass_sem as SEM
        res = SEM.context_differential(rec["ctx_before"], rec["ctx_after"], inputs, top=rec.get("entry") or "main", tag="c14i")
    except Exception as e:   # the search is best effort
        ctx.log(f"c14i search failed: {type(e).__name__}: {str(e)[:200]}")
        return None
    for i, j, code, why in res:
        if code == 2:
            return {"input": inputs[i], "observations": str(why)[:1500]}
    stuck = [(i, why) for i, j, code, why in res if code == 1]
    if stuck:
        # which side is stuck?  the context before the pass against itself
        try:
            ref = SEM.context_differential(rec["ctx_before"], rec["ctx_before"], inputs, top=rec.get("entry") or "main", tag="c14i")
        except Exception:
            ref = []
        fine = {i for i, j, code, why in ref if code == 0}
        for i, why in stuck:
            if i in fine:
                return {"input": inputs[i], "observations": "the context before the pass runs to completion in the Coq Venom semantics, the context "
                        "after the pass gets stuck (" + str(why)[:300] + ")"}
    return {"not_comparable": [str(w)[:200] for _, _, c, w in res if c == 1][:3]} if res else None


def part_inline_mem2var(ctx):
    """FunctionInlinerPass per inlined call site and Mem2Var per promoted alloca: every real invocation during corpus
    compiles and on hand-written Venom IR is checked by the verified validators of coq/C14I (theorems inline_check_sound,
    mem2var_check_sound).  Returns the number of non-trivial validated instances."""
    import warnings as _w
    from vlib import c14_pass_corpus as PC, c14i_families as FAM, c14i_m2v as M2
    from vyper.compiler import compile_code
    from vyper.compiler.settings import OptimizationLevel, Settings, VenomOptimizationFlags
    from vyper.venom.analysis import IRAnalysesCache
    from vyper.venom.parser import parse_venom
    from vyper.venom.passes import FunctionInlinerPass
    quick = ctx.tier != "thorough"
    ctx.coq_build_cached(COQ_MODEL, timeout=600)
    # C04/Concretize.v (static file of C04; M2VProofs.v links to its checker theorem): never force-rebuild someone else's file
    coqrun.build_sequence(["C04/Concretize.v"], force=False)
    proofs = [f for f in COQ_PROOFS if (COQ / f).exists()]
    b = ctx.coq_build_cached(proofs, deps=COQ_MODEL + ["C04/Concretize.v"], timeout=1200)
    rnd = ctx.rng("c14i")
    progs = PC.select(ctx.tier, rnd)
    levels = [OptimizationLevel.GAS, OptimizationLevel.CODESIZE] if quick else [OptimizationLevel.GAS, OptimizationLevel.CODESIZE, OptimizationLevel.O3]
    nfail = 0
    fams = FAM.inline_programs(rnd, 25 if quick else 300)
    m2fams = FAM.m2v_programs(rnd, 24 if quick else 200)
    srcs = {}
    with _w.catch_warnings():
        _w.simplefilter("ignore")
        o_ = Observer(max_insts=700 if quick else 4000)
        o_.m2v_stride = 5 if quick else 1
        with o_ as obs:
            for c in progs:
                for lvl in levels:
                    obs.origin = f"corpus:{c['name']}@{lvl.name}"
                    srcs[obs.origin] = c["src"]
                    try:
                        compile_code(c["src"], output_formats=["bytecode"], settings=Settings(experimental_codegen=True, optimize=lvl))
                    except Exception:
                        nfail += 1
            fam_inputs = {}
            for k, pr in enumerate(fams):
                obs.origin = f"family:{pr['name']}#{k}"
                fam_inputs[obs.origin] = pr["inputs"]
                try:
                    vctx = parse_venom(pr["text"])
                    an = {fn: IRAnalysesCache(fn) for fn in vctx.functions.values()}
                    FunctionInlinerPass(an, vctx, VenomOptimizationFlags(level=OptimizationLevel.CODESIZE, inline_threshold=pr.get("threshold"))).run_pass()
                except Exception as e:
                    ctx.violation("failing-input", f"FunctionInlinerPass raises {type(e).__name__} on a well-formed hand-written context",
                                  {"venom": pr["text"], "error": str(e)[:300]}, key="c14i:inline:exception:" + type(e).__name__)
            M2.run_families(obs, m2fams, ctx)
    found = False
    if obs.errors:
        ctx.violation("correspondence-broken", "cannot export an inlined call site / promoted alloca: " + obs.errors[0], {"errors": obs.errors[:5]})
    sites = obs.inline
    cap = 60 if quick else 100000
    if len(sites) > cap:
        fam_sites = [s_ for s_ in sites if s_["origin"].startswith("family:")]
        rest = sorted([s_ for s_ in sites if not s_["origin"].startswith("family:")], key=lambda s_: -s_["ninsts"])
        keep = max(0, cap - len(fam_sites))
        sites = fam_sites + rest[:keep // 2] + rnd.sample(rest[keep // 2:], min(len(rest) - keep // 2, keep - keep // 2))
    stats = {"call_sites_seen": len(obs.inline), "checked": len(sites), "accepted": 0, "rejected": 0, "unsupported": 0,
             "too_big_skipped": obs.skipped_big, "compile_failures": nfail, "corpus_sites": sum(1 for s_ in sites if s_["origin"].startswith("corpus:")),
             "family_sites": sum(1 for s_ in sites if s_["origin"].startswith("family:")), "unsupported_reasons": {}}
    model_ok = (COQ / "C14I" / "ISyn.vo").exists()
    if model_ok and sites:
        try:
            res = evaluate([inline_expr(s_) for s_ in sites], "c14i_inline", shard=min(40, max(4, len(sites) // 6 + 1)), timeout=1200)
        except RuntimeError as e:
            res = None
            ctx.violation("correspondence-broken", "the inlining validator could not be evaluated on the exported call sites", {"error": str(e)[-1500:]})
        rejected = []
        for s_, r in zip(sites, res or []):
            if not s_["supported"] or len(r) < 2 or r[0] != 1:
                stats["unsupported"] += 1
                why = "entry block is not the first block" if not s_["supported"] else "outside inline_domain (callee shape / labels / structure)"
                stats["unsupported_reasons"][why] = stats["unsupported_reasons"].get(why, 0) + 1
                continue
            if r[1] == 1:
                stats["accepted"] += 1
                continue
            stats["rejected"] += 1
            rejected.append(s_)
        # Search: smallest hand-written contexts first (they are inside the domain of the Coq Venom semantics)
        rejected.sort(key=lambda s_: (not s_["origin"].startswith("family:"), s_["ninsts"]))
        pending = []
        for s_ in rejected[:8]:
            inputs = fam_inputs.get(s_["origin"])
            if inputs is None:
                try:
                    inputs = _abi_inputs(srcs[s_["origin"]], rnd)
                except Exception:
                    inputs = []
            hit = search_inline(ctx, s_, inputs) if inputs else None
            detail = {"origin": s_["origin"], "caller": s_["caller_name"], "callee": s_["callee_name"], "call_site": [s_["sb"], s_["idx"]],
                      "caller_before": s_["F_text"][:5000], "callee_text": s_["G_text"][:5000], "caller_after": s_["F2_text"][:7000]}
            if hit and "input" in hit:
                found = True
                ctx.violation("failing-input", "FunctionInlinerPass changes the behaviour of the context: the caller after inlining this call site is not "
                              "the caller before with the invoke replaced by the renamed callee body (inline_check rejects), and the contexts "
                              "before / after behave differently on this input",
                              dict(detail, context_before=s_["ctx_before"], context_after=s_["ctx_after"], **hit),
                              key="c14i:inline:" + s_["origin"].split("#")[0])
                break
            pending.append(dict(detail, theorem="inline_check_sound (inline_check = false inside inline_domain)", search=hit))
        if not found:
            for d_ in pending[:2]:
                ctx.violation("theorem-broken", "inline_check_sound does not apply: the caller after FunctionInlinerPass._inline_call_site is not the "
                              "caller before with the invoke replaced by the renamed callee body wired as specified (params in order, every ret "
                              "rewired, return values in order, injective fresh renaming)", d_)
    n_m2v = M2.report(ctx, obs, quick, rnd)
    if not b["ok"] and not found:
        ctx.violation("theorem-broken", f"{b.get('failed_lemma')} in {b['file']}", {"theorem": b.get("failed_lemma"), "file": b["file"], "coq_output": b["out"][-1500:]})
    ctx.corr["inline"] = stats
    return stats["accepted"] + n_m2v
