"""C03 O-tie exporter: run the REAL arithmetic/clamp code generators of both front ends on symbolic
operands for the whole numeric type family and serialise what they emit as Coq terms
(coq/C03/LIR.v `lir`, coq/C03/VSL.v `vtemplate`).  Fail closed on anything outside the embedded subset."""
import types
from unittest import mock


class ExportError(Exception):
    pass


OP1 = {"iszero": "OIszero", "not": "ONot"}
OP2 = {
    "add": "OAdd", "sub": "OSub", "mul": "OMul", "div": "ODiv", "sdiv": "OSdiv", "mod": "OMod", "smod": "OSmod",
    "exp": "OExp", "lt": "OLt", "gt": "OGt", "slt": "OSlt", "sgt": "OSgt", "eq": "OEq", "le": "OLe", "ge": "OGe",
    "sle": "OSle", "sge": "OSge", "ne": "ONe", "and": "OAnd", "or": "OOr", "xor": "OXor", "shl": "OShl",
    "shr": "OShr", "sar": "OSar", "signextend": "OSignextend", "byte": "OByte",
}
OP3 = {"addmod": "OAddmod", "mulmod": "OMulmod", "select": "OSelect"}
# venom has no pseudo-ops
V_OP2 = {k: v for k, v in OP2.items() if k not in ("le", "ge", "sle", "sge", "ne")}
V_OP3 = {"addmod": "OAddmod", "mulmod": "OMulmod"}


def zl(n):
    return f"(-{hex(-n)})" if n < 0 else hex(n)


def lir_term(n):
    """IRnode -> Coq `lir` term (string)."""
    v, args = n.value, n.args
    if isinstance(v, int):
        if args:
            raise ExportError(f"literal with args: {n!r}")
        return f"(LInt {zl(v)})"
    if not isinstance(v, str):
        raise ExportError(f"unsupported node value {v!r}")
    a = [lir_term(x) for x in args] if v != "with" else None
    if v == "with":
        if len(args) != 3 or not isinstance(args[0].value, str) or args[0].args:
            raise ExportError(f"bad with: {n!r}")
        return f'(LWith "{args[0].value}" {lir_term(args[1])} {lir_term(args[2])})'
    if v == "seq":
        if not a:
            return "LPass"
        t = a[-1]
        for x in reversed(a[:-1]):
            t = f"(LSeq {x} {t})"
        return t
    if v == "pass" and not a:
        return "LPass"
    if v == "assert" and len(a) == 1:
        return f"(LAssert {a[0]})"
    if v == "if" and len(a) in (2, 3):
        return f"(LIf {a[0]} {a[1]} {a[2] if len(a) == 3 else 'LPass'})"
    if v in OP1 and len(a) == 1:
        return f"(L1 {OP1[v]} {a[0]})"
    if v in OP2 and len(a) == 2:
        return f"(L2 {OP2[v]} {a[0]} {a[1]})"
    if v in OP3 and len(a) == 3:
        return f"(L3 {OP3[v]} {a[0]} {a[1]} {a[2]})"
    if not a and v.replace("_", "").isalnum() and v not in OP1 and v not in OP2 and v not in OP3:
        return f'(LVar "{v}")'
    raise ExportError(f"IR node outside the LIR subset: {v} / {len(a)} args")


def nty(k, signed, dec):
    return f"(Build_nty {k} {'true' if signed else 'false'} {'true' if dec else 'false'})"


def num_types():
    """[(k, signed, dec, vyper type)] for the 64 integer types + decimal."""
    from vyper.semantics.types import DecimalT, IntegerT
    out = []
    for k in range(1, 33):
        for s in (False, True):
            out.append((k, s, False, IntegerT(s, 8 * k)))
    d = DecimalT()
    assert d.bits % 8 == 0 and d.is_signed
    out.append((d.bits // 8, True, True, d))
    return out


def settings_ctx():
    from vyper.compiler.settings import OptimizationLevel, Settings, anchor_settings
    return anchor_settings(Settings(optimize=OptimizationLevel.GAS))


def legacy_usub(x):
    """expr.py Expr.parse_UnaryOp (USub branch) on the symbolic operand x."""
    from vyper import ast as vy_ast
    from vyper.codegen.expr import Expr
    fake = types.SimpleNamespace(
        expr=types.SimpleNamespace(op=vy_ast.USub.__new__(vy_ast.USub), operand=None), context=None)
    with mock.patch.object(Expr, "parse_value_expr", staticmethod(lambda e, c: x)):
        return Expr.parse_UnaryOp(fake)


def lit_values(k, s, d):
    """literal operands covering every literal-dependent branch of the generators (x == MIN, y == -1) and the
    values the IR optimiser folds (0, 1), plus generic ones."""
    bits = 8 * k
    lo, hi = (-(2**(bits - 1)), 2**(bits - 1) - 1) if s else (0, 2**bits - 1)
    vals = [lo, -1, 0, 1, 7, hi]
    if d:
        vals += [10**10, -(10**10)]
    out = []
    for v in vals:
        if lo <= v <= hi and v not in out:
            out.append(v)
    return out


SHAPES = {"VV": 0, "LV": 1, "VL": 2}


def legacy_templates():
    """-> list of (aop constructor, (k, signed, dec), shape, lit, IRnode) in a fixed order.
    shape VV: operands are the IR variables x, y; LV: x is the literal `lit`; VL: y is the literal `lit`."""
    from vyper import ast as vy_ast
    from vyper.codegen import arithmetic as A
    from vyper.codegen.expr import Expr
    from vyper.codegen.ir_node import IRnode
    from vyper.exceptions import StaticAssertionException
    out = []
    fns = [("AAdd", A.safe_add), ("ASub", A.safe_sub), ("AMul", A.safe_mul), ("ADiv", A.safe_div), ("AMod", A.safe_mod)]
    with settings_ctx():
        for k, s, d, T in num_types():
            x = IRnode.from_list("x", typ=T)
            y = IRnode.from_list("y", typ=T)
            for name, f in fns:
                # variable operands: through the real AST-operator dispatch (Expr.handle_binop, also used by AugAssign)
                cls = {"AAdd": "Add", "ASub": "Sub", "AMul": "Mult", "ADiv": "Div" if d else "FloorDiv", "AMod": "Mod"}[name]
                opn = getattr(vy_ast, cls).__new__(getattr(vy_ast, cls))
                out.append((name, (k, s, d), "VV", 0, Expr.handle_binop(opn, x, y, None)))
            if s:
                out.append(("AUSub", (k, s, d), "VV", 0, legacy_usub(x)))
            for lit in lit_values(k, s, d):
                ln = IRnode.from_list(lit, typ=T)
                for name, f in fns:
                    for shape, a, b in (("LV", ln, y), ("VL", x, ln)):
                        try:
                            out.append((name, (k, s, d), shape, lit, f(a, b)))
                        except StaticAssertionException:
                            # literal zero divisor: rejected at compile time, no template exists
                            if not (name == "ADiv" and shape == "VL" and lit == 0):
                                raise
    return out


def legacy_clamps():
    from vyper.codegen.core import clamp_basetype
    from vyper.codegen.ir_node import IRnode
    out = []
    with settings_ctx():
        for k, s, d, T in num_types():
            out.append(((k, s, d), clamp_basetype(IRnode.from_list("x", typ=T))))
    return out


# ---------------- venom ----------------
def vop_term(o):
    from vyper.venom.basicblock import IRLiteral, IRVariable
    if isinstance(o, IRLiteral):
        return f"(VLit {zl(o.value)})"
    if isinstance(o, IRVariable):
        return f'(VVar "{o.name}")'
    raise ExportError(f"unsupported venom operand {o!r}")


def vinstr_term(i):
    ops = [vop_term(o) for o in i.operands]
    outs = i.get_outputs()
    op = i.opcode
    if op == "assert" and len(ops) == 1 and not outs:
        return f"(VAssert {ops[0]})"
    if len(outs) != 1:
        raise ExportError(f"venom instruction outside the straight-line subset: {i}")
    out = f'"{outs[0].name}"'
    if op == "assign" and len(ops) == 1:
        return f"(VAssign {out} {ops[0]})"
    if op in OP1 and len(ops) == 1:
        return f"(V1 {out} {OP1[op]} {ops[0]})"
    if op in V_OP2 and len(ops) == 2:
        return f"(V2 {out} {V_OP2[op]} {ops[0]} {ops[1]})"
    if op in V_OP3 and len(ops) == 3:
        return f"(V3 {out} {V_OP3[op]} {ops[0]} {ops[1]} {ops[2]})"
    raise ExportError(f"venom instruction outside the straight-line subset: {i}")


def venom_record(f):
    """Run f(builder, x, y) on a scratch context; return (instrs, result operand, x, y).
    Fails closed if the generator created control flow."""
    from vyper.venom.builder import VenomBuilder
    from vyper.venom.context import IRContext
    ctx = IRContext()
    fn = ctx.create_function("probe")
    b = VenomBuilder(ctx, fn)
    x = b.param()
    y = b.param()
    bb = b.current_block
    n0 = len(bb.instructions)
    r = f(b, x, y)
    if b.current_block is not bb or fn.num_basic_blocks != 1:
        raise ExportError("venom template is not straight-line")
    return bb.instructions[n0:], r, x, y


def vtemplate_term(instrs, r):
    return "([" + "; ".join(vinstr_term(i) for i in instrs) + "], " + vop_term(r) + ")"


def venom_templates():
    """-> list of (aop, (k, s, d), shape, lit, (instrs, result)); shapes as for legacy_templates."""
    from vyper import ast as vy_ast
    from vyper.codegen_venom import arithmetic as V
    from vyper.venom.basicblock import IRLiteral
    out = []
    with settings_ctx():
        for k, s, d, T in num_types():
            fns = [("AAdd", V.safe_add), ("ASub", V.safe_sub), ("AMul", V.safe_mul),
                   ("ADiv", V.safe_div if d else V.safe_floordiv), ("AMod", V.safe_mod)]

            def rec(f, shape, lit):
                def g(b, x, y):
                    return f(b, IRLiteral(lit) if shape == "LV" else x, IRLiteral(lit) if shape == "VL" else y, T)
                ins, r, x, y = venom_record(g)
                if (x.name, y.name) != ("%1", "%2"):
                    raise ExportError("unexpected parameter names")
                return ins, r

            for name, f in fns:
                # variable operands: through the real dispatch arithmetic.apply_binop (BinOp and AugAssign)
                cls = {"AAdd": "Add", "ASub": "Sub", "AMul": "Mult", "ADiv": "Div" if d else "FloorDiv", "AMod": "Mod"}[name]
                opn = getattr(vy_ast, cls).__new__(getattr(vy_ast, cls))
                ins, r, x_, y_ = venom_record(lambda b, px, py: V.apply_binop(b, opn, px, py, T))
                out.append((name, (k, s, d), "VV", 0, (ins, r)))
            for lit in lit_values(k, s, d):
                for name, f in fns:
                    for shape in ("LV", "VL"):
                        out.append((name, (k, s, d), shape, lit, rec(f, shape, lit)))
    return out


def venom_clamps():
    from vyper.codegen_venom import arithmetic as V
    out = []
    with settings_ctx():
        for k, s, d, T in num_types():
            ins, r, x, y = venom_record(lambda b, x, y: V.clamp_basetype(b, x, T))
            out.append(((k, s, d), (ins, r)))
    return out


HEADER = """(* GENERATED by tools/vlib/c03_export.py from the current /repo working tree -- do not edit *)
From Coq Require Import ZArith List String.
From Verif Require Import C03.LIR C03.VSL C03.ArithSpec.
Import ListNotations.
Open Scope string_scope.
Open Scope Z_scope.
"""


def gen_legacy():
    t = legacy_templates()
    c = legacy_clamps()
    lines = [HEADER, "Definition legacy_templates : list (aop * nty * Z * Z * lir) := ["]
    lines.append(";\n".join(f"  ({op}, {nty(*ty)}, {SHAPES[sh]}, {zl(lit)}, {lir_term(n)})" for op, ty, sh, lit, n in t))
    lines.append("].\n\nDefinition legacy_clamps : list (nty * lir) := [")
    lines.append(";\n".join(f"  ({nty(*ty)}, {lir_term(n)})" for ty, n in c))
    lines.append("].\n")
    return "\n".join(lines), t, c


def gen_venom():
    t = venom_templates()
    c = venom_clamps()
    lines = [HEADER, "Definition venom_templates : list (aop * nty * Z * Z * vtemplate) := ["]
    lines.append(";\n".join(f"  ({op}, {nty(*ty)}, {SHAPES[sh]}, {zl(lit)}, {vtemplate_term(*n)})" for op, ty, sh, lit, n in t))
    lines.append("].\n\nDefinition venom_clamps : list (nty * vtemplate) := [")
    lines.append(";\n".join(f"  ({nty(*ty)}, {vtemplate_term(*n)})" for ty, n in c))
    lines.append("].\n")
    return "\n".join(lines), t, c


# ---------------------------------------------------------------- conversions (convert(x, T)) on word types
def conv_types():
    """[(coq cty term, key tuple, vyper type)] : 64 ints, decimal, bool, address, bytes1..32, flags with 1/3/255/256 members"""
    from vyper.semantics.types import AddressT, BoolT, BytesM_T
    from vyper.semantics.types.user import FlagT
    out = []
    for k, s, d, T in num_types():
        out.append((f"(CNum {nty(k, s, d)})", ("num", k, s, d), T))
    out.append(("CBool", ("bool",), BoolT()))
    out.append(("CAddr", ("addr",), AddressT()))
    for m in range(1, 33):
        out.append((f"(CBytes {m})", ("bytes", m), BytesM_T(m)))
    for n in (1, 3, 255, 256):
        out.append((f"(CFlag {n})", ("flag", n), FlagT(f"F{n}", {f"m{i}": i for i in range(n)})))
    return out


def legacy_convert(in_t, out_t):
    """vyper.builtins._convert.convert on the symbolic word operand x (IR variable), real dispatch."""
    from vyper import ast as vy_ast
    from vyper.builtins import _convert as CV
    from vyper.codegen.ir_node import IRnode
    x = IRnode.from_list("x", typ=in_t)
    arg_ast = vy_ast.Name.__new__(vy_ast.Name)
    fake_arg = types.SimpleNamespace(reduced=lambda: arg_ast)
    fake_ty = types.SimpleNamespace(_metadata={"type": types.SimpleNamespace(typedef=out_t)})
    expr = types.SimpleNamespace(args=[fake_arg, fake_ty])

    class FakeExpr:
        def __init__(self, node, ctx):
            self.ir_node = x

    with mock.patch.object(CV, "Expr", FakeExpr):
        return CV.convert(expr, None)


def venom_convert(in_t, out_t):
    """vyper.codegen_venom.builtins.convert.lower_convert on the symbolic operand %1, real dispatch."""
    from vyper import ast as vy_ast
    from vyper.codegen_venom import expr as VE
    from vyper.codegen_venom.builtins import convert as VC

    def g(b, x, y):
        arg_node = vy_ast.Name.__new__(vy_ast.Name)
        arg_node._metadata = {"type": in_t}
        node = types.SimpleNamespace(
            args=[arg_node, types.SimpleNamespace(_metadata={"type": types.SimpleNamespace(typedef=out_t)})])

        class FakeExpr:
            def __init__(self, n, c):
                pass

            def lower_value(self):
                return x

        with mock.patch.object(VE, "Expr", FakeExpr), \
                mock.patch.object(vy_ast.Name, "has_folded_value", property(lambda self: False)):
            return VC.lower_convert(node, types.SimpleNamespace(builder=b))

    ins, r, x, y = venom_record(g)
    return ins, r


CRASHES = {}


def convert_templates(kind):
    """-> list of (cty_in term, cty_out term, template) for every pair the real convert accepts."""
    from vyper.exceptions import VyperException
    tys = conv_types()
    out = []
    CRASHES[kind] = []
    with settings_ctx():
        for ci, ki, ti in tys:
            for co, ko, to in tys:
                try:
                    t = legacy_convert(ti, to) if kind == "legacy" else venom_convert(ti, to)
                except VyperException:
                    continue      # the pair is rejected with a user-facing diagnostic
                except Exception as e:  # noqa  -- the generator itself crashed on this pair
                    CRASHES[kind].append((ki, ko, f"{type(e).__name__}: {str(e)[:120]}"))
                    continue
                out.append((ci, co, ki, ko, t))
    return out


def gen_convert(kind, restrict_to=None):
    """-> (Coq text, templates, extras): `restrict_to` = set of (key_in, key_out) to keep in the Gen file; pairs the
    generator accepts outside that set are returned as extras (not exported)."""
    t = convert_templates(kind)
    extras = []
    if restrict_to is not None:
        extras = [x for x in t if (x[2], x[3]) not in restrict_to]
        t = [x for x in t if (x[2], x[3]) in restrict_to]
    name = "legacy_converts" if kind == "legacy" else "venom_converts"
    ty = "lir" if kind == "legacy" else "vtemplate"
    term = lir_term if kind == "legacy" else (lambda n: vtemplate_term(*n))
    lines = [HEADER.replace("C03.ArithSpec.", "C03.ArithSpec C03.ConvSpec."),
             f"Definition {name} : list (cty * cty * {ty}) := ["]
    lines.append(";\n".join(f"  ({ci}, {co}, {term(n)})" for ci, co, _, _, n in t))
    lines.append("].\n")
    return "\n".join(lines), t, extras


# ---------------------------------------------------------------- safe_pow (literal base / literal exponent)
def pow_literals(k, s):
    """(bases, exponents) exported for the integer type (k bytes, signed).  Mirrored by TieModels.pow_bases/pow_exps."""
    bits = 8 * k
    lo, hi = (-(2**(bits - 1)), 2**(bits - 1) - 1) if s else (0, 2**bits - 1)
    V = bits - (1 if s else 0)
    h = 2**(bits // 2)
    bases, exps = [], []
    for a in [-1, 0, 1, 2, 3, 7, 10, 16, 20, 255, 256, 257, -2, -3, -7, -10, -20, lo, hi, h, h + 1, h - 1, -h]:
        if lo <= a <= hi and a not in bases:
            bases.append(a)
    for b in [0, 1, 2, 3, 4, 5, 7, 8, 16, 31, 32, 64, 127, 128, V - 1, V]:
        if 0 <= b <= V and b <= hi and b not in exps:
            exps.append(b)
    return bases, exps


def pow_templates(kind):
    """-> [(0, ty, a, r, 0, template)] for literal bases and [(1, ty, b, lo, hi, template)] for literal exponents;
    r / (lo, hi) are what the REAL calculate_largest_power / calculate_largest_base return."""
    from vyper.codegen import arithmetic as A
    from vyper.codegen.ir_node import IRnode
    from vyper.codegen_venom import arithmetic as V
    from vyper.venom.basicblock import IRLiteral
    out = []
    with settings_ctx():
        for k, s, d, T in num_types():
            if d:
                continue
            bits = 8 * k
            bases, exps = pow_literals(k, s)
            x = IRnode.from_list("x", typ=T)
            y = IRnode.from_list("y", typ=T)
            for a in bases:
                r = 0 if a in (-1, 0, 1) else A.calculate_largest_power(a, bits, s)
                if kind == "legacy":
                    t = A.safe_pow(IRnode.from_list(a, typ=T), y)
                else:
                    ins, res, _, _ = venom_record(lambda b, px, py: V.safe_pow(b, IRLiteral(a), py, T, base_literal=a))
                    t = (ins, res)
                out.append((0, (k, s, False), a, r, 0, t))
            for e in exps:
                lo, hi = (0, 0) if e in (0, 1) else A.calculate_largest_base(e, bits, s)
                if kind == "legacy":
                    t = A.safe_pow(x, IRnode.from_list(e, typ=T))
                else:
                    ins, res, _, _ = venom_record(lambda b, px, py: V.safe_pow(b, px, IRLiteral(e), T, exp_literal=e))
                    t = (ins, res)
                out.append((1, (k, s, False), e, lo, hi, t))
    return out


def gen_pow(kind):
    t = pow_templates(kind)
    name = "legacy_pows" if kind == "legacy" else "venom_pows"
    ty = "lir" if kind == "legacy" else "vtemplate"
    term = lir_term if kind == "legacy" else (lambda n: vtemplate_term(*n))
    lines = [HEADER, f"Definition {name} : list (Z * nty * Z * Z * Z * {ty}) := ["]
    lines.append(";\n".join(f"  ({kd}, {nty(*tyk)}, {zl(l)}, {zl(p1)}, {zl(p2)}, {term(n)})" for kd, tyk, l, p1, p2, n in t))
    lines.append("].\n")
    return "\n".join(lines), t


# ---------------------------------------------------------------- unchecked operations (wrap exactly)
UOPS_ARITH = [("UAdd", "add"), ("USub", "sub"), ("UMul", "mul"), ("UDiv", "div")]
UOPS_BIT = [("UAnd", "BitAnd"), ("UOr", "BitOr"), ("UXor", "BitXor")]
UOPS_SHIFT = [("UShl", "LShift"), ("UShr", "RShift")]


def unsafe_templates(kind):
    """-> [(uop constructor, (k, s, False), template)]: unsafe_add/sub/mul/div and & | ^ for the 64 integer types,
    << >> for the two 256-bit types, pow_mod256 for uint256 (operands in variables)."""
    from vyper import ast as vy_ast
    from vyper.builtins import functions as BF
    from vyper.codegen.expr import Expr
    from vyper.codegen.ir_node import IRnode
    from vyper.codegen_venom import arithmetic as V
    from vyper.codegen_venom import expr as VE
    from vyper.codegen_venom.builtins import math as VM
    from vyper.semantics.types import IntegerT
    out = []
    U256 = IntegerT(False, 256)

    def venom_builtin(fn, T, *extra):
        def g(b, x, y):
            a0 = types.SimpleNamespace(_metadata={"type": T})
            a1 = types.SimpleNamespace(_metadata={"type": T})
            node = types.SimpleNamespace(args=[a0, a1])

            class FakeExpr:
                def __init__(self, n, c):
                    self.n = n

                def lower_value(self):
                    return x if self.n is a0 else y

            with mock.patch.object(VE, "Expr", FakeExpr):
                return fn(node, types.SimpleNamespace(builder=b), *extra)
        ins, r, _, _ = venom_record(g)
        return ins, r

    with settings_ctx():
        for k, s, d, T in num_types():
            if d:
                continue
            x = IRnode.from_list("x", typ=T)
            y = IRnode.from_list("y", typ=T)
            yu = IRnode.from_list("y", typ=U256)
            for uop, name in UOPS_ARITH:
                if kind == "legacy":
                    inst = BF.DISPATCH_TABLE[f"unsafe_{name}"]
                    t = type(inst).build_IR.__wrapped__(inst, None, [x, y], {}, None)
                else:
                    t = venom_builtin(VM._lower_unsafe_binop, T, name)
                out.append((uop, (k, s, False), t))
            ops = UOPS_BIT + (UOPS_SHIFT if k == 32 else [])
            for uop, cls in ops:
                op = getattr(vy_ast, cls).__new__(getattr(vy_ast, cls))
                if kind == "legacy":
                    t = Expr.handle_binop(op, x, yu if uop in ("UShl", "UShr") else y, None)
                else:
                    ins, r, _, _ = venom_record(lambda b, px, py: V.apply_binop(b, op, px, py, T))
                    t = (ins, r)
                out.append((uop, (k, s, False), t))
            if k == 32 and not s:
                if kind == "legacy":
                    a0, a1 = object(), object()
                    expr = types.SimpleNamespace(args=[a0, a1])
                    with mock.patch.object(BF.Expr, "parse_value_expr", staticmethod(lambda e, c: x if e is a0 else y)):
                        inst = BF.DISPATCH_TABLE["pow_mod256"]
                        t = inst.build_IR(expr, None)
                else:
                    t = venom_builtin(VM.lower_pow_mod256, T)
                out.append(("UPowMod", (k, s, False), t))
    return out


def gen_unsafe(kind):
    t = unsafe_templates(kind)
    name = "legacy_unsafes" if kind == "legacy" else "venom_unsafes"
    ty = "lir" if kind == "legacy" else "vtemplate"
    term = lir_term if kind == "legacy" else (lambda n: vtemplate_term(*n))
    lines = [HEADER.replace("C03.ArithSpec.", "C03.ArithSpec C03.UnsafeExact."),
             f"Definition {name} : list (uop * nty * {ty}) := ["]
    lines.append(";\n".join(f"  ({uop}, {nty(*tyk)}, {term(n)})" for uop, tyk, n in t))
    lines.append("].\n")
    return "\n".join(lines), t


# ---------------------------------------------------------------- clamps on all word types; venom unary minus
def clamp_types():
    """word types that get clamped: conv_types() without the 256-member flag (needs_clamp is False for it)"""
    return [t for t in conv_types() if t[1] != ("flag", 256)]


def venom_usub(T):
    """codegen_venom/expr.py Expr.lower_UnaryOp (USub branch) on the symbolic operand %1."""
    from vyper import ast as vy_ast
    from vyper.codegen_venom import expr as VE
    RealExpr = VE.Expr

    def g(b, x, y):
        node = vy_ast.UnaryOp.__new__(vy_ast.UnaryOp)
        operand = types.SimpleNamespace(_metadata={"type": T})
        object.__setattr__(node, "__dict__", node.__dict__) if False else None
        for k, v in (("operand", operand), ("op", vy_ast.USub.__new__(vy_ast.USub)), ("_metadata", {"type": T})):
            try:
                setattr(node, k, v)
            except AttributeError:
                node.__dict__[k] = v
        fake_self = types.SimpleNamespace(node=node, ctx=None, builder=b)

        class FakeExpr:
            def __init__(self, n, c):
                pass

            def lower_value(self):
                return x

        with mock.patch.object(VE, "Expr", FakeExpr):
            vv = RealExpr.lower_UnaryOp(fake_self)
        op = getattr(vv, "operand", None)
        if op is None:
            op = getattr(vv, "value", vv)
        return op

    ins, r, _, _ = venom_record(g)
    return ins, r


def gen_clamps():
    from vyper.codegen.core import clamp_basetype
    from vyper.codegen.ir_node import IRnode
    from vyper.codegen_venom import arithmetic as V
    from vyper.codegen_venom.abi import abi_decoder as AD
    tys = clamp_types()
    leg, varith, vabi, vus = [], [], [], []
    with settings_ctx():
        for ci, ki, T in tys:
            leg.append((ci, ki, clamp_basetype(IRnode.from_list("x", typ=T))))
            if ki[0] != "flag":
                ins, r, _, _ = venom_record(lambda b, x, y: V.clamp_basetype(b, x, T))
                varith.append((ci, ki, (ins, r)))
            ins, r, _, _ = venom_record(lambda b, x, y: AD.clamp_basetype(types.SimpleNamespace(builder=b), x, T))
            vabi.append((ci, ki, (ins, r)))
        for k, s, d, T in num_types():
            if s:
                vus.append((nty(k, s, d), (k, s, d), venom_usub(T)))
    lines = [HEADER.replace("C03.ArithSpec.", "C03.ArithSpec C03.ConvSpec.")]
    lines.append("Definition legacy_cclamps : list (cty * lir) := [\n" + ";\n".join(f"  ({c}, {lir_term(n)})" for c, _, n in leg) + "\n].\n")
    lines.append("Definition venom_cclamps_arith : list (cty * vtemplate) := [\n" + ";\n".join(f"  ({c}, {vtemplate_term(*n)})" for c, _, n in varith) + "\n].\n")
    lines.append("Definition venom_cclamps_abi : list (cty * vtemplate) := [\n" + ";\n".join(f"  ({c}, {vtemplate_term(*n)})" for c, _, n in vabi) + "\n].\n")
    lines.append("Definition venom_usubs : list (nty * vtemplate) := [\n" + ";\n".join(f"  ({c}, {vtemplate_term(*n)})" for c, _, n in vus) + "\n].\n")
    return "\n".join(lines), dict(legacy=leg, venom_arith=varith, venom_abi=vabi, venom_usub=vus)


# ---------------------------------------------------------------- bytestring -> word conversions (memory operand)
def has_mload(n):
    return n.value == "mload" or any(has_mload(a) for a in n.args)


def mlir_term(n):
    """IRnode with read-only `mload`s -> Coq `mlir` term (LIRMem.v): maximal load-free subterms are embedded by MP."""
    if not has_mload(n):
        return f"(MP {lir_term(n)})"
    v, args = n.value, n.args
    if v == "mload" and len(args) == 1:
        return f"(MLoad {mlir_term(args[0])})"
    if v == "with" and len(args) == 3 and isinstance(args[0].value, str) and not args[0].args:
        return f'(MWith "{args[0].value}" {mlir_term(args[1])} {mlir_term(args[2])})'
    if v == "seq" and args:
        a = [mlir_term(x) for x in args]
        t = a[-1]
        for x in reversed(a[:-1]):
            t = f"(MSeq {x} {t})"
        return t
    if v == "assert" and len(args) == 1:
        return f"(MAssert {mlir_term(args[0])})"
    if v in OP1 and len(args) == 1:
        return f"(M1 {OP1[v]} {mlir_term(args[0])})"
    if v in OP2 and len(args) == 2:
        return f"(M2 {OP2[v]} {mlir_term(args[0])} {mlir_term(args[1])})"
    raise ExportError(f"IR node outside the LIRMem subset: {v} / {len(args)} args")


def mvtemplate_term(instrs, r):
    out = []
    for i in instrs:
        if i.opcode == "mload" and len(i.operands) == 1 and len(i.get_outputs()) == 1:
            out.append(f'(MVLoad "{i.get_outputs()[0].name}" {vop_term(i.operands[0])})')
        else:
            out.append(f"(MV {vinstr_term(i)})")
    return "([" + "; ".join(out) + "], " + vop_term(r) + ")"


def legacy_convert_bytes(in_t, out_t):
    from vyper import ast as vy_ast
    from vyper.builtins import _convert as CV
    from vyper.codegen.ir_node import IRnode
    from vyper.evm.address_space import MEMORY
    x = IRnode.from_list("b", typ=in_t, location=MEMORY)
    arg_ast = vy_ast.Name.__new__(vy_ast.Name)
    fake_arg = types.SimpleNamespace(reduced=lambda: arg_ast)
    fake_ty = types.SimpleNamespace(_metadata={"type": types.SimpleNamespace(typedef=out_t)})
    expr = types.SimpleNamespace(args=[fake_arg, fake_ty])

    class FakeExpr:
        def __init__(self, node, ctx):
            self.ir_node = x

    with mock.patch.object(CV, "Expr", FakeExpr):
        return CV.convert(expr, None)


def venom_convert_bytes(in_t, out_t):
    from vyper import ast as vy_ast
    from vyper.codegen_venom import expr as VE
    from vyper.codegen_venom.builtins import convert as VC

    def g(b, x, y):
        arg_node = vy_ast.Name.__new__(vy_ast.Name)
        arg_node._metadata = {"type": in_t}
        node = types.SimpleNamespace(
            args=[arg_node, types.SimpleNamespace(_metadata={"type": types.SimpleNamespace(typedef=out_t)})])

        class FakeExpr:
            def __init__(self, n, c):
                pass

            def lower(self):
                return "vv"

        ctx = types.SimpleNamespace(builder=b, unwrap=lambda vv: x)
        with mock.patch.object(VE, "Expr", FakeExpr), \
                mock.patch.object(vy_ast.Name, "has_folded_value", property(lambda self: False)):
            return VC.lower_convert(node, ctx)

    ins, r, x, y = venom_record(g)
    return ins, r


def bytes_convert_templates(kind):
    """-> [(is_string 0/1, N, cty_out term, key_out, template)] for Bytes[N] / String[N], N = 1..32, to every word type
    the real convert accepts."""
    from vyper.exceptions import VyperException
    from vyper.semantics.types import BytesT, StringT
    outs = conv_types()
    res = []
    with settings_ctx():
        for is_str, mk in ((0, BytesT), (1, StringT)):
            for n in range(1, 34):
                for co, ko, to in outs:
                    try:
                        t = legacy_convert_bytes(mk(n), to) if kind == "legacy" else venom_convert_bytes(mk(n), to)
                    except VyperException:
                        continue
                    res.append((is_str, n, co, ko, t))
    return res


def gen_bytes_convert():
    l = bytes_convert_templates("legacy")
    v = bytes_convert_templates("venom")
    lines = [HEADER.replace("C03.ArithSpec.", "C03.ArithSpec C03.ConvSpec C03.LIRMem C03.VSLMem.")]
    lines.append("Definition legacy_bconverts : list (Z * Z * cty * mlir) := [\n" +
                 ";\n".join(f"  ({s}, {n}, {co}, {mlir_term(t)})" for s, n, co, _, t in l) + "\n].\n")
    lines.append("Definition venom_bconverts : list (Z * Z * cty * mvtemplate) := [\n" +
                 ";\n".join(f"  ({s}, {n}, {co}, {mvtemplate_term(*t)})" for s, n, co, _, t in v) + "\n].\n")
    return "\n".join(lines), l, v


# ---------------------------------------------------------------- builtins: shift, abs, ~, addmod/mulmod, pow_mod256; flags
def venom_recordn(f, n):
    """venom_record with n parameters %1..%n; -> (instrs, result operand)"""
    from vyper.venom.builder import VenomBuilder
    from vyper.venom.context import IRContext
    ctx = IRContext()
    fn = ctx.create_function("probe")
    b = VenomBuilder(ctx, fn)
    ps = [b.param() for _ in range(n)]
    if [p_.name for p_ in ps] != [f"%{i + 1}" for i in range(n)]:
        raise ExportError("unexpected parameter names")
    bb = b.current_block
    n0 = len(bb.instructions)
    r = f(b, *ps)
    if b.current_block is not bb or fn.num_basic_blocks != 1:
        raise ExportError("venom template is not straight-line")
    return bb.instructions[n0:], r


BLIT256 = {False: [0, 1, 7, 255, 256, 2**255, 2**256 - 1],
           True: [-2**255, -256, -255, -1, 0, 1, 7, 255, 256, 2**255 - 1]}
FLAG_PARTNERS = [("num", 32, False, False), ("num", 32, True, False), ("num", 16, False, False), ("num", 21, True, True),
                 ("bool",), ("addr",), ("bytes", 32), ("bytes", 4)]


def flag_type(n):
    from vyper.semantics.types.user import FlagT
    return FlagT(f"F{n}", {f"m{i}": i for i in range(n)})


def venom_unary(T, opcls, x_of):
    """codegen_venom/expr.py Expr.lower_UnaryOp for the operator class `opcls` on the operand x_of(b, %1)"""
    from vyper import ast as vy_ast
    from vyper.codegen_venom import expr as VE
    RealExpr = VE.Expr

    def g(b, x):
        node = vy_ast.UnaryOp.__new__(vy_ast.UnaryOp)
        operand = types.SimpleNamespace(_metadata={"type": T})
        for k, v in (("operand", operand), ("op", getattr(vy_ast, opcls).__new__(getattr(vy_ast, opcls))), ("_metadata", {"type": T})):
            try:
                setattr(node, k, v)
            except AttributeError:
                node.__dict__[k] = v
        fake_self = types.SimpleNamespace(node=node, ctx=None, builder=b)

        class FakeExpr:
            def __init__(self, n, c):
                pass

            def lower_value(self):
                return x_of(b, x)

        with mock.patch.object(VE, "Expr", FakeExpr):
            vv = RealExpr.lower_UnaryOp(fake_self)
        op = getattr(vv, "operand", None)
        if op is None:
            op = getattr(vv, "value", vv)
        return op
    return venom_recordn(g, 1)


def builtin_templates(kind):
    """-> [(coq bfn term, python key, literals per operand (None = variable), template)]
    shift(x, bits) for x uint256/int256 and bits of every integer type (+ literal amounts / literal x), abs, uint256_addmod,
    uint256_mulmod, pow_mod256 (variables and a literal in each position), ~x for uint256, bytes32 and flags of 1..256 members."""
    from vyper import ast as vy_ast
    from vyper.builtins import functions as BF
    from vyper.codegen.expr import Expr
    from vyper.codegen.ir_node import IRnode
    from vyper.codegen_venom import expr as VE
    from vyper.codegen_venom.builtins import math as VM
    from vyper.codegen_venom.builtins import simple as VS
    from vyper.semantics.types import BytesM_T, IntegerT
    from vyper.venom.basicblock import IRLiteral
    out = []
    U256, I256 = IntegerT(False, 256), IntegerT(True, 256)
    names = ["x", "y", "z"]

    def legacy_call(name, tys, lits):
        args = [IRnode.from_list(names[i] if lits[i] is None else lits[i], typ=tys[i]) for i in range(len(tys))]
        inst = BF.DISPATCH_TABLE[name]
        f = type(inst).build_IR
        if hasattr(f, "__wrapped__"):
            return f.__wrapped__(inst, None, args, {}, None)
        objs = [object() for _ in args]
        expr = types.SimpleNamespace(args=objs)
        with mock.patch.object(BF.Expr, "parse_value_expr", staticmethod(lambda e, c: args[[o is e for o in objs].index(True)])):
            return inst.build_IR(expr, None)

    def venom_call(fn, tys, lits):
        def g(b, *ps):
            anodes = [types.SimpleNamespace(_metadata={"type": t}) for t in tys]
            node = types.SimpleNamespace(args=anodes)

            class FakeExpr:
                def __init__(self, n, c):
                    self.i = [a is n for a in anodes].index(True)

                def lower_value(self):
                    return ps[self.i] if lits[self.i] is None else IRLiteral(lits[self.i])
            with mock.patch.object(VE, "Expr", FakeExpr):
                return fn(node, types.SimpleNamespace(builder=b))
        return venom_recordn(g, len(tys))

    def call(name, vfn, tys, lits):
        return legacy_call(name, tys, lits) if kind == "legacy" else venom_call(vfn, tys, lits)

    def invert(T):
        if kind == "venom":
            return venom_unary(T, "Invert", lambda b, x: x)
        x = IRnode.from_list("x", typ=T)
        fake = types.SimpleNamespace(expr=types.SimpleNamespace(op=vy_ast.Invert.__new__(vy_ast.Invert), operand=None), context=None)
        with mock.patch.object(Expr, "parse_value_expr", staticmethod(lambda e, c: x)):
            return Expr.parse_UnaryOp(fake)

    bl = lambda v: "true" if v else "false"  # noqa
    with settings_ctx():
        for sx in (False, True):
            TX = I256 if sx else U256
            for k, s, d, TB in num_types():
                if not d:
                    out.append((f"(BShift {bl(sx)} {nty(k, s, False)})", ("shift", sx, (k, s)), (None, None),
                                call("shift", VM.lower_shift, [TX, TB], [None, None])))
            for s in (False, True):
                for lit in BLIT256[s]:
                    out.append((f"(BShift {bl(sx)} {nty(32, s, False)})", ("shift", sx, (32, s)), (None, lit),
                                call("shift", VM.lower_shift, [TX, I256 if s else U256], [None, lit])))
            for lit in BLIT256[sx]:
                out.append((f"(BShift {bl(sx)} {nty(32, True, False)})", ("shift", sx, (32, True)), (lit, None),
                            call("shift", VM.lower_shift, [TX, I256], [lit, None])))
        out.append(("BAbs", ("abs",), (None,), call("abs", VS.lower_abs, [I256], [None])))
        for lit in BLIT256[True]:
            out.append(("BAbs", ("abs",), (lit,), call("abs", VS.lower_abs, [I256], [lit])))
        for nm, ctor, vfn in (("uint256_addmod", "BAddmod", VM.lower_uint256_addmod), ("uint256_mulmod", "BMulmod", VM.lower_uint256_mulmod)):
            out.append((ctor, (nm[8:],), (None,) * 3, call(nm, vfn, [U256] * 3, [None] * 3)))
            for pos in range(3):
                for lit in BLIT256[False]:
                    lits = [None] * 3
                    lits[pos] = lit
                    out.append((ctor, (nm[8:],), tuple(lits), call(nm, vfn, [U256] * 3, lits)))
        out.append(("BPowMod", ("powmod",), (None, None), call("pow_mod256", VM.lower_pow_mod256, [U256] * 2, [None, None])))
        for pos in range(2):
            for lit in BLIT256[False]:
                lits = [None] * 2
                lits[pos] = lit
                out.append(("BPowMod", ("powmod",), tuple(lits), call("pow_mod256", VM.lower_pow_mod256, [U256] * 2, lits)))
        out.append((f"(BInvert (CNum {nty(32, False, False)}))", ("invert", ("num", 32, False, False)), (None,), invert(U256)))
        out.append(("(BInvert (CBytes 32))", ("invert", ("bytes", 32)), (None,), invert(BytesM_T(32))))
        for n in range(1, 257):
            out.append((f"(BInvert (CFlag {n}))", ("invert", ("flag", n)), (None,), invert(flag_type(n))))
    return out


def flag_convert_templates(kind):
    """conversions from / to flags with n = 1..256 members against FLAG_PARTNERS, in the order of ConvTie.flag_pairs"""
    from vyper.exceptions import VyperException
    part = {ko: (co, T) for co, ko, T in conv_types()}
    out = []
    with settings_ctx():
        for n in range(1, 257):
            F = flag_type(n)
            for ko in FLAG_PARTNERS:
                co, T = part[ko]
                for a, b in (((f"(CFlag {n})", ("flag", n), F), (co, ko, T)), ((co, ko, T), (f"(CFlag {n})", ("flag", n), F))):
                    try:
                        t = legacy_convert(a[2], b[2]) if kind == "legacy" else venom_convert(a[2], b[2])
                    except VyperException:
                        continue
                    out.append((a[0], b[0], a[1], b[1], t))
    return out


def opt_list(lits):
    return "[" + "; ".join("None" if v is None else f"Some {zl(v)}" for v in lits) + "]"


def gen_builtins():
    l, v = builtin_templates("legacy"), builtin_templates("venom")
    fl, fv = flag_convert_templates("legacy"), flag_convert_templates("venom")
    lines = [HEADER.replace("C03.ArithSpec.", "C03.ArithSpec C03.ConvSpec C03.BuiltinExact.")]
    lines.append("Definition legacy_builtins : list (bfn * list (option Z) * lir) := [\n" +
                 ";\n".join(f"  ({c}, {opt_list(li)}, {lir_term(t)})" for c, _, li, t in l) + "\n].\n")
    lines.append("Definition venom_builtins : list (bfn * list (option Z) * vtemplate) := [\n" +
                 ";\n".join(f"  ({c}, {opt_list(li)}, {vtemplate_term(*t)})" for c, _, li, t in v) + "\n].\n")
    lines.append("Definition legacy_flag_converts : list (cty * cty * lir) := [\n" +
                 ";\n".join(f"  ({ci}, {co}, {lir_term(t)})" for ci, co, _, _, t in fl) + "\n].\n")
    lines.append("Definition venom_flag_converts : list (cty * cty * vtemplate) := [\n" +
                 ";\n".join(f"  ({ci}, {co}, {vtemplate_term(*t)})" for ci, co, _, _, t in fv) + "\n].\n")
    return "\n".join(lines), l, v, fl, fv


# ---------------------------------------------------------------- convert() with LITERAL sources (_literal_int / _literal_decimal)
def literal_sources():
    """[(source text, kind)]: boundary literals of every kind (Int, Decimal, Hex = bytesM, bool)"""
    ints = set()
    for b in (8, 16, 128, 160, 168, 248, 256):
        ints |= {2**b - 1, 2**b, 2**(b - 1) - 1, 2**(b - 1), -(2**(b - 1)), -(2**(b - 1)) - 1}
    q = 2**167 // 10**10
    ints |= {0, 1, -1, 2, 7, 10**10, q, q + 1, -q, -q - 1}
    ints = sorted(v for v in ints if -2**255 <= v < 2**256)
    decs = ["0.0", "1.0", "-1.0", "0.5", "-0.5", "1.5", "-1.5", "127.0", "127.9", "128.0", "-128.0", "-128.9", "-129.0", "255.0",
            "255.5", "256.0", "0.0000000001", "-0.0000000001", "18707220957835557353007165858768422651595.9365500927",
            "-18707220957835557353007165858768422651595.9365500928", "340282366920938463463374607431768211455.0",
            "340282366920938463463374607431768211456.0", "1461501637330902918203684832716283019655932542975.0"]
    hexes = set()
    for m in (1, 2, 4, 16, 21, 31, 32):     # 20 bytes is an address literal
        for pat in ("00", "ff", "80", "7f", "01"):
            hexes.add("0x" + pat + "00" * (m - 1))
            hexes.add("0x" + "00" * (m - 1) + pat)
        hexes.add("0x" + "ff" * m)
        hexes.add("0x" + "7f" + "ff" * (m - 1))
    return [(str(v), "int") for v in ints] + [(d, "dec") for d in decs] + [(h, "hex") for h in sorted(hexes)] + \
           [("True", "bool"), ("False", "bool")]


def word_type_key(T):
    from vyper.semantics.types import AddressT, BoolT, BytesM_T, DecimalT, IntegerT
    if isinstance(T, IntegerT):
        return ("num", T.bits // 8, T.is_signed, False)
    if isinstance(T, DecimalT):
        return ("num", 21, True, True)
    if isinstance(T, BoolT):
        return ("bool",)
    if isinstance(T, AddressT):
        return ("addr",)
    if isinstance(T, BytesM_T):
        return ("bytes", T.m)
    return None


def literal_convert_one(src_lit, tname):
    """`convert(<literal>, T)` through the REAL front end (parse + semantic analysis) and then the REAL legacy `convert` and
    venom `lower_convert` on the annotated call node.
    -> None if the front end rejects the program, else (type key of the literal, value, legacy result, venom result) with
    result = ("ok", template) | ("reject", exception name) | ("crash", text)"""
    from vyper import ast as vy_ast
    from vyper.builtins import _convert as CV
    from vyper.codegen_venom.builtins import convert as VC
    from vyper.compiler.phases import CompilerData
    from vyper.compiler.settings import OptimizationLevel, Settings
    from vyper.exceptions import VyperException
    src = f"@external\ndef f() -> {tname}:\n    return convert({src_lit}, {tname})\n"
    try:
        mod = CompilerData(src, settings=Settings(optimize=OptimizationLevel.GAS)).annotated_vyper_module
    except VyperException:
        return None
    c = [n for n in mod.get_descendants(vy_ast.Call) if getattr(n.func, "id", None) == "convert"][0]
    a = c.args[0].reduced()
    ki = word_type_key(a._metadata["type"])
    if ki is None:
        return None
    if isinstance(a, vy_ast.Hex):
        v = int(a.value, 16)
    elif isinstance(a, vy_ast.Decimal):
        v = int(a.value * 10**10)
    else:
        v = int(a.value)
    res = []
    with settings_ctx():
        for kind in ("legacy", "venom"):
            try:
                if kind == "legacy":
                    res.append(("ok", CV.convert(c, None)))
                else:
                    res.append(("ok", venom_recordn(
                        lambda b: VC.lower_convert(c, types.SimpleNamespace(builder=b, unwrap=lambda vv: vv.operand)), 0)))
            except VyperException as e:
                res.append(("reject", type(e).__name__))
            except Exception as e:  # noqa
                res.append(("crash", f"{type(e).__name__}: {e}"[:200]))
    return ki, v, res[0], res[1]


def literal_convert_family(sample=None, rnd=None):
    """[(literal text, cty term in, cty term out, key in, key out, value, legacy result, venom result)] over
    literal_sources() x word types (no flags); `sample`: fraction of the cross product (seeded by rnd)"""
    cterm = {ko: co for co, ko, _ in conv_types()}
    out = []
    base = literal_sources()
    for co, ko, T in conv_types():
        if ko[0] == "flag":
            continue
        # always: the literals at the bounds of the target itself (Int literals; for decimal also the scaled bounds)
        must = []
        if ko[0] == "num":
            lo, hi = (-(2**167), 2**167 - 1) if ko[3] else ((-(2**(8 * ko[1] - 1)), 2**(8 * ko[1] - 1) - 1) if ko[2] else (0, 2**(8 * ko[1]) - 1))
            bs = [lo - 1, lo, hi, hi + 1] if not ko[3] else [lo // 10**10 - 1, -((-lo) // 10**10), hi // 10**10, hi // 10**10 + 1]
            must = [str(v) for v in bs if -2**255 <= v < 2**256]
            if not ko[3]:
                must += [f"{hi}.0", f"{hi}.5", f"{hi + 1}.0", f"{lo}.0", f"{lo}.5" if lo < 0 else "-0.5", f"{lo - 1}.0"] if 8 * ko[1] <= 128 else []
                must += ["0x" + "ff" * ko[1], "0x" + "80" + "00" * (ko[1] - 1), "0x" + "7f" + "ff" * (ko[1] - 1)] if ko[1] != 20 else []
        for lit in must + [l_ for l_, _ in base]:
            if lit not in must and sample is not None and rnd.random() >= sample:
                continue
            r = literal_convert_one(lit, str(T))
            if r is None:
                continue
            ki, v, rl, rv = r
            out.append((lit, cterm[ki], co, ki, ko, v, rl, rv))
    return out


def gen_literal_converts(sample=None, rnd=None):
    fam = literal_convert_family(sample, rnd)
    lines = [HEADER.replace("C03.ArithSpec.", "C03.ArithSpec C03.ConvSpec.")]

    def opt(r, term):
        return f"(Some {term(r[1])})" if r[0] == "ok" else "None"
    lines.append("Definition legacy_litconverts : list (cty * cty * Z * option lir) := [\n" +
                 ";\n".join(f"  ({ci}, {co}, {zl(v)}, {opt(rl, lir_term)})" for _, ci, co, _, _, v, rl, _ in fam if rl[0] != "crash") + "\n].\n")
    lines.append("Definition venom_litconverts : list (cty * cty * Z * option vtemplate) := [\n" +
                 ";\n".join(f"  ({ci}, {co}, {zl(v)}, {opt(rv, lambda t: vtemplate_term(*t))})" for _, ci, co, _, _, v, _, rv in fam if rv[0] != "crash") + "\n].\n")
    return "\n".join(lines), fam
