"""C01 extension: the LARGER verified expression fragment (coq/C01/ExprX*.v legacy, coq/C01V/VExprX*.v Venom).

Generates expressions over locals AND state variables with: checked arithmetic on 9 integer types and on decimals, unary
minus, & | ^ on signed and unsigned integers, ~ on uint256, << >> on uint256 / int256, flags (| & ^ ~, in / not in, == !=,
flag constants), comparisons on all of them, and / or / not, if-expressions.  Every sample is compiled by BOTH real front
ends at -O none; the IR subtree (legacy) / the instructions and blocks (Venom) created for the right-hand side of
`r: T = <expr>` are exported and compared SYNTACTICALLY, in Coq (vm_compute), with ExprX.ycompile / VExprX.ylower.
A subset is also executed: `return <expr>` through both whole pipelines on pyrevm against ExprX.yeval (vm_compute) and
against the python meaning `py_eval`.  On a difference: Search = execution with boundary inputs -> failing-input."""
from pathlib import Path

from vlib import coqrun
from vlib.c01_exprtie import X, is_with, strip_seq, find_mstores, Mismatch
from vlib.c03_export import OP1, OP2, OP3, zl, ExportError

INT_TYPES = [("i", 32, False), ("i", 32, True), ("i", 16, True), ("i", 16, False), ("i", 1, False), ("i", 1, True),
             ("i", 8, False), ("i", 31, False), ("i", 5, True)]
U256, I256, U8 = ("i", 32, False), ("i", 32, True), ("i", 1, False)
DEC = "dec"
DEC_SCALE = 10 ** 10
BOPS = {"BAdd": "+", "BSub": "-", "BMul": "*", "BDiv": "//", "BMod": "%"}
BITS = {"BitAnd": "&", "BitOr": "|", "BitXor": "^"}
COPS = {"CLt": "<", "CLe": "<=", "CGt": ">", "CGe": ">=", "CEq": "==", "CNe": "!="}

LEGACY_FILES = ["C01/ExprX.v", "C01/ExprXWord.v", "C01/ExprXProofs.v"]
BRIDGE_FILES = ["C01/ExprXBridge.v"]
VENOM_FILES = ["C01V/VExprX.v", "C01V/VExprXProofs.v", "C01V/PropsVExprX.v"]
C03_DEPS = ["C03/LIR.v", "C03/ArithSpec.v", "C03/WordArith.v", "C03/TypeLemmas.v", "C03/ArithModel.v", "C03/LegacyExact.v",
            "C03/TieBase.v", "C03/VSL.v", "C03/VenomExact.v"]
C01_DEPS = ["C01/ExprCompile.v", "C01/ExprCompileProofs.v", "C01V/VExpr.v", "C01V/VExprProofs.v", "C01V/VBlocks.v",
            "C01V/VBlocksProofs.v"]
IMPORTS = ("From Coq Require Import ZArith String List.\nFrom Verif Require Import Base.Word256 C03.LIR C03.ArithSpec C03.VSL C01.ExprCompile "
           "C01.ExprX C01V.VExpr C01V.VBlocks C01V.VExprX.\nImport ListNotations.\nOpen Scope string_scope.\nOpen Scope Z_scope.\n")


# ------------------------------------------------------------------ types
def is_int(t):
    return isinstance(t, tuple) and t[0] == "i"


def is_flag(t):
    return isinstance(t, tuple) and t[0] == "f"


def ty_vy(t):
    if t == "bool":
        return "bool"
    if t == DEC:
        return "decimal"
    if is_flag(t):
        return f"F{t[1]}"
    return f"{'int' if t[2] else 'uint'}{8 * t[1]}"


def ty_abi(t):
    if t == DEC:
        return "int168"
    if is_flag(t):
        return "uint256"
    return ty_vy(t)


def nty(t):
    if t == DEC:
        return "(Build_nty 21 true true)"
    return f"(Build_nty {t[1]} {'true' if t[2] else 'false'} false)"


def yty(t):
    if t == "bool":
        return "TB"
    if is_flag(t):
        return f"(TF {t[1]})"
    return f"(TI {nty(t)})"


def bounds(t):
    if t == "bool":
        return 0, 1
    if t == DEC:
        return -(2 ** 167), 2 ** 167 - 1
    if is_flag(t):
        return 0, 2 ** t[1] - 1
    _, k, s = t
    return (-(2 ** (8 * k - 1)), 2 ** (8 * k - 1) - 1) if s else (0, 2 ** (8 * k) - 1)


def signed(t):
    return t == DEC or (is_int(t) and t[2])


def dec_str(v):
    s = "-" if v < 0 else ""
    a = abs(v)
    frac = f"{a % DEC_SCALE:010d}".rstrip("0") or "0"
    return f"{s}{a // DEC_SCALE}.{frac}"


# ------------------------------------------------------------------ generator
class GenX:
    def __init__(self, rng, leaves):
        self.r, self.leaves = rng, leaves     # leaves: [(name, ty, is_storage)]

    def types(self, pred):
        return sorted({t for _, t, _ in self.leaves if pred(t)}, key=repr)

    def var(self, t):
        c = [(n, s) for n, vt, s in self.leaves if vt == t]
        if not c:
            return None
        n, s = self.r.choice(c)
        return X("var", t, name=n, sto=s)

    def lit(self, t):
        r = self.r
        lo, hi = bounds(t)
        if t == "bool":
            return X("lit", t, v=r.choice([0, 1]))
        if is_flag(t):
            return X("lit", t, v=1 << r.randrange(t[1]))          # a flag constant F.Mi
        if t == DEC:
            v = r.choice([0, DEC_SCALE, 2 * DEC_SCALE, 25 * 10 ** 9, 1, 3 * DEC_SCALE, -DEC_SCALE, 10 ** 15 + 7, hi, lo, hi - 1, lo + 1,
                          r.randrange(-10 ** 14, 10 ** 14), r.randrange(lo, hi + 1)])
            return X("lit", t, v=v)
        v = r.choice([0, 1, 2, 3, 7, 10, hi, lo, hi - 1, lo + 1, r.randrange(lo, hi + 1)])
        return X("lit", t, v=min(max(v, lo), hi))

    def leaf(self, t, allow_lit=True):
        v = self.var(t)
        if v is None or (allow_lit and self.r.random() < 0.25):
            return self.lit(t)
        return v

    def expr(self, t, d, allow_lit=True):
        if t == "bool":
            return self.bool_expr(d)
        r = self.r
        if d <= 0:
            return self.leaf(t, allow_lit)
        opts = ["leaf"] * 2 + ["ifexp"]
        if is_flag(t):
            opts += ["bit"] * 4 + ["invf"] * 2
        elif t == DEC:
            opts += ["bin"] * 5 + ["neg"]
        else:
            opts += ["bin"] * 4 + ["bit"] * 2
            if t[2]:
                opts += ["neg"]
            if t[1] == 32:
                opts += ["shift"] * 3
            if t == U256:
                opts += ["inv"] * 2
        k = r.choice(opts)
        if k == "leaf":
            return self.leaf(t, allow_lit)
        if k in ("bin", "bit"):
            a = self.expr(t, d - 1)
            b = self.expr(t, d - 1, allow_lit=(a.k != "lit"))
            if a.k == "lit" and b.k == "lit":
                b = self.var(t) or b
            if a.k == "lit" and b.k == "lit":
                return a
            if k == "bit":
                return X("p2", t, op=("bit", r.choice(list(BITS)), t), a=a, b=b)
            ops = ["BAdd", "BSub", "BMul", "BDiv", "BMod"]
            op = r.choice(ops)
            if op in ("BDiv", "BMod") and b.k == "lit" and b.v == 0:
                b = X("lit", t, v=DEC_SCALE if t == DEC else 1)
            return X("bin", t, op=op, a=a, b=b)
        if k == "neg":
            a = self.expr(t, d - 1, allow_lit=False)
            return a if a.k == "lit" else X("neg", t, a=a)
        if k == "inv":
            a = self.expr(t, d - 1, allow_lit=False)
            return a if a.k == "lit" else X("p1", t, op=("inv",), a=a)
        if k == "invf":
            a = self.expr(t, d - 1, allow_lit=False)
            return a if a.k == "lit" else X("p1", t, op=("invf", t[1]), a=a)
        if k == "shift":
            a = self.expr(t, d - 1, allow_lit=False)
            if a.k == "lit":
                return a
            uts = self.types(lambda x: is_int(x) and not x[2])
            if uts and r.random() < 0.6:
                tb = r.choice(uts)
                b = self.expr(tb, d - 1, allow_lit=False)
                if b.k == "lit":
                    tb, b = U256, X("lit", U256, v=r.choice([0, 1, 8, 255, 256]))
            else:
                tb, b = U256, X("lit", U256, v=r.choice([0, 1, 2, 8, 31, 128, 255, 256]))
            return X("p2", t, op=(r.choice(["shl", "shr"]), t, tb), a=a, b=b)
        # ifexp: the branches must not be bare variables for the legacy model (the compiler then selects locations)
        c = self.bool_expr(d - 1)
        a = self.novar(t, d - 1, False)
        b = self.novar(t, d - 1, True)
        if a.k == "lit" and b.k == "lit":
            return a
        return X("ifexp", t, c=c, a=a, b=b)

    def novar(self, t, d, allow_lit):
        for _ in range(4):
            e = self.expr(t, d, allow_lit)
            if e.k != "var":
                return e
        if t == "bool":
            return X("p1", "bool", op=("not",), a=self.bool_expr(0))
        if is_flag(t):
            v = self.var(t)
            return X("p2", t, op=("bit", "BitOr", t), a=v, b=self.lit(t)) if v else self.lit(t)
        v = self.var(t)
        if v is None:
            return self.lit(t)
        return X("bin", t, op="BAdd", a=v, b=X("lit", t, v=DEC_SCALE if t == DEC else 1))

    def bool_expr(self, d):
        r = self.r
        opts = ["cmp"] * 4 + (["var"] if self.var("bool") else [])
        if self.types(is_flag):
            opts += ["in"] * 2
        if d > 0:
            opts += ["and", "or", "not", "ifexp", "bcmp"]
        k = r.choice(opts)
        if k == "var":
            return self.var("bool")
        if k == "in":
            t = r.choice(self.types(is_flag))
            a = self.expr(t, max(d - 1, 0), allow_lit=False)
            b = self.expr(t, max(d - 1, 0), allow_lit=(a.k != "lit"))
            if a.k == "lit" and b.k == "lit":
                a = self.var(t) or a
            if a.k == "lit" and b.k == "lit":
                return X("lit", "bool", v=1)
            return X("p2", "bool", op=("in", r.random() < 0.5, t[1]), a=a, b=b)
        if k == "cmp" or d <= 0:
            ts = self.types(lambda x: x != "bool")
            t = r.choice(ts)
            a = self.expr(t, max(d - 1, 0), allow_lit=False)
            b = self.expr(t, max(d - 1, 0))
            if a.k == "lit" and b.k == "lit":
                a = self.var(t) or a
            if r.random() < 0.3:
                a, b = b, a
            if a.k == "lit" and b.k == "lit":
                return X("lit", "bool", v=1)
            op = r.choice(["CEq", "CNe"] if is_flag(t) else list(COPS))
            return X("p2", "bool", op=("cmp", op, t), a=a, b=b)
        if k == "bcmp":
            a, b = self.bool_expr(d - 1), self.bool_expr(d - 1)
            if a.k == "lit" and b.k == "lit":
                return a
            return X("p2", "bool", op=("cmp", r.choice(["CEq", "CNe"]), "bool"), a=a, b=b)
        if k in ("and", "or"):
            return X(k, "bool", a=self.bool_expr(d - 1), b=self.bool_expr(d - 1))
        if k == "not":
            a = self.bool_expr(d - 1)
            return a if a.k == "lit" else X("p1", "bool", op=("not",), a=a)
        return X("ifexp", "bool", c=self.bool_expr(d - 1), a=self.novar("bool", d - 1, False), b=self.novar("bool", d - 1, False))


def kids(e):
    return [e.f[f] for f in ("c", "a", "b") if f in e.f and isinstance(e.f[f], X)]


def count_kinds(e, acc):
    key = e.k if e.k not in ("p1", "p2") else e.op[0]
    if e.k == "bin" and e.ty == DEC:
        key = "decbin"
    if e.k == "var" and e.sto:
        key = "stovar"
    if e.k == "p2" and e.op[0] == "bit" and signed(e.ty):
        key = "sbit"
    acc[key] = acc.get(key, 0) + 1
    for c in kids(e):
        count_kinds(c, acc)


def has_const_only(e):
    """a sub-expression without any variable would be folded by the compiler"""
    if e.k in ("lit",):
        return False
    if e.k == "var":
        return False
    ks = kids(e)
    if all(c.k == "lit" for c in ks):
        return True
    return any(has_const_only(c) for c in ks)


# ------------------------------------------------------------------ printing
def vy(e):
    k = e.k
    if k == "lit":
        t = e.ty
        if t == "bool":
            return "True" if e.v else "False"
        if t == DEC:
            return dec_str(e.v)
        if is_flag(t):
            return f"F{t[1]}.M{e.v.bit_length() - 1}"
        return str(e.v)
    if k == "var":
        return f"self.{e.name}" if e.sto else e.name
    if k == "bin":
        op = "/" if (e.ty == DEC and e.op == "BDiv") else BOPS[e.op]
        return f"({vy(e.a)} {op} {vy(e.b)})"
    if k == "p2":
        o = e.op
        if o[0] == "bit":
            return f"({vy(e.a)} {BITS[o[1]]} {vy(e.b)})"
        if o[0] in ("shl", "shr"):
            return f"({vy(e.a)} {'<<' if o[0] == 'shl' else '>>'} {vy(e.b)})"
        if o[0] == "cmp":
            return f"({vy(e.a)} {COPS[o[1]]} {vy(e.b)})"
        if o[0] == "in":
            return f"({vy(e.a)} {'not in' if o[1] else 'in'} {vy(e.b)})"
    if k == "p1":
        return f"({'not ' if e.op[0] == 'not' else '~'}{vy(e.a)})"
    if k in ("and", "or"):
        return f"({vy(e.a)} {k} {vy(e.b)})"
    if k == "neg":
        return f"(-{vy(e.a)})"
    if k == "ifexp":
        return f"({vy(e.a)} if {vy(e.c)} else {vy(e.b)})"
    raise ValueError(k)


def p2_term(o):
    if o[0] == "bit":
        return f"(PBit {o[1]} {yty(o[2])})"
    if o[0] == "shl":
        return f"(PShl {nty(o[1])} {nty(o[2])})"
    if o[0] == "shr":
        return f"(PShr {nty(o[1])} {nty(o[2])})"
    if o[0] == "cmp":
        return f"(PCmp {o[1]} {yty(o[2])})"
    if o[0] == "in":
        return f"(PIn {'true' if o[1] else 'false'} {o[2]})"
    raise ValueError(o)


def p1_term(o):
    return {"not": "PNot", "inv": "PInv"}.get(o[0]) or f"(PInvF {o[1]})"


def coq_expr(e, name):
    """yexpr term with all legacy cache flags = false (the Venom side ignores them)"""
    k = e.k
    if k == "lit":
        return f"(YLit {yty(e.ty)} {zl(e.v)})"
    if k == "var":
        return f'(YVar "{name(e)}" {yty(e.ty)})'
    if k == "bin":
        return f"(YBin {e.op} {nty(e.ty)} false false false false {coq_expr(e.a, name)} {coq_expr(e.b, name)})"
    if k == "p2":
        return f"(YP2 {p2_term(e.op)} {coq_expr(e.a, name)} {coq_expr(e.b, name)})"
    if k == "p1":
        return f"(YP1 {p1_term(e.op)} {coq_expr(e.a, name)})"
    if k == "and":
        return f"(YAnd {coq_expr(e.a, name)} {coq_expr(e.b, name)})"
    if k == "or":
        return f"(YOr {coq_expr(e.a, name)} {coq_expr(e.b, name)})"
    if k == "neg":
        return f"(YNeg {nty(e.ty)} false {coq_expr(e.a, name)})"
    if k == "ifexp":
        return f"(YIf {coq_expr(e.c, name)} {coq_expr(e.a, name)} {coq_expr(e.b, name)})"
    raise ValueError(k)


def program(leaves, e, ret=False):
    """source text; leaves: locals (initialised from the parameters, in order) and state variables (slots in order)"""
    flags = sorted({t[1] for _, t, _ in leaves if is_flag(t)})
    lines = []
    for n in flags:
        lines.append(f"flag F{n}:")
        lines += [f"    M{i}" for i in range(n)]
        lines.append("")
    sto = [(n, t) for n, t, s in leaves if s]
    loc = [(n, t) for n, t, s in leaves if not s]
    for n, t in sto:
        lines.append(f"{n}: {ty_vy(t)}")
    if ret and sto:
        lines += ["", "@external", "def setvars(" + ", ".join(f"a{i}: {ty_vy(t)}" for i, (_, t) in enumerate(sto)) + "):"]
        lines += [f"    self.{n} = a{i}" for i, (n, _) in enumerate(sto)]
    lines += ["", "@external", "def f(" + ", ".join(f"p{i}: {ty_vy(t)}" for i, (_, t) in enumerate(loc)) + ")" +
              (f" -> {ty_vy(e.ty)}:" if ret else ":")]
    for i, (n, t) in enumerate(loc):
        lines.append(f"    {n}: {ty_vy(t)} = p{i}")
    lines.append(f"    return {vy(e)}" if ret else f"    r: {ty_vy(e.ty)} = {vy(e)}")
    return "\n".join(lines) + "\n"


def gen_sample(rng, depth):
    """-> (leaves, e) or None"""
    fam = rng.choice(["int", "int", "shift", "flag", "dec", "mixed", "sint"])
    nloc = rng.randrange(2, 5)
    if fam == "int":
        tys = [rng.choice(INT_TYPES) for _ in range(rng.randrange(1, 3))]
    elif fam == "sint":
        tys = [rng.choice([t for t in INT_TYPES if t[2]])]
    elif fam == "shift":
        tys = [rng.choice([U256, I256]), rng.choice([U256, U8])]
    elif fam == "flag":
        tys = [("f", rng.choice([1, 2, 3, 5, 8, 200, 256]))]
    elif fam == "dec":
        tys = [DEC]
    else:
        tys = [rng.choice(INT_TYPES), rng.choice([DEC, ("f", rng.choice([3, 4, 256])), U256])]
    leaves = []
    for i in range(nloc):
        leaves.append((f"v{i}", rng.choice(tys + (["bool"] if rng.random() < 0.25 else [])), False))
    for j in range(rng.choice([0, 1, 1, 2])):
        leaves.append((f"s{j}", rng.choice(tys + (["bool"] if rng.random() < 0.15 else [])), True))
    if all(t == "bool" for _, t, _ in leaves):
        leaves[0] = ("v0", tys[0], False)
    g = GenX(rng, leaves)
    rt = rng.choice(g.types(lambda x: x != "bool") + ["bool"])
    e = g.expr(rt, depth, allow_lit=False)
    if e.k in ("lit", "var") or has_const_only(e):
        return None
    return leaves, e


def probe_samples():
    """a fixed table walked completely in every run: every new operator at its types, small expressions, operands = locals
    and state variables -> [(leaves, e)]"""
    out = []

    def two(t, tb=None, sto_b=False):
        tb = tb or t
        leaves = [("v0", t, False), ("v1", tb, False), ("s0", tb, True)]
        a = X("var", t, name="v0", sto=False)
        b = X("var", tb, name="s0", sto=True) if sto_b else X("var", tb, name="v1", sto=False)
        return leaves, a, b
    k = 0
    for t in (U256, I256):
        for sh in ("shl", "shr"):
            for tb, lit in ((U256, None), (U8, None), (U256, 3), (U256, 256)):
                k += 1
                leaves, a, b = two(t, tb, sto_b=(k % 2 == 0))
                if lit is not None:
                    b = X("lit", U256, v=lit)
                out.append((leaves, X("p2", t, op=(sh, t, tb), a=a, b=b)))
    leaves, a, b = two(U256)
    out.append((leaves, X("p1", U256, op=("inv",), a=a)))
    out.append((leaves, X("p2", U256, op=("bit", "BitXor", U256), a=X("p1", U256, op=("inv",), a=b), b=a)))
    for n in (3, 256, 1):
        t = ("f", n)
        leaves, a, b = two(t, sto_b=True)
        out.append((leaves, X("p2", "bool", op=("in", False, n), a=a, b=b)))
        out.append((leaves, X("p2", "bool", op=("in", True, n), a=a, b=b)))
        out.append((leaves, X("p1", t, op=("invf", n), a=a)))
        if n == 3:
            for bo in BITS:
                out.append((leaves, X("p2", t, op=("bit", bo, t), a=a, b=b)))
            out.append((leaves, X("p2", "bool", op=("cmp", "CEq", t), a=a, b=X("lit", t, v=2))))
            out.append((leaves, X("p2", "bool", op=("cmp", "CNe", t), a=X("p1", t, op=("invf", n), a=a), b=b)))
            out.append((leaves, X("p2", "bool", op=("in", False, n), a=X("lit", t, v=4), b=X("p2", t, op=("bit", "BitOr", t), a=a, b=X("lit", t, v=1)))))
    leaves, a, b = two(DEC, sto_b=True)
    for bo in BOPS:
        out.append((leaves, X("bin", DEC, op=bo, a=a, b=b)))
    out.append((leaves, X("bin", DEC, op="BMul", a=a, b=X("lit", DEC, v=25 * 10 ** 9))))
    out.append((leaves, X("bin", DEC, op="BDiv", a=X("lit", DEC, v=DEC_SCALE), b=a)))
    out.append((leaves, X("neg", DEC, a=a)))
    for co in ("CLt", "CGe", "CEq"):
        out.append((leaves, X("p2", "bool", op=("cmp", co, DEC), a=a, b=b)))
    for t in (I256, ("i", 1, True), ("i", 16, True)):
        leaves, a, b = two(t, sto_b=(t != I256))
        for bo in BITS:
            out.append((leaves, X("p2", t, op=("bit", bo, t), a=a, b=b)))
    return out


def make_sample(leaves, e):
    src = program(leaves, e)
    return {"src": src, "e": e, "leaves": leaves, "legacy": legacy_sample(src, leaves, e), "venom": venom_sample(src, leaves, e)}


# ------------------------------------------------------------------ real compilers
def _settings(venom):
    from vyper.compiler.settings import OptimizationLevel, Settings
    return Settings(optimize=OptimizationLevel.NONE, experimental_codegen=venom, enable_decimals=True)


def real_ir(src):
    from vyper.compiler.input_bundle import FileInput
    from vyper.compiler.phases import CompilerData
    fi = FileInput(0, Path("expr.vy"), Path("expr.vy"), src)
    return CompilerData(fi, settings=_settings(False)).ir_runtime


def real_venom(src):
    from vyper.compiler.input_bundle import FileInput
    from vyper.compiler.phases import CompilerData
    from vyper.compiler.settings import anchor_settings
    from vyper.codegen_venom.module import generate_runtime_venom
    fi = FileInput(0, Path("expr.vy"), Path("expr.vy"), src)
    st = _settings(True)
    cd = CompilerData(fi, settings=st)
    with anchor_settings(st):
        return generate_runtime_venom(cd.global_ctx, st)


# ---------------- legacy: IR -> lir term; leaves: (mload K) -> "mK", (sload K) -> "sK"
def lir_term(n):
    v, args = n.value, n.args
    if isinstance(v, int):
        if args:
            raise ExportError(f"literal with args: {n!r}")
        return f"(LInt {zl(v)})"
    if not isinstance(v, str):
        raise ExportError(f"unsupported node value {v!r}")
    if v in ("mload", "sload") and len(args) == 1 and isinstance(args[0].value, int) and not args[0].args:
        return f'(LVar "{v[0]}{args[0].value}")'
    if v == "with":
        if len(args) != 3 or not isinstance(args[0].value, str) or args[0].args:
            raise ExportError(f"bad with: {n!r}")
        return f'(LWith "{args[0].value}" {lir_term(args[1])} {lir_term(args[2])})'
    a = [lir_term(x) for x in args]
    if v == "seq":
        if not a:
            return "LPass"
        t = a[-1]
        for x in reversed(a[:-1]):
            t = f"(LSeq {x} {t})"
        return t
    if v == "assert" and len(a) == 1:
        return f"(LAssert {a[0]})"
    if v == "if" and len(a) == 3:
        return f"(LIf {a[0]} {a[1]} {a[2]})"
    if v in OP1 and len(a) == 1:
        return f"(L1 {OP1[v]} {a[0]})"
    if v in OP2 and len(a) == 2:
        return f"(L2 {OP2[v]} {a[0]} {a[1]})"
    if v in OP3 and len(a) == 3:
        return f"(L3 {OP3[v]} {a[0]} {a[1]} {a[2]})"
    if not a and v.replace("_", "").isalnum() and v not in OP1 and v not in OP2 and v not in OP3:
        return f'(LVar "{v}")'
    raise ExportError(f"IR node outside the LIR subset: {v} / {len(a)} args")


def annotate(e, n, nm):
    """source expression + real IR node -> yexpr term carrying the cache flags the real compiler chose"""
    n = strip_seq(n)
    k = e.k
    if k == "lit":
        return f"(YLit {yty(e.ty)} {zl(e.v)})"
    if k == "var":
        return f'(YVar "{nm(e)}" {yty(e.ty)})'
    if k == "bin":
        if is_with(n, "x"):
            ia, a_s, n = "false", annotate(e.a, n.args[1], nm), strip_seq(n.args[2])
        else:
            if e.a.k != "lit":
                raise Mismatch("left operand neither cached nor a literal")
            ia, a_s = "true", annotate(e.a, n, nm)
        if is_with(n, "y"):
            ib, b_s, n = "false", annotate(e.b, n.args[1], nm), strip_seq(n.args[2])
        else:
            if e.b.k != "lit":
                raise Mismatch("right operand neither cached nor a literal")
            ib, b_s = "true", annotate(e.b, n, nm)
        i1 = "false" if n.value == "with" else "true"
        i2 = "false"
        if e.ty == DEC and e.op == "BMul":
            # decimal product: (with ans (mul ..) (seq (assert ..) <clamp of (sdiv ans DIVISOR)>)): second cache point `val`
            body = strip_seq(n.args[2]) if n.value == "with" else n
            last = strip_seq(body.args[-1]) if body.value == "seq" and body.args else body
            i2 = "false" if is_with(last, "val") else "true"
        return f"(YBin {e.op} {nty(e.ty)} {ia} {ib} {i1} {i2} {a_s} {b_s})"
    if k == "p2":
        j = {"in": 1 if e.op[1] else 2}.get(e.op[0], 0) if e.op[0] == "in" else 0
        for _ in range(j):
            if n.value != "iszero" or len(n.args) != 1:
                raise Mismatch("membership shape")
            n = strip_seq(n.args[0])
        if len(n.args) != 2:
            raise Mismatch("binary operator arity")
        return f"(YP2 {p2_term(e.op)} {annotate(e.a, n.args[1], nm)} {annotate(e.b, n.args[0], nm)})"
    if k == "p1":
        want = {"not": ("iszero", 1, 0), "inv": ("not", 1, 0), "invf": ("xor", 2, 1)}[e.op[0]]
        if n.value != want[0] or len(n.args) != want[1]:
            raise Mismatch("unary operator shape")
        return f"(YP1 {p1_term(e.op)} {annotate(e.a, n.args[want[2]], nm)})"
    if k == "and":
        if n.value != "if" or len(n.args) != 3:
            raise Mismatch("and shape")
        return f"(YAnd {annotate(e.a, n.args[0], nm)} {annotate(e.b, n.args[1], nm)})"
    if k == "or":
        if n.value != "if" or len(n.args) != 3:
            raise Mismatch("or shape")
        return f"(YOr {annotate(e.a, n.args[0], nm)} {annotate(e.b, n.args[2], nm)})"
    if k == "neg":
        if n.value != "sub" or len(n.args) != 2:
            raise Mismatch("neg shape")
        c = strip_seq(n.args[1])
        if is_with(c, "clamp_arg"):
            return f"(YNeg {nty(e.ty)} false {annotate(e.a, c.args[1], nm)})"
        if e.a.k != "lit":
            raise Mismatch("USub operand neither cached nor a literal")
        return f"(YNeg {nty(e.ty)} true {annotate(e.a, c, nm)})"
    if k == "ifexp":
        if n.value != "if" or len(n.args) != 3:
            raise Mismatch("ifexp shape")
        return f"(YIf {annotate(e.c, n.args[0], nm)} {annotate(e.a, n.args[1], nm)} {annotate(e.b, n.args[2], nm)})"
    raise ValueError(k)


def legacy_sample(src, leaves, e):
    """-> dict(coq_e, coq_t, names) or dict(error=..) / dict(rejected=..)"""
    try:
        ir = real_ir(src)
    except Exception as ex:  # noqa
        return {"rejected": f"{type(ex).__name__}: {str(ex)[:200]}"}
    loc = [(n, t) for n, t, s in leaves if not s]
    sto = [n for n, _, s in leaves if s]
    st = []
    find_mstores(ir, st)
    by_addr = {}
    for n in st:
        by_addr.setdefault(n.args[0].value, n)
    addrs = sorted(by_addr)
    nloc = len(loc)
    if len(addrs) < nloc + 1:
        return {"error": f"expected {nloc + 1} local stores, found {len(addrs)}"}
    frame = addrs[-(nloc + 1):]
    if any(frame[i + 1] - frame[i] != 32 for i in range(nloc)):
        return {"error": f"unexpected frame layout {frame}"}
    names = {n: f"m{frame[i]}" for i, (n, _) in enumerate(loc)}
    names.update({n: f"s{j}" for j, n in enumerate(sto)})       # state variables occupy slots 0, 1, .. in declaration order
    node = by_addr[frame[-1]].args[1]
    try:
        return {"coq_e": annotate(e, node, lambda v: names[v.name]), "coq_t": lir_term(node), "names": names}
    except (Mismatch, ExportError) as ex:
        return {"error": f"{type(ex).__name__}: {ex}", "ir": repr(node)[:1500]}


# ---------------- Venom: the region of the right-hand side (as c01v_part.export_region, plus `sload <slot>` leaves)
def export_region(vctx, nloc, loc_names):
    from vyper.venom.basicblock import IRLiteral, IRVariable
    fns = [fn for fn in vctx.functions.values() if any(i.opcode == "alloca" for bb in fn.get_basic_blocks() for i in bb.instructions)]
    if len(fns) != 1:
        raise ExportError(f"{len(fns)} functions with allocas")
    blocks = list(fns[0].get_basic_blocks())
    allocas = [(bi, ii, i) for bi, bb in enumerate(blocks) for ii, i in enumerate(bb.instructions)
               if i.opcode == "alloca" and isinstance(i.operands[0], IRLiteral) and i.operands[0].value == 32]
    if len(allocas) < 2 * nloc + 1:
        raise ExportError(f"expected {2 * nloc + 1} allocas, found {len(allocas)}")
    loc_of = {allocas[nloc + j][2].output.value: loc_names[j] for j in range(nloc)}
    b0, i0, ra = allocas[2 * nloc]
    rptr = ra.output.value
    region, result = [], None
    for bi in range(b0, len(blocks)):
        insts = blocks[bi].instructions[i0 + 1:] if bi == b0 else list(blocks[bi].instructions)
        cut = None
        for k, i in enumerate(insts):
            if i.opcode == "mstore" and isinstance(i.operands[1], IRVariable) and i.operands[1].value == rptr:
                cut, result = k, i.operands[0]
                break
        region.append((blocks[bi], insts if cut is None else insts[:cut]))
        if cut is not None:
            break
    if result is None:
        raise ExportError("store of the result not found")
    outs = [int(o.value[1:]) for _, ins in region for i in ins for o in i.get_outputs()]
    if not outs:
        raise ExportError("no instruction in the region")
    vbase = min(outs)
    labs = sorted(int(bb.label.value.split("_")[0]) for bb, _ in region[1:])
    lab_of = {region[0][0].label.value: 0}
    for bb, _ in region[1:]:
        lab_of[bb.label.value] = labs.index(int(bb.label.value.split("_")[0])) + 1
    if labs and labs != list(range(labs[0], labs[0] + len(labs))):
        raise ExportError(f"labels of the region are not consecutive: {labs}")

    def var(v):
        n = int(v.value[1:])
        if n < vbase:
            raise ExportError(f"variable {v} from outside the expression")
        return f"(nm {n - vbase})"

    def op(o):
        if isinstance(o, IRLiteral):
            return f"(VLit {zl(o.value)})"
        if isinstance(o, IRVariable):
            return f"(VVar {var(o)})"
        raise ExportError(f"operand {o!r}")

    def lab(l):
        if l.value not in lab_of:
            raise ExportError(f"jump out of the region: {l}")
        return str(lab_of[l.value])

    out_blocks = []
    for bb, insts in region:
        body, term = [], "TNone"
        for i in insts:
            oc, ops, outs_ = i.opcode, i.operands, i.get_outputs()
            if term != "TNone":
                raise ExportError("instruction after a terminator")
            if oc == "jnz":
                term = f"(TJnz {op(ops[0])} {lab(ops[1])} {lab(ops[2])})"
            elif oc == "jmp":
                term = f"(TJmp {lab(ops[0])})"
            elif oc == "assert" and len(ops) == 1:
                body.append(f"VAssert {op(ops[0])}")
            elif oc == "mload" and len(ops) == 1 and isinstance(ops[0], IRVariable) and ops[0].value in loc_of:
                body.append(f'VAssign {var(outs_[0])} (VVar "{loc_of[ops[0].value]}")')
            elif oc == "sload" and len(ops) == 1 and isinstance(ops[0], IRLiteral):
                body.append(f'VAssign {var(outs_[0])} (VVar "s{ops[0].value}")')
            elif oc == "assign" and len(ops) == 1 and len(outs_) == 1:
                body.append(f'VAssign {var(outs_[0])} {op(ops[0])}')
            elif oc in OP1 and len(ops) == 1 and len(outs_) == 1:
                body.append(f'V1 {var(outs_[0])} {OP1[oc]} {op(ops[0])}')
            elif oc in OP2 and len(ops) == 2 and len(outs_) == 1:
                body.append(f'V2 {var(outs_[0])} {OP2[oc]} {op(ops[0])} {op(ops[1])}')
            else:
                raise ExportError(f"instruction outside the fragment: {i}")
        out_blocks.append(f"mkB {lab_of[bb.label.value]} [" + "; ".join(body) + f"] {term}")
    return op(result), out_blocks


def venom_sample(src, leaves, e):
    try:
        vctx = real_venom(src)
    except Exception as ex:  # noqa
        return {"rejected": f"{type(ex).__name__}: {str(ex)[:200]}"}
    loc = [n for n, _, s in leaves if not s]
    sto = [n for n, _, s in leaves if s]
    names = {n: n for n in loc}
    names.update({n: f"s{j}" for j, n in enumerate(sto)})
    try:
        r, blocks = export_region(vctx, len(loc), loc)
    except ExportError as ex:
        return {"error": str(ex)}
    return {"coq_e": coq_expr(e, lambda v: names[v.name]), "coq_r": r, "coq_b": "[" + ";\n   ".join(blocks) + "]",
            "nblocks": len(blocks), "names": names}


def sample(rng, depth):
    g = gen_sample(rng, depth)
    if g is None:
        return None
    return make_sample(*g)


# ------------------------------------------------------------------ python meaning (for the search and as a cross-check)
class _Rev(Exception):
    pass


def _chk(t, v):
    lo, hi = bounds(t)
    if not lo <= v <= hi:
        raise _Rev()
    return v


def _quot(x, y):
    return abs(x) // abs(y) * (1 if (x < 0) == (y < 0) else -1)


def py_eval(e, env):
    k = e.k
    if k == "lit":
        return e.v
    if k == "var":
        return env[e.name]
    if k == "bin":
        x, y = py_eval(e.a, env), py_eval(e.b, env)
        d = e.ty == DEC
        if e.op == "BAdd":
            return _chk(e.ty, x + y)
        if e.op == "BSub":
            return _chk(e.ty, x - y)
        if e.op == "BMul":
            return _chk(e.ty, _quot(x * y, DEC_SCALE) if d else x * y)
        if y == 0:
            raise _Rev()
        if e.op == "BDiv":
            return _chk(e.ty, _quot(x * DEC_SCALE, y) if d else _quot(x, y))
        return _chk(e.ty, x - _quot(x, y) * y)
    if k == "p2":
        x, y = py_eval(e.a, env), py_eval(e.b, env)
        o = e.op
        if o[0] == "bit":
            return {"BitAnd": x & y, "BitOr": x | y, "BitXor": x ^ y}[o[1]]
        if o[0] == "shl":
            if y >= 256:
                return 0
            w = (x << y) % 2 ** 256
            return w - 2 ** 256 if (o[1][2] and w >= 2 ** 255) else w
        if o[0] == "shr":
            if y >= 256:
                return -1 if x < 0 else 0
            return x >> y
        if o[0] == "cmp":
            return int({"CLt": x < y, "CLe": x <= y, "CGt": x > y, "CGe": x >= y, "CEq": x == y, "CNe": x != y}[o[1]])
        if o[0] == "in":
            return int(((x & y) != 0) != o[1])
    if k == "p1":
        x = py_eval(e.a, env)
        if e.op[0] == "not":
            return int(not x)
        if e.op[0] == "inv":
            return 2 ** 256 - 1 - x
        return x ^ (2 ** e.op[1] - 1)
    if k == "and":
        return py_eval(e.b, env) if py_eval(e.a, env) else 0
    if k == "or":
        return 1 if py_eval(e.a, env) else py_eval(e.b, env)
    if k == "neg":
        return _chk(e.ty, -py_eval(e.a, env))
    if k == "ifexp":
        return py_eval(e.a, env) if py_eval(e.c, env) else py_eval(e.b, env)
    raise ValueError(k)


def rand_val(rnd, t):
    lo, hi = bounds(t)
    if t == DEC:
        c = [0, DEC_SCALE, -DEC_SCALE, 3 * DEC_SCALE + 1, 25 * 10 ** 9, lo, hi, lo + 1, hi - 1, rnd.randrange(-10 ** 22, 10 ** 22),
             rnd.randrange(-10 ** 12, 10 ** 12), rnd.randrange(lo, hi + 1)]
    else:
        c = [0, 1, 2, 3, 7, 8, 255, 256, 257, lo, hi, lo + 1, hi - 1, rnd.randrange(lo, hi + 1), rnd.randrange(lo, hi + 1)]
    return min(max(rnd.choice(c), lo), hi)


def compile_runtime(src, venom):
    import warnings
    from vyper.compiler import compile_code
    with warnings.catch_warnings():
        warnings.simplefilter("ignore")
        out = compile_code(src, output_formats=["bytecode_runtime"], settings=_settings(venom))
    return bytes.fromhex(out["bytecode_runtime"][2:])


def run_evm(code, leaves, e, env):
    """deploy the runtime code, set the state variables through setvars(..), call f(..) -> value / None (revert) / 'error'"""
    from vyper.utils import method_id_int
    from vlib.evm import Chain
    ch = Chain("cancun")
    addr = ch.set_code(None, code)
    if addr is None:
        return "error"
    sender = "0x" + "11" * 20
    sto = [(n, t) for n, t, s in leaves if s]
    loc = [(n, t) for n, t, s in leaves if not s]

    def enc(vals):
        return b"".join((v % 2 ** 256).to_bytes(32, "big") for v in vals)
    if sto:
        sel = method_id_int("setvars(" + ",".join(ty_abi(t) for _, t in sto) + ")").to_bytes(4, "big")
        r = ch.call(addr, sel + enc([env[n] for n, _ in sto]), value=0, sender=sender)
        if not r.ok:
            return "error"
    sel = method_id_int("f(" + ",".join(ty_abi(t) for _, t in loc) + ")").to_bytes(4, "big")
    r = ch.call(addr, sel + enc([env[n] for n, _ in loc]), value=0, sender=sender)
    if not r.ok:
        return None
    w = int.from_bytes(r.out, "big")
    return w - 2 ** 256 if (signed(e.ty) and w >= 2 ** 255) else w


def exec_sample(s, rnd, tries):
    """-> (list of runs [(env, {pipeline: observed})], error text or None)"""
    leaves, e = s["leaves"], s["e"]
    src = program(leaves, e, ret=True)
    codes = {}
    for pipe, venom in (("legacy", False), ("venom", True)):
        try:
            codes[pipe] = compile_runtime(src, venom)
        except Exception as ex:  # noqa
            if type(ex).__name__ == "StaticAssertionException":
                continue        # documented rejection: an assertion that fails on every path (e.g. a constant zero divisor)
            return [], f"{pipe}: {type(ex).__name__}: {str(ex)[:160]}"
    runs = []
    for _ in range(tries):
        env = {n: rand_val(rnd, t) for n, t, _ in leaves}
        obs = {pipe: run_evm(code, leaves, e, env) for pipe, code in codes.items()}
        runs.append((env, obs))
    return runs, None


def expected(e, env):
    try:
        return py_eval(e, env)
    except _Rev:
        return None


def render_legacy(samples):
    out = ["(* GENERATED by tools/vlib/c01_exprx.py: source expressions of the larger fragment (with the cache flags read off the real",
           "   IR) paired with the IR the real legacy front end emits for them at -O none.  Do not edit. *)",
           "From Coq Require Import ZArith List String.",
           "From Verif Require Import Base.Word256 C03.LIR C03.ArithSpec C01.ExprCompile C01.ExprX.",
           "Import ListNotations.", "Open Scope string_scope.", "Open Scope Z_scope.", "",
           "Definition xsamples : list (yexpr * lir) := ["]
    out.append(";\n".join(f"  ({s['legacy']['coq_e']},\n   {s['legacy']['coq_t']})" for s in samples))
    out.append("]%list.")
    return "\n".join(out) + "\n"


# ------------------------------------------------------------------ the check part
def _word(v):
    return v % 2 ** 256


def _search(ctx, s, what, pipes=("legacy", "venom"), tries=24):
    """run `return <expr>` through the whole pipelines on pyrevm with boundary inputs against the source meaning"""
    try:
        runs, err = exec_sample(s, ctx.rng("exprx-search:" + s["src"]), tries)
    except Exception as ex:  # noqa
        return None
    if err:
        return None
    for env, obs in runs:
        exp = expected(s["e"], env)
        for pipe in pipes:
            got = obs.get(pipe)
            if got == "error":
                continue
            if got != exp:
                return {"pipeline": pipe, "source": program(s["leaves"], s["e"], ret=True), "inputs": {n: str(v) for n, v in env.items()},
                        "expected": "revert" if exp is None else str(exp), "evm": "revert" if got is None else str(got),
                        "rule": "source meaning ExprX.yeval (exact result or revert; mirrored in python as py_eval), found while " + what}
    return None


def build_static(ctx):
    b = ctx.coq_build_cached(LEGACY_FILES, deps=C03_DEPS + ["C01/ExprCompile.v", "C01/ExprCompileProofs.v"])
    if not b["ok"]:
        return b
    b = ctx.coq_build_cached(BRIDGE_FILES, deps=C03_DEPS + ["C01/ExprCompile.v", "C01/VyCore.v", "C01/ExprX.v"])
    if not b["ok"]:
        return b
    return ctx.coq_build_cached(VENOM_FILES, deps=C03_DEPS + C01_DEPS + LEGACY_FILES, timeout=900)


def prebuild(ctx):
    build_static(ctx)


def part_expr_x(ctx):
    """expr_x_compile_correct / vexpr_x_compile_correct + their ties (both real front ends, syntactic) + executed samples"""
    import time
    from vlib.common import COQ
    t0 = time.time()
    stats = {"samples": 0, "rejected_by_compiler": 0, "legacy_export_errors": 0, "venom_export_errors": 0, "legacy_tied": 0,
             "venom_tied": 0, "legacy_different": 0, "venom_different": 0, "executed_runs": 0, "executed_reverts": 0}
    b = build_static(ctx)
    if not b["ok"]:
        ctx.violation("theorem-broken", f"{b.get('failed_lemma')} in {b['file']}",
                      {"theorem": b.get("failed_lemma"), "file": b["file"], "coq_output": b["out"][-1500:]})
        ctx.corr["exprx_tie"] = stats
        return 0
    rng = ctx.rng("exprx")
    probes = probe_samples()
    want = len(probes) + (36 if ctx.tier == "quick" else 600)
    samples, kinds, tries = [], {}, 0
    stats["probes"] = len(probes)
    while len(samples) < want and tries < 6 * want:
        s = make_sample(*probes[tries]) if tries < len(probes) else sample(rng, rng.choice([1, 2, 2, 3, 3]))
        tries += 1
        if s is None:
            continue
        if "rejected" in s["legacy"] or "rejected" in s["venom"]:
            stats["rejected_by_compiler"] += 1
            stats.setdefault("rejections", []).append((s["legacy"].get("rejected") or s["venom"].get("rejected"))[:120])
            continue
        for pipe in ("legacy", "venom"):
            if "error" in s[pipe]:
                stats[f"{pipe}_export_errors"] += 1
                if stats[f"{pipe}_export_errors"] <= 2:
                    ff = _search(ctx, s, f"the {pipe} front end emitted code of a shape the model does not produce", pipes=(pipe,))
                    if ff is not None:
                        ctx.violation("failing-input", f"the {pipe} pipeline miscompiles an expression of the larger fragment", ff,
                                      key=f"exprx:{pipe}:" + vy(s["e"])[:60])
                    else:
                        ctx.violation("correspondence-broken", f"the real {pipe} front end emits code of a shape the model (ExprX / VExprX) "
                                      "does not produce", {"source": s["src"], "error": s[pipe]["error"], "real": s[pipe].get("ir", "")[:1500]})
        samples.append(s)
        count_kinds(s["e"], kinds)
    stats["samples"] = len(samples)
    stats["node_kinds"] = kinds
    if stats["rejected_by_compiler"] > max(3, tries // 5):
        ctx.violation("correspondence-broken", "the compiler rejects generated expressions of the larger fragment",
                      {"rejected": stats["rejected_by_compiler"], "generated": tries, "messages": stats.get("rejections", [])[:5]})
    # ---- legacy: GenExprTieX.v + PropsExprX.v (real_ir_correct_x needs every sample to be tied)
    leg = [s for s in samples if "coq_e" in s["legacy"]]
    (COQ / "C01" / "GenExprTieX.v").write_text(render_legacy(leg))
    deps = C03_DEPS + ["C01/ExprCompile.v", "C01/ExprCompileProofs.v", "C01/VyCore.v"] + LEGACY_FILES + BRIDGE_FILES
    bl = ctx.coq_build_cached(["C01/GenExprTieX.v", "C01/PropsExprX.v"], deps=deps)
    if bl["ok"]:
        stats["legacy_tied"] = len(leg)
    else:
        bad = None
        if "PropsExprX" in bl.get("file", "") and (COQ / "C01" / "GenExprTieX.vo").exists():
            try:
                outs = coqrun.eval_cases("From Verif Require Import C01.ExprX C01.GenExprTieX.\nFrom Coq Require Import List.\n",
                                         ["map (fun p => ytie_ok (fst p) (snd p)) xsamples"], "c01xtie")
                flags = [x.strip() for x in outs[0].strip("[] ").split(";")]
                bad = [s for s, f in zip(leg, flags) if f != "true"]
            except Exception as ex:  # noqa
                ctx.log(f"locating the failing legacy sample failed: {ex}")
        if bad:
            stats["legacy_different"] = len(bad)
            stats["legacy_tied"] = len(leg) - len(bad)
            found = 0
            for s in sorted(bad, key=lambda s_: len(s_["src"]))[:10]:
                if found >= 2:
                    break
                ff = _search(ctx, s, "the legacy IR differed from ExprX.ycompile", pipes=("legacy",))
                if ff is not None:
                    found += 1
                    ctx.violation("failing-input", "the legacy pipeline miscompiles an expression of the larger fragment", ff,
                                  key="exprx:legacy:" + vy(s["e"])[:60])
            for s in ([] if found else bad[:2]):
                ctx.violation("theorem-broken", "expr_x_compile_correct does not apply: the real legacy IR of `" + vy(s["e"])[:120] +
                              "` differs from ExprX.ycompile",
                              {"theorem": "real_ir_correct_x (ycompile e <> real IR)", "source": s["src"], "model_term": s["legacy"]["coq_e"][:1500],
                               "real_ir_term": s["legacy"]["coq_t"][:2000]})
        else:
            ctx.violation("theorem-broken", f"{bl.get('failed_lemma')} in {bl['file']}",
                          {"theorem": bl.get("failed_lemma"), "file": bl["file"], "coq_output": bl["out"][-1200:]})
    # ---- Venom: yvtie_ok by vm_compute
    ven = [s for s in samples if "coq_e" in s["venom"]]
    stats["venom_multi_block"] = sum(1 for s in ven if s["venom"]["nblocks"] > 1)
    if ven:
        exprs = [f"[if yvtie_ok {s['venom']['coq_e']} {s['venom']['coq_r']} {s['venom']['coq_b']} then 1 else 0]" for s in ven]
        try:
            res = coqrun.eval_zlists(IMPORTS, exprs, "c01xv", shard=max(1, len(exprs) // 4 + 1), timeout=600)
        except RuntimeError as ex:
            res = None
            ctx.violation("correspondence-broken", "the Venom tie of the larger fragment could not be evaluated in Coq", {"error": str(ex)[-1500:]})
        if res is not None:
            bad = [s for s, r in zip(ven, res) if r != [1]]
            stats["venom_tied"] = len(ven) - len(bad)
            stats["venom_different"] = len(bad)
            found = 0
            for s in sorted(bad, key=lambda s_: len(s_["src"]))[:10]:
                if found >= 2:
                    break
                ff = _search(ctx, s, "the Venom instructions differed from VExprX.ylower", pipes=("venom",))
                if ff is not None:
                    found += 1
                    ctx.violation("failing-input", "the Venom pipeline miscompiles an expression of the larger fragment", ff,
                                  key="exprx:venom:" + vy(s["e"])[:60])
            for s in ([] if found else bad[:2]):
                ctx.violation("theorem-broken", "vexpr_x_compile_correct does not apply: the Venom front end's instructions for `" +
                              vy(s["e"])[:120] + "` differ from VExprX.ylower",
                              {"theorem": "vexpr_x_compile_correct (ylower e <> real output)", "source": s["src"],
                               "real_result": s["venom"]["coq_r"], "real_blocks": s["venom"]["coq_b"][:3000], "expr": s["venom"]["coq_e"][:1500]})
    # ---- executed: whole pipelines on pyrevm vs the Coq meaning yeval (and its python mirror)
    nexec, ntries = (12, 3) if ctx.tier == "quick" else (120, 5)
    rx = ctx.rng("exprx-exec")
    cand = [s for s in samples if "coq_e" in s["venom"]]
    np_ = len(probes)
    off = rx.randrange(max(1, np_))
    todo = [cand[(off + 5 * i) % np_] for i in range(nexec // 2) if np_ <= len(cand)] + cand[np_:np_ + nexec - nexec // 2]
    cases = []
    for s in todo:
        try:
            runs, err = exec_sample(s, rx, ntries)
        except Exception as ex:  # noqa
            runs, err = [], f"{type(ex).__name__}: {ex}"
        if err:
            stats.setdefault("exec_errors", []).append(err[:160])
            if len(stats["exec_errors"]) <= 1:
                ctx.violation("correspondence-broken", "an executed sample of the larger fragment could not be compiled as `return <expr>`",
                              {"source": program(s["leaves"], s["e"], ret=True), "error": err[:400]})
            continue
        names = s["venom"]["names"]
        for env, obs in runs:
            rho = "[" + "; ".join(f'("{names[n]}", {zl(v)})' for n, v in env.items()) + "]"
            cases.append((s, env, obs, f"match yeval {rho} {s['venom']['coq_e']} with Val v => [1; wrap v] | Revert => [2] | _ => [3] end"))
    if cases:
        try:
            res = coqrun.eval_zlists(IMPORTS, [c[3] for c in cases], "c01xe", shard=max(1, len(cases) // 3 + 1), timeout=600)
        except RuntimeError as ex:
            res = None
            ctx.violation("correspondence-broken", "ExprX.yeval could not be evaluated on the executed samples", {"error": str(ex)[-1500:]})
        reported = 0
        for (s, env, obs, _), r in zip(cases, res or []):
            stats["executed_runs"] += 1
            exp = expected(s["e"], env)
            coq = None if r == [2] else (r[1] if len(r) == 2 and r[0] == 1 else "stuck")
            if coq == "stuck" or (coq is None) != (exp is None) or (coq is not None and coq != _word(exp)):
                ctx.violation("correspondence-broken", "ExprX.yeval and its python mirror py_eval disagree (harness defect)",
                              {"source": s["src"], "inputs": {n: str(v) for n, v in env.items()}, "coq": str(coq), "python": str(exp)})
                break
            if exp is None:
                stats["executed_reverts"] += 1
            for pipe, got in obs.items():
                if got == "error":
                    continue
                ok = (got is None and coq is None) or (got is not None and coq is not None and _word(got) == coq)
                if not ok and reported < 2:
                    reported += 1
                    ctx.violation("failing-input", f"the {pipe} pipeline disagrees with the source meaning of an expression of the larger fragment",
                                  {"pipeline": pipe, "source": program(s["leaves"], s["e"], ret=True), "inputs": {n: str(v) for n, v in env.items()},
                                   "expected": "revert" if exp is None else str(exp), "evm": "revert" if got is None else str(got),
                                   "rule": "ExprX.yeval evaluated by vm_compute on these inputs"},
                                  key=f"exprx:{pipe}:" + vy(s["e"])[:60])
    stats["seconds"] = round(time.time() - t0, 1)
    ctx.corr["exprx_tie"] = stats
    ctx.log("exprx " + " ".join(f"{k}={v}" for k, v in stats.items() if k not in ("node_kinds", "rejections")))
    if samples:
        ctx.samples.append({"exprx": vy(samples[0]["e"])[:200]})
    return stats["legacy_tied"] + stats["venom_tied"] + stats["executed_runs"]
