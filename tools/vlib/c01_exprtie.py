"""O-tie for expr_compile_correct: generate integer/bool expressions over locals, compile them with the REAL legacy front
end (-O none, so the IR is the front end's own output), export the IR subtree of the assignment's right-hand side as a
C03/LIR.v term, and emit coq/C01/GenExprTie.v pairing each source expression (with the cache flags the real compiler
chose, read off the IR shape) with the real IR.  Coq then checks `compile e = real IR` syntactically (vm_compute)."""
from pathlib import Path

from vlib.c03_export import OP1, OP2, OP3, zl, ExportError

TYPES = [(32, False), (32, True), (16, True), (16, False), (1, False), (1, True), (8, False), (31, False), (5, True)]
BOPS = {"BAdd": "+", "BSub": "-", "BMul": "*", "BDiv": "//", "BMod": "%"}
BITS = {"BitAnd": "&", "BitOr": "|", "BitXor": "^"}
COPS = {"CLt": "<", "CLe": "<=", "CGt": ">", "CGe": ">=", "CEq": "==", "CNe": "!="}


def ty_vy(t):
    return "bool" if t == "bool" else f"{'int' if t[1] else 'uint'}{8 * t[0]}"


def nty(t):
    return f"(Build_nty {t[0]} {'true' if t[1] else 'false'} false)"


def sty(t):
    return "SBool" if t == "bool" else f"(SInt {nty(t)})"


def bounds(t):
    k, s = t
    return (-(2 ** (8 * k - 1)), 2 ** (8 * k - 1) - 1) if s else (0, 2 ** (8 * k) - 1)


class X:
    def __init__(self, k, ty, **f):
        self.k, self.ty, self.f = k, ty, f

    def __getattr__(self, n):
        if n in ("k", "ty", "f") or n.startswith("__"):
            raise AttributeError(n)
        return self.f[n]


class ExprGen:
    def __init__(self, rng, locals_):
        self.r, self.locals = rng, locals_     # locals: [(name, ty)]

    def lit(self, t):
        lo, hi = bounds(t)
        r = self.r
        v = r.choice([0, 1, 2, 3, 7, 10, hi, lo, hi - 1, lo + 1, r.randrange(lo, hi + 1)])
        return X("int", t, v=min(max(v, lo), hi))

    def var(self, t):
        c = [n for n, vt in self.locals if vt == t]
        return X("var", t, name=self.r.choice(c)) if c else None

    def int_expr(self, t, d, allow_lit=True):
        r = self.r
        opts = ["var"] * 3 + (["lit"] if allow_lit else [])
        if d > 0:
            opts += ["bin"] * 5 + ["ifexp"]
            if t[1]:
                opts += ["neg"]
            else:
                opts += ["bit"] * 2
        k = r.choice(opts)
        if k == "var":
            return self.var(t) or self.lit(t)
        if k == "lit":
            return self.lit(t)
        if k == "bin":
            op = r.choice(list(BOPS))
            a = self.int_expr(t, d - 1)
            b = self.int_expr(t, d - 1, allow_lit=(a.k != "int"))
            if a.k == "int" and b.k == "int":
                b = self.var(t) or b
            if op in ("BDiv", "BMod") and b.k == "int" and b.v == 0:
                b = X("int", t, v=1)
            if a.k == "int" and b.k == "int":
                return a
            return X("bin", t, op=op, a=a, b=b)
        if k == "bit":
            a = self.int_expr(t, d - 1, allow_lit=False)
            b = self.int_expr(t, d - 1)
            if r.random() < 0.5 and b.k != "int":
                a, b = b, a
            if a.k == "int" and b.k == "int":
                return a
            return X("bit", t, op=r.choice(list(BITS)), a=a, b=b)
        if k == "neg":
            a = self.int_expr(t, d - 1, allow_lit=False)
            if a.k == "int":
                return a
            return X("neg", t, a=a)
        c = self.bool_expr(d - 1)
        a = self.novar(lambda: self.int_expr(t, d - 1, allow_lit=False), lambda: X("bin", t, op="BAdd", a=self.var(t) or self.lit(t), b=X("int", t, v=1)))
        b = self.novar(lambda: self.int_expr(t, d - 1), lambda: self.lit(t))
        if a.k == "int" and b.k == "int":
            return a
        if a.k == "bin" and a.a.k == "int" and a.b.k == "int":
            return a.a
        return X("ifexp", t, c=c, a=a, b=b)

    def novar(self, gen, fallback):
        """IfExp branches must not be bare variables (the compiler then selects between locations)"""
        for _ in range(4):
            e = gen()
            if e.k != "var":
                return e
        return fallback()

    def bool_expr(self, d):
        r = self.r
        opts = ["cmp"] * 4 + (["var"] if any(vt == "bool" for _, vt in self.locals) else [])
        if d > 0:
            opts += ["and", "or", "not", "ifexp", "bcmp"]
        k = r.choice(opts)
        if k == "var":
            return self.var("bool")
        if k == "cmp" or d <= 0:
            t = r.choice(sorted({vt for _, vt in self.locals if vt != "bool"}))
            a = self.int_expr(t, max(d - 1, 0), allow_lit=False)
            b = self.int_expr(t, max(d - 1, 0))
            if a.k == "int" and b.k == "int":
                a = self.var(t) or a
            if r.random() < 0.3:
                a, b = b, a
            if a.k == "int" and b.k == "int":
                return X("cmp", "bool", op="CEq", t=t, a=self.var(t), b=b) if self.var(t) else X("bool", "bool", v=True)
            return X("cmp", "bool", op=r.choice(list(COPS)), t=t, a=a, b=b)
        if k == "bcmp":
            return X("cmp", "bool", op=r.choice(["CEq", "CNe"]), t="bool", a=self.bool_expr(d - 1), b=self.bool_expr(d - 1))
        if k in ("and", "or"):
            return X(k, "bool", a=self.bool_expr(d - 1), b=self.bool_expr(d - 1))
        if k == "not":
            return X("not", "bool", a=self.bool_expr(d - 1))
        nv = lambda: self.novar(lambda: self.bool_expr(d - 1), lambda: X("not", "bool", a=self.bool_expr(0)))
        return X("ifexp", "bool", c=self.bool_expr(d - 1), a=nv(), b=nv())


def vy(e):
    k = e.k
    if k == "int":
        return str(e.v)
    if k == "bool":
        return "True" if e.v else "False"
    if k == "var":
        return e.name
    if k == "bin":
        return f"({vy(e.a)} {BOPS[e.op]} {vy(e.b)})"
    if k == "bit":
        return f"({vy(e.a)} {BITS[e.op]} {vy(e.b)})"
    if k == "cmp":
        return f"({vy(e.a)} {COPS[e.op]} {vy(e.b)})"
    if k in ("and", "or"):
        return f"({vy(e.a)} {k} {vy(e.b)})"
    if k == "not":
        return f"(not {vy(e.a)})"
    if k == "neg":
        return f"(-{vy(e.a)})"
    if k == "ifexp":
        return f"({vy(e.a)} if {vy(e.c)} else {vy(e.b)})"
    raise ValueError(k)


# ------------------------------------------------------------------ real IR -> lir term (locals: (mload K) -> LVar "mK")
def lir_term(n):
    v, args = n.value, n.args
    if isinstance(v, int):
        if args:
            raise ExportError(f"literal with args: {n!r}")
        return f"(LInt {zl(v)})"
    if not isinstance(v, str):
        raise ExportError(f"unsupported node value {v!r}")
    if v == "mload" and len(args) == 1 and isinstance(args[0].value, int) and not args[0].args:
        return f'(LVar "m{args[0].value}")'
    if v == "with":
        if len(args) != 3 or not isinstance(args[0].value, str) or args[0].args:
            raise ExportError(f"bad with: {n!r}")
        return f'(LWith "{args[0].value}" {lir_term(args[1])} {lir_term(args[2])})'
    a = [lir_term(x) for x in args]
    if v == "seq":
        if not a:
            return "LPass"
        t = a[-1]
        for x in reversed(a[:-1]):
            t = f"(LSeq {x} {t})"
        return t
    if v == "assert" and len(a) == 1:
        return f"(LAssert {a[0]})"
    if v == "if" and len(a) == 3:
        return f"(LIf {a[0]} {a[1]} {a[2]})"
    if v in OP1 and len(a) == 1:
        return f"(L1 {OP1[v]} {a[0]})"
    if v in OP2 and len(a) == 2:
        return f"(L2 {OP2[v]} {a[0]} {a[1]})"
    if v in OP3 and len(a) == 3:
        return f"(L3 {OP3[v]} {a[0]} {a[1]} {a[2]})"
    if not a and v.replace("_", "").isalnum() and v not in OP1 and v not in OP2 and v not in OP3:
        return f'(LVar "{v}")'
    raise ExportError(f"IR node outside the LIR subset: {v} / {len(a)} args")


class Mismatch(Exception):
    pass


def is_with(n, name):
    return n.value == "with" and len(n.args) == 3 and n.args[0].value == name


def strip_seq(n):
    """(seq X) wrappers around a single value"""
    while n.value == "seq" and len(n.args) == 1:
        n = n.args[0]
    return n


def annotate(e, n, addr):
    """source expression + real IR node -> Coq sexpr term carrying the cache flags the real compiler chose"""
    n = strip_seq(n)
    k = e.k
    if k == "int":
        return f"(XInt {nty(e.ty)} {zl(e.v)})"
    if k == "bool":
        return f"(XBool {'true' if e.v else 'false'})"
    if k == "var":
        return f'(XVar "m{addr[e.name]}" {sty(e.ty)})'
    if k == "bin":
        if is_with(n, "x"):
            ia, a_s, n = "false", annotate(e.a, n.args[1], addr), strip_seq(n.args[2])
        else:
            ia, a_s = "true", annotate(e.a, n, addr) if e.a.k == "int" else None
            if a_s is None:
                raise Mismatch("left operand neither cached nor a literal")
        if is_with(n, "y"):
            ib, b_s, n = "false", annotate(e.b, n.args[1], addr), strip_seq(n.args[2])
        else:
            ib, b_s = "true", annotate(e.b, n, addr) if e.b.k == "int" else None
            if b_s is None:
                raise Mismatch("right operand neither cached nor a literal")
        i1 = "false" if n.value == "with" else "true"
        return f"(XBin {e.op} {nty(e.ty)} {ia} {ib} {i1} false {a_s} {b_s})"
    if k == "bit":
        if len(n.args) != 2:
            raise Mismatch("bit op arity")
        return f"(XBit {e.op} {nty(e.ty)} {annotate(e.a, n.args[1], addr)} {annotate(e.b, n.args[0], addr)})"
    if k == "cmp":
        if len(n.args) != 2:
            raise Mismatch("compare arity")
        return f"(XCmp {e.op} {sty(e.t)} {annotate(e.a, n.args[1], addr)} {annotate(e.b, n.args[0], addr)})"
    if k == "and":
        if n.value != "if" or len(n.args) != 3:
            raise Mismatch("and shape")
        return f"(XAnd {annotate(e.a, n.args[0], addr)} {annotate(e.b, n.args[1], addr)})"
    if k == "or":
        if n.value != "if" or len(n.args) != 3:
            raise Mismatch("or shape")
        return f"(XOr {annotate(e.a, n.args[0], addr)} {annotate(e.b, n.args[2], addr)})"
    if k == "not":
        if n.value != "iszero":
            raise Mismatch("not shape")
        return f"(XNot {annotate(e.a, n.args[0], addr)})"
    if k == "neg":
        if n.value != "sub" or len(n.args) != 2:
            raise Mismatch("neg shape")
        c = strip_seq(n.args[1])
        if is_with(c, "clamp_arg"):
            return f"(XNeg {nty(e.ty)} false {annotate(e.a, c.args[1], addr)})"
        if e.a.k != "int":
            raise Mismatch("USub operand neither cached nor a literal")
        return f"(XNeg {nty(e.ty)} true {annotate(e.a, c, addr)})"
    if k == "ifexp":
        if n.value != "if" or len(n.args) != 3:
            raise Mismatch("ifexp shape")
        return f"(XIf {annotate(e.c, n.args[0], addr)} {annotate(e.a, n.args[1], addr)} {annotate(e.b, n.args[2], addr)})"
    raise ValueError(k)


def real_ir(src):
    from vyper.compiler.input_bundle import FileInput
    from vyper.compiler.phases import CompilerData
    from vyper.compiler.settings import OptimizationLevel, Settings
    fi = FileInput(0, Path("expr.vy"), Path("expr.vy"), src)
    cd = CompilerData(fi, settings=Settings(optimize=OptimizationLevel.NONE, experimental_codegen=False))
    return cd.ir_runtime


def find_mstores(n, out):
    if n.value == "mstore" and len(n.args) == 2 and isinstance(n.args[0].value, int) and not n.args[0].args:
        out.append(n)
    for a in n.args:
        find_mstores(a, out)


def sample(rng, depth):
    """-> dict(src, e, coq_e, coq_t) or dict(error=...)"""
    nloc = rng.randrange(2, 5)
    tys = [rng.choice(TYPES) for _ in range(rng.randrange(1, 3))]
    locals_ = [(f"v{i}", rng.choice(tys + (["bool"] if rng.random() < 0.3 else []))) for i in range(nloc)]
    if all(t == "bool" for _, t in locals_):
        locals_[0] = ("v0", tys[0])
    g = ExprGen(rng, locals_)
    rt = rng.choice(sorted({t for _, t in locals_ if t != "bool"}) + ["bool"])
    e = g.bool_expr(depth) if rt == "bool" else g.int_expr(rt, depth, allow_lit=False)
    if e.k in ("int", "bool", "var"):
        e = g.bool_expr(depth) if rt == "bool" else X("bin", rt, op="BAdd", a=e, b=g.var(rt) or g.lit(rt))
        if e.k == "bin" and e.a.k == "int" and e.b.k == "int":
            return None
    lines = ["@external", "def f(" + ", ".join(f"p{i}: {ty_vy(t)}" for i, (_, t) in enumerate(locals_)) + "):"]
    for i, (n, t) in enumerate(locals_):
        lines.append(f"    {n}: {ty_vy(t)} = p{i}")
    lines.append(f"    r: {ty_vy(e.ty)} = {vy(e)}")
    src = "\n".join(lines) + "\n"
    try:
        ir = real_ir(src)
    except Exception as ex:
        return {"src": src, "rejected": f"{type(ex).__name__}: {str(ex)[:200]}"}
    st = []
    find_mstores(ir, st)
    # the frame holds the locals in declaration order, 32 bytes each; the last store is `r`
    by_addr = {}
    for n in st:
        by_addr.setdefault(n.args[0].value, n)
    addrs = sorted(by_addr)
    if len(addrs) < nloc + 1:
        return {"src": src, "error": f"expected {nloc + 1} local stores, found {len(addrs)}"}
    frame = addrs[-(nloc + 1):]
    if any(frame[i + 1] - frame[i] != 32 for i in range(nloc)):
        return {"src": src, "error": f"unexpected frame layout {frame}"}
    addr = {n: frame[i] for i, (n, _) in enumerate(locals_)}
    node = by_addr[frame[-1]].args[1]
    try:
        return {"src": src, "e": e, "coq_e": annotate(e, node, addr), "coq_t": lir_term(node),
                "locals": [(f"m{addr[n]}", t) for n, t in locals_]}
    except (Mismatch, ExportError) as ex:
        return {"src": src, "error": f"{type(ex).__name__}: {ex}", "ir": repr(node)[:1500]}


def render(samples):
    out = ["(* GENERATED by tools/vlib/c01_exprtie.py: source expressions (with the cache flags read off the real IR) paired with",
           "   the IR the real legacy front end emits for them at -O none.  Do not edit. *)",
           "From Coq Require Import ZArith List String.",
           "From Verif Require Import Base.Word256 C03.LIR C03.ArithSpec C01.ExprCompile.",
           "Import ListNotations.", "Open Scope string_scope.", "Open Scope Z_scope.", "",
           "Definition samples : list (sexpr * lir) := ["]
    out.append(";\n".join(f"  ({s['coq_e']},\n   {s['coq_t']})" for s in samples))
    out.append("]%list.")
    return "\n".join(out) + "\n"
