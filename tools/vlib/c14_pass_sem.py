"""C14 (pass level), stage 2: Coq semantics of core Venom (coq/C14/Venom*.v).

 * GenEffects.v is regenerated from vyper/venom/effects.py (the `reads` / `writes` tables the passes consult) and
   PropsVenom.v re-proves `effects_cover_semantics` and `commute_if_effects_disjoint` against it;
 * per-pass translation validation: for pass invocations whose before/after IR is in the modelled core, `vrun` is evaluated
   (vm_compute) on both with the same inputs and the observable traces are compared;
 * tie of Venom.v to the real back end: snapshots are compiled by the real Venom back end and run on pyrevm vs `vrun`.
"""
import json
import os
import re
import time

from vlib import c14_pass_export as X
from vlib import coqrun
from vlib.common import COQ

EFF_NAMES = ["STORAGE", "TRANSIENT", "MEMORY", "IMMUTABLES", "RETURNDATA", "LOG", "BALANCE", "EXTCODE", "FMP"]
STATIC = ["C14/Venom.v", "C14/VenomProofs.v", "C14/VenomNames.v"]
VAL_STATIC = ["C14/VenomSim.v", "C14/ValRUV.v", "C14/ValDFT.v", "C14/ValCopy.v", "C14/Liveness.v", "C14/PropsVal.v",
              "C14/VenomCall.v", "C14/VenomCallSim.v", "C14/ValCall.v", "C14/PropsCall.v"]
VALIDATED = ("RemoveUnusedVariablesPass", "AssignElimination", "SingleUseExpansion", "DFTPass")
TV_MISMATCHES = set()        # (program, level, pass invocation index) reported by the vrun differential in this run
FUEL = 4000


class GenError(Exception):
    pass


def gen_effects():
    """vyper.venom.effects.{reads,writes} (opcode -> Effects flag set) -> Gallina string -> list eff"""
    import vyper.venom.effects as EF
    members = [m.name for m in EF.Effects]
    if sorted(members) != sorted(EFF_NAMES):
        raise GenError(f"Effects members changed: {members} (Venom.v models {EFF_NAMES})")

    def flags(v):
        if not isinstance(v, EF.Effects):
            raise GenError(f"effect table value {v!r} is not an Effects flag")
        return "[" + "; ".join(m.name for m in EF.Effects if m in v) + "]"

    def table(name, d):
        if not isinstance(d, dict) or not all(isinstance(k, str) for k in d):
            raise GenError(f"effects.{name} is not a dict keyed by opcode name")
        body = ""
        for k in sorted(d):
            body += f'  if String.eqb n "{k}" then {flags(d[k])} else\n'
        return f"Definition gen_{name} (n : string) : list eff :=\n{body}  [].\n"

    out = ("(* GENERATED from vyper/venom/effects.py by tools/vlib/c14_pass_sem.py -- do not edit *)\n"
           "From Coq Require Import List String.\nFrom Verif Require Import C14.Venom.\nImport ListNotations.\n"
           "Open Scope string_scope.\n\n")
    out += table("reads", EF.reads) + "\n" + table("writes", EF.writes)
    out += "\n" + gen_baseptr()
    # the lookup helpers the passes use must be plain dict lookups with EMPTY default
    import inspect
    from vyper.venom.basicblock import IRInstruction
    src = inspect.getsource(IRInstruction.get_read_effects) + inspect.getsource(IRInstruction.get_write_effects)
    if "effects.reads.get(self.opcode, effects.EMPTY)" not in src or "effects.writes.get(self.opcode, effects.EMPTY)" not in src:
        raise GenError("IRInstruction.get_read_effects/get_write_effects no longer read effects.reads/writes directly")
    return out


BP_PROBE = """
function probe {
  probe:
    %1 = sload 1
    sstore 1, %1
    %2 = tload 1
    tstore 1, %2
    %3 = mload 64
    mstore 64, %3
    mcopy 64, 96, 32
    calldatacopy 64, 0, 32
    %4 = sha3 64, 32
    log 64, 32, 0
    %5 = call 0, 1, 0, 64, 32, 64, 32
    %6 = staticcall 0, 1, 64, 32, 64, 32
    %7 = delegatecall 0, 1, 64, 32, 64, 32
    %8 = create 0, 64, 32
    %9 = create2 0, 64, 32, 7
    %10 = add 1, 2
    %11 = balance 1
    %12 = extcodesize 1
    %13 = returndatasize
    returndatacopy 64, 0, 0
    stop
}
"""


def gen_baseptr():
    """the second effect kernel the store-eliminating passes use: BasePtrAnalysis.get_read_location / get_write_location for
    the STORAGE and TRANSIENT address spaces (EMPTY = `the instruction does not touch this space`), observed on the real
    analysis for one probe instruction per opcode"""
    from vyper.evm.address_space import STORAGE, TRANSIENT
    from vyper.venom.analysis import IRAnalysesCache
    from vyper.venom.analysis.base_ptr_analysis import BasePtrAnalysis
    from vyper.venom.memory_location import MemoryLocation
    from vyper.venom.parser import parse_venom
    try:
        ctx = parse_venom(BP_PROBE)
        fn = list(ctx.functions.values())[0]
        bp = IRAnalysesCache(fn).request_analysis(BasePtrAnalysis)
        rd, wr = {}, {}
        for inst in fn.entry.instructions:
            r, w = [], []
            for name, sp in (("STORAGE", STORAGE), ("TRANSIENT", TRANSIENT)):
                if bp.get_read_location(inst, sp) != MemoryLocation.EMPTY:
                    r.append(name)
                if bp.get_write_location(inst, sp) != MemoryLocation.EMPTY:
                    w.append(name)
            if inst.opcode in rd and (rd[inst.opcode], wr[inst.opcode]) != (r, w):
                raise GenError(f"two probes of {inst.opcode} disagree")
            rd[inst.opcode], wr[inst.opcode] = r, w
    except GenError:
        raise
    except Exception as e:  # noqa
        raise GenError(f"cannot observe BasePtrAnalysis on the probe function: {type(e).__name__}: {e}")

    def table(name, d):
        body = ""
        for k in sorted(d):
            if d[k]:
                body += f'  if String.eqb n "{k}" then [{"; ".join(d[k])}] else\n'
        return f"Definition gen_{name} (n : string) : list eff :=\n{body}  [].\n"
    probed = "[" + "; ".join(f'"{k}"' for k in sorted(rd)) + "]"
    return (table("bp_reads", rd) + "\n" + table("bp_writes", wr) + f"\nDefinition gen_bp_probed : list string := {probed}.\n")


def build_proofs(ctx):
    """-> (ok, model_ok, failure record or None)"""
    try:
        (COQ / "C14" / "GenEffects.v").write_text(gen_effects())
    except GenError as e:
        ctx.violation("translator-rejected", f"cannot export vyper/venom/effects.py: {e}", {"error": str(e)})
        return False, (COQ / "C14" / "Venom.vo").exists(), None
    b = ctx.coq_build_cached(STATIC)
    if not b["ok"]:
        return False, "Venom.v" not in b.get("file", "").replace("VenomProofs.v", "").replace("VenomNames.v", ""), b
    b = ctx.coq_build_cached(["C14/GenEffects.v", "C14/PropsVenom.v"], deps=STATIC)
    if not b["ok"]:
        return False, True, b
    # proved validators (static; they do not depend on generated files)
    b = ctx.coq_build_cached(VAL_STATIC, deps=STATIC)
    if not b["ok"]:
        return False, True, b
    return True, True, None


# =============================================================================================== translation validation
ADDR_WORD = 0x2222
ENV_FIXED = {"timestamp": 1000, "number": 1, "chainid": 1}


def _words(inp, address):
    s = int(inp["sender"], 16)
    return dict(ENV_FIXED, caller=s, origin=s, callvalue=inp["value"], address=address)


def _keccak(b):
    from eth_utils import keccak
    return int.from_bytes(keccak(bytes(b)), "big")


HEADER = ("From Verif Require Import Base.Word256 C14.Venom C14.VenomCall.\n"
          f"Definition FUEL : nat := {FUEL}%nat.\n"
          "Definition tvc (ra rb : chalt * store) (S : store) : list Z :=\n"
          "  let c := obs_cmp (cobserve S ra) (cobserve S rb) in\n"
          "  if c =? 1 then c :: cstuck_info ra ++ (-1) :: cstuck_info rb ++ [-2] else [c; -2].\n")

_INVOKE_RE = re.compile(r'invoke @("(?:[^"\\]|\\.)*"|[0-9A-Za-z_]+)')


def fn_norm(name):
    """function names are recorded as printed labels (quoted when not an identifier)"""
    if name.startswith('"'):
        try:
            return json.loads(name)
        except ValueError:
            return name.strip('"')
    return name


def split_data(text):
    """snapshot text = function + data segment -> (function part, data part)"""
    k = text.find("\ndata readonly {")
    return (text, "") if k < 0 else (text[:k], text[k:])


class Group:
    """all selected pass invocations of one (program, level): shares function definitions, contexts and inputs.
    A configuration = (text of the function the run starts in, the other functions of the context); it is what `crun`
    (coq/C14/VenomCall.v) is evaluated on."""

    def __init__(self, prog, level, inputs, storages, texts=None, top="runtime"):
        self.prog, self.level, self.inputs, self.storages = prog, level, inputs, storages
        self.texts = texts or {}         # hash -> function text (context functions recorded by the harness)
        self.top = top
        self.pairs = []                  # (snap record, configuration id before, configuration id after)
        self.meta = {}                   # function text hash -> export dict
        self.fname = {}                  # function text hash -> function name
        self.cfgs = {}                   # configuration id -> (top hash, {callee name: hash})
        self.ctxs = {}                   # context key -> {callee name: hash}
        self.fn_index = {}
        self.namers = {}
        self.hashes = [dict() for _ in inputs]     # per input: preimage(bytes) -> digest
        self.defs_module = None

    def register(self, snaps):
        names = {fn_norm(s["fn"]) for s in snaps}
        for s in snaps:
            for k in ("ctx", "ctx_before", "ctx_after"):
                names |= {fn_norm(n) for n in (s.get(k) or {})}
        self.fn_index = {n: k for k, n in enumerate(sorted(names))}

    def _export(self, h, name, text):
        if h not in self.meta:
            name = fn_norm(name)
            nm = self.namers.get(name)
            if nm is None:
                nm = self.namers[name] = X.Namer(fn_index=self.fn_index, fn_k=self.fn_index.get(name, 0) + 1)
            self.meta[h] = X.export_text(text, nm)
            self.fname[h] = name
        return self.meta[h] is not None

    def _config(self, top_h, top_text, callees):
        """callees: {name: hash}; keep those reachable through invoke; -> configuration id or None"""
        if not self._export(top_h, self.top, top_text):
            return None
        reach, work = {}, [top_text]
        by_name = {fn_norm(n): h for n, h in callees.items()}
        while work:
            t = work.pop()
            for m in _INVOKE_RE.finditer(t):
                n = fn_norm(m.group(1))
                if n in by_name and n not in reach:
                    h = by_name[n]
                    txt = self.texts.get(h)
                    if txt is None or not self._export(h, n, txt):
                        return None
                    reach[n] = h
                    work.append(txt)
        ckey = X.text_hash("|".join(f"{n}:{h}" for n, h in sorted(reach.items())))[:10]
        self.ctxs[ckey] = reach
        cid = f"{top_h}_{ckey}"
        self.cfgs[cid] = (top_h, ckey)
        return cid

    def add_contexts(self, snap, before, after):
        """before / after: {function name: text hash} of two whole contexts (e.g. around FunctionInlinerPass)"""
        tb = [h for n, h in before.items() if fn_norm(n) == self.top]
        ta = [h for n, h in after.items() if fn_norm(n) == self.top]
        if not tb or not ta or tb[0] not in self.texts or ta[0] not in self.texts:
            return False
        cb = self._config(tb[0], self.texts[tb[0]], {n: h for n, h in before.items() if fn_norm(n) != self.top})
        ca = self._config(ta[0], self.texts[ta[0]], {n: h for n, h in after.items() if fn_norm(n) != self.top})
        if cb is None or ca is None:
            return False
        self.pairs.append((snap, cb, ca))
        return True

    def add(self, snap):
        if snap["fn"] == "<ctx>":
            return self.add_contexts(snap, snap["ctx_before"], snap["ctx_after"])
        hb, ha = X.text_hash(snap["before"]), X.text_hash(snap["after"])
        ctx = dict(snap.get("ctx", {}))
        fn = fn_norm(snap["fn"])
        if fn == self.top:
            cb = self._config(hb, snap["before"], ctx)
            ca = self._config(ha, snap["after"], ctx)
        else:
            # a pass on an internal function: the runs start in `runtime` as it is at that moment
            tops = [h for n, h in ctx.items() if fn_norm(n) == self.top]
            if not tops or tops[0] not in self.texts:
                return False
            self.texts[hb], self.texts[ha] = snap["before"], snap["after"]
            cb = self._config(tops[0], self.texts[tops[0]], dict(ctx, **{snap["fn"]: hb}))
            ca = self._config(tops[0], self.texts[tops[0]], dict(ctx, **{snap["fn"]: ha}))
            if cb == ca:
                return False           # the function is not reachable from `runtime`
        if cb is None or ca is None:
            return False
        self.pairs.append((snap, cb, ca))
        return True

    def context_text(self, cid):
        """the configuration as one Venom source (all functions + the data segment), for the real back end"""
        top_h, ckey = self.cfgs[cid]
        top_text = self._text(top_h)
        body, data = split_data(top_text)
        parts = [body] + [split_data(self._text(h))[0] for _, h in sorted(self.ctxs[ckey].items())]
        return "\n\n".join(parts) + data

    def _text(self, h):
        if h in self.texts:
            return self.texts[h]
        for s, _, _ in self.pairs:
            if X.text_hash(s["before"]) == h:
                return s["before"]
            if X.text_hash(s["after"]) == h:
                return s["after"]
        raise KeyError(h)

    def _defs(self, cids):
        fhs, cks = set(), set()
        for c in cids:
            top_h, ckey = self.cfgs[c]
            fhs.add(top_h)
            cks.add(ckey)
            fhs |= set(self.ctxs[ckey].values())
        out = [f"Definition f_{h} : func := {self.meta[h]['term']}." for h in sorted(fhs)]
        for ck in sorted(cks):
            items = "; ".join(f"({X.FN_BASE + self.fn_index[n]}%positive, f_{h})" for n, h in sorted(self.ctxs[ck].items()))
            out.append(f"Definition C_{ck} : ctxt := ctxt_of [{items}].")
        return out

    def compile_defs(self, tag):
        """function and context terms are type-checked once per group (a .vo under coq/cases), not once per evaluation round"""
        mod = f"c14snap_{tag}"
        path = COQ / "cases" / f"{mod}.v"
        path.parent.mkdir(exist_ok=True)
        body = ["From Verif Require Import Base.Word256 C14.Venom C14.VenomCall.", "From Coq Require Import ZArith List.",
                "Import ListNotations.", "Open Scope Z_scope."]
        body += self._defs({c for pr in self.pairs for c in pr[1:]})
        path.write_text("\n".join(body) + "\n")
        r = coqrun.coqc(path, timeout=600)
        if not r["ok"]:
            raise RuntimeError("snapshot definitions rejected by coqc: " + r["out"][-1500:])
        self.defs_module = mod

    def cleanup(self):
        if self.defs_module:
            base = COQ / "cases" / self.defs_module
            for ext in (".v", ".vo", ".vok", ".vos", ".glob"):
                try:
                    (base.parent / (base.name + ext)).unlink()
                except OSError:
                    pass
            aux = base.parent / ("." + base.name + ".aux")
            if aux.exists():
                aux.unlink()

    def coq(self, todo):
        """todo: list of (pair index, input index, storage index) -> (imports, exprs)"""
        out = [HEADER.replace("C14.VenomCall.", f"C14.VenomCall cases.{self.defs_module}.") if self.defs_module else HEADER]
        if not self.defs_module:
            out += self._defs({c for (p, _, _) in todo for c in self.pairs[p][1:]})
        for i in sorted({i for (_, i, _) in todo}):
            inp = self.inputs[i]
            tbl = [(list(k), v) for k, v in sorted(self.hashes[i].items())]
            out.append(f"Definition E{i} : env := {X.coq_env(bytes.fromhex(inp['data']), _words(inp, ADDR_WORD), tbl)}.")
        for j in sorted({j for (_, _, j) in todo}):
            out.append(f"Definition S{j} : store := {X.coq_store(self.storages[j])}.")
        runs = sorted({(c, i, j) for (p, i, j) in todo for c in self.pairs[p][1:]})
        for c, i, j in runs:
            top_h, ck = self.cfgs[c]
            out.append(f"Definition r_{c}_{i}_{j} := Eval vm_compute in (crun FUEL E{i} no_oracle C_{ck} f_{top_h} S{j}).")
        exprs = []
        by_pair = {}
        for (p, i, j) in todo:
            by_pair.setdefault(p, []).append((i, j))
        order = []
        for p, ijs in sorted(by_pair.items()):
            _, hb, ha = self.pairs[p]
            exprs.append(" ++ ".join(f"tvc r_{hb}_{i}_{j} r_{ha}_{i}_{j} S{j}" for i, j in ijs))
            order.append((p, ijs))
        return "\n".join(out) + "\n", exprs, order


def _split(zs):
    out, cur = [], []
    for z in zs:
        if z == -2:
            out.append(cur)
            cur = []
        else:
            cur.append(z)
    return out


def _needs(info):
    """stuck_info a ++ [-1] ++ stuck_info b -> list of preimages needed, list of reasons"""
    parts, cur = [], []
    for z in info:
        if z == -1:
            parts.append(cur)
            cur = []
        else:
            cur.append(z)
    parts.append(cur)
    need, why = [], []
    for p in parts:
        if p and p[0] == 2:
            need.append(bytes(p[1:]))
            why.append("hash")
        elif p and p[0] == 1:
            why.append("op:" + (X.UNKNOWN.names[p[1]] if 0 <= p[1] < len(X.UNKNOWN.names) else {-1: "invoke", -2: "ret"}.get(p[1], "?")))
        elif p and p[0] == 11:
            why.append("poison:" + {1: "branch", 2: "assert", 4: "key", 5: "hash", 6: "index", 7: "fmp"}.get(p[1], "?"))
        elif p and p[0] != 0:
            why.append({3: "bounds", 4: "external", 5: "undef", 6: "arity", 7: "fuel", 8: "badlabel", 9: "fallthrough", 10: "huge"}.get(p[0], "?"))
    return need, why


def run_group(g, rounds, tag):
    """-> dict (pair, input, storage) -> (code, why)"""
    # every input from empty storage; the first half of the inputs also from the seeded non-empty storage
    todo = [(p, i, j) for p in range(len(g.pairs)) for i in range(len(g.inputs)) for j in range(len(g.storages))
            if j == 0 or i < (len(g.inputs) + 1) // 2]
    results = {}
    for rnd in range(rounds):
        if not todo:
            break
        imports, exprs, order = g.coq(todo)
        outs = coqrun.eval_zlists(imports, exprs, f"c14tv_{tag}_{rnd}", shard=10 ** 9, timeout=600)
        nxt = []
        for (p, ijs), o in zip(order, outs):
            chunks = _split(o)
            assert len(chunks) == len(ijs), (len(chunks), len(ijs))
            for (i, j), ch in zip(ijs, chunks):
                code = ch[0]
                why = []
                if code == 1:
                    need, why = _needs(ch[1:])
                    new = [n for n in need if n not in g.hashes[i]]
                    for n in new:
                        g.hashes[i][n] = _keccak(n)
                    if new and rnd + 1 < rounds:
                        nxt.append((p, i, j))
                results[(p, i, j)] = (code, why)
        # a new hash for input i can unblock every pair on that input
        redo_inputs = {i for (_, i, _) in nxt}
        todo = [(p, i, j) for (p, i, j), (c, _) in results.items() if c == 1 and i in redo_inputs]
    return results


def detail_mismatch(g, p, i, j, tag):
    """render both observations of a mismatching pair"""
    todo = [(p, i, j)]
    imports, _, _ = g.coq(todo)
    _, hb, ha = g.pairs[p]
    outs = coqrun.eval_zlists(imports, [f"render (cobserve S{j} r_{hb}_{i}_{j})", f"render (cobserve S{j} r_{ha}_{i}_{j})"],
                              f"c14tvd_{tag}", shard=10 ** 9, timeout=300)
    return [X.decode_render(o) for o in outs]


def _show(ob):
    return {"status": {0: "stop", 1: "return", 2: "revert", 3: "invalid", 4: "stuck", 5: "fuel"}.get(ob["code"]), "data": ob["data"].hex(),
            "logs": [([hex(t) for t in ts], d.hex()) for ts, d in ob["logs"]], "storage": {hex(k): hex(v) for k, v in ob["sto"].items()},
            "transient": {hex(k): hex(v) for k, v in ob["tra"].items()}}


# =============================================================================================== tie to the real back end
def backend_bytecode(text, mode, skip=()):
    """compile snapshot text with the real Venom back end.  mode 'final': assembly generation only (text is the output of
    the whole pipeline); mode 'pipeline': run the real O2 pipeline first (text is a pre-lowering snapshot)."""
    from vyper.compiler.phases import generate_bytecode
    from vyper.compiler.settings import OptimizationLevel, Settings, VenomOptimizationFlags, set_global_settings
    from vyper.venom import generate_assembly_experimental, run_passes_on
    set_global_settings(Settings(evm_version="cancun"))
    ctx = X.parse(text)
    if mode == "pipeline":
        from vlib import c14_pass_harness as H
        H.install()
        H.STATE = H.State(skip=skip)
        try:
            run_passes_on(ctx, VenomOptimizationFlags(level=OptimizationLevel.O2))
        finally:
            H.STATE = None
    asm = generate_assembly_experimental(ctx, OptimizationLevel.O2)
    code, _ = generate_bytecode(asm)
    return code


def evm_run(code, inp):
    """fresh chain, code installed by a CREATE from the deployer (address is the same for every code) -> observation dict"""
    from vlib.evm import Chain, log_tuple
    ch = Chain("cancun")
    addr = ch.set_code(None, code)
    if addr is None:
        return None
    r = ch.call(addr, bytes.fromhex(inp["data"]), value=inp["value"], sender=inp["sender"])
    logs = []
    halt = None
    for l in r.logs:
        if isinstance(l, tuple):
            halt = str(l[1])
        else:
            lt = log_tuple(l)
            logs.append(([int.from_bytes(t, "big") for t in lt[1]], lt[2]))
    return {"ok": r.ok, "out": r.out, "logs": logs, "halt": halt, "chain": ch, "addr": addr}


def _refb(model, real):
    """model bytes (poison = -1 matches anything) vs real bytes"""
    return len(model) == len(real) and all(m < 0 or m == r for m, r in zip(model, real))


def _ref_logs(model, real):
    return len(model) == len(real) and all(len(mt) == len(rt) and all(a < 0 or a == b for a, b in zip(mt, rt)) and _refb(md, rd)
                                           for (mt, md), (rt, rd) in zip(model, real))


def evm_vs_obs(ev, ob):
    """compare a pyrevm run with a decoded vrun observation (the EVM must refine it); -> None or text"""
    if ob["code"] in (0, 1):
        if not ev["ok"]:
            return f"EVM failed ({ev['halt'] or 'revert ' + ev['out'].hex()[:64]}), vrun {'stop' if ob['code'] == 0 else 'return'}"
        if not _refb(ob["data"], ev["out"]):
            return f"return data: EVM {ev['out'].hex()[:200]} vrun {ob['data'].hex()[:200]}"
        if not _ref_logs(ob["logs"], ev["logs"]):
            return f"logs: EVM {ev['logs']!r:.300} vrun {ob['logs']!r:.300}"
        for k, v in ob["sto"].items():
            got = ev["chain"].storage(ev["addr"], k)
            if v >= 0 and got != v:
                return f"storage[{hex(k)}]: EVM {hex(got)} vrun {hex(v)}"
        return None
    if ob["code"] == 2:
        if ev["ok"] or ev["halt"]:
            return f"vrun reverts, EVM ok={ev['ok']} halt={ev['halt']}"
        if not _refb(ob["data"], ev["out"]):
            return f"revert data: EVM {ev['out'].hex()[:200]} vrun {ob['data'].hex()[:200]}"
        return None
    if ob["code"] == 3:
        if ev["ok"] or not ev["halt"]:
            return f"vrun invalid, EVM ok={ev['ok']} out={ev['out'].hex()[:64]}"
        return None
    return "not an observation"


def backend_tail(text):
    """a lowered mid-pipeline snapshot: only the scheduling passes the assembler needs, then assembly"""
    from vyper.compiler.phases import generate_bytecode
    from vyper.compiler.settings import OptimizationLevel, Settings, set_global_settings
    from vyper.venom import generate_assembly_experimental
    from vyper.venom.analysis import IRAnalysesCache
    from vyper.venom.passes import CFGNormalization, DFTPass, SingleUseExpansion
    set_global_settings(Settings(evm_version="cancun"))
    ctx = X.parse(text)
    for fn in ctx.functions.values():
        ac = IRAnalysesCache(fn)
        for P in (SingleUseExpansion, DFTPass, CFGNormalization):
            P(ac, fn).run_pass()
    asm = generate_assembly_experimental(ctx, OptimizationLevel.O2)
    code, _ = generate_bytecode(asm)
    return code


def snapshot_bytecode(text, final=False, skip=()):
    if final:
        return backend_bytecode(text, "final")
    if "[fmp_lowered" in text.split("{", 1)[0]:
        return backend_tail(text)
    return backend_bytecode(text, "pipeline", skip=skip)


# =============================================================================================== driver
def _select(ctx, progs, forced=()):
    """-> list of Group with pairs chosen; quick: a budget spread over pass classes, thorough: everything"""
    forced_by = {}
    for s in forced:
        if s["fn"] == "runtime":
            forced_by.setdefault((s["prog"], "hand" if progs[s["prog"]].get("hand") else s["level"]), []).append(s)
    rnd = ctx.rng("c14p-tv")
    quick = ctx.tier == "quick"
    by_group = {}
    internal = {}
    for name, pr in sorted(progs.items()):
        for s in pr["snaps"]:
            if s["fn"] != "runtime":
                continue
            by_group.setdefault((name, s["level"]), []).append(s)
        # passes on internal functions, validated in their calling context (runs start in `runtime`)
        for s in pr["snaps"]:
            if s["fn"] not in ("runtime", "deploy") and s.get("ctx") and (name, s["level"]) in by_group:
                internal.setdefault((name, s["level"]), []).append(s)
    # hand-written IR programs: one group per program holding the invocations of all its pipelines (always included)
    hand_keys = []
    for (name, lvl) in sorted(by_group):
        if progs[name].get("hand"):
            by_group.setdefault((name, "hand"), []).extend(by_group.pop((name, lvl)))
    hand_keys = sorted(k for k in by_group if k[1] == "hand")
    if quick and len(hand_keys) > 4:
        # quick: four hand-written programs per run (rotating with the seed); all of them get the stage-1 checks anyway
        forced_hand = [k for k in hand_keys if k in forced_by]
        # the istore/iload program is in every run: its tie against the real back end pins the operand order of `istore`
        pinned = [k for k in hand_keys if k[0] == "hand:immutable_ops"]
        others = [k for k in hand_keys if k not in pinned]
        rot = [others[(ctx.seed * 3 + j) % len(others)] for j in range(3 - len(pinned))]
        hand_keys = pinned + sorted(set(rot + forced_hand) - set(pinned))
    for k in hand_keys:
        by_group[k].sort(key=lambda s: s["idx"])
    keys = sorted(k for k in by_group if k[1] != "hand")
    if not quick:
        # thorough: every program, one level per program (rotating with the seed), every changing pass invocation
        names = sorted({k[0] for k in keys})
        keys = []
        for k, n in enumerate(names):
            lv = [l for (m, l) in sorted(by_group) if m == n and l != "hand"]
            if lv:
                keys.append((n, lv[(k + ctx.seed) % len(lv)]))
    if quick:
        # one level per program (rotating), the regression program at O2; at most 14 groups
        chosen = []
        names = sorted({k[0] for k in keys})
        rnd.shuffle(names)
        names.sort(key=lambda n: progs[n]["entry"]["prio"])
        # adaptive budget: on a loaded machine (stage 1 already slow) fewer groups
        el = time.time() - ctx.t0 if hasattr(ctx, "t0") else 0
        ng, nh = (7, 3) if el < 45 else (6, 2) if el < 130 else (4, 1)
        hand_keys = hand_keys[:max(nh, len([k for k in hand_keys if k in forced_by]))]
        for k, n in enumerate(names[:ng]):
            lv = [l for (m, l) in keys if m == n]
            if not lv:
                continue
            lvl = "gas" if progs[n]["entry"].get("key") and "gas" in lv else lv[(k + ctx.seed) % len(lv)]
            chosen.append((n, lvl))
        keys = chosen
    for k in sorted(forced_by):
        # a rejected pair always gets its group; a pair outside a validator's domain only joins an existing group
        if k not in keys and k not in hand_keys and k in by_group and any(f.get("verdict") == "rejected" for f in forced_by[k]):
            keys.append(k)
    groups = []
    cover = {}
    storages = [{}, {k: rnd.choice([1, 2, 3, 5, 7, 100, 2 ** 255, 2 ** 256 - 1]) for k in range(6)}]
    for (name, lvl) in keys + hand_keys:
        pr = progs[name]
        inputs = pr["inputs"][: (6 if quick else 12)]
        if not inputs:
            continue
        g = Group(name, lvl, inputs, storages, texts=dict(pr.get("texts", {})))
        ss = sorted(by_group[(name, lvl)], key=lambda s: s["idx"])
        g.register(ss + ([] if lvl == "hand" else [s for s in pr["snaps"] if s["level"] == lvl]))
        g.first_snap, g.final_snap = ss[0], ss[-1]
        if quick:
            forced = [ss[0], ss[-1]]
            rest = [s for s in ss[1:-1]]
            rnd.shuffle(rest)
            # passes with a proved validator (c14_pass_val) come last here
            rest.sort(key=lambda s: (s["pass"] in VALIDATED, cover.get(s["pass"], 0)))
            pick = forced + rest[:(7 if lvl == "hand" else 6)]
        else:
            # invocations of passes with a proved validator are covered for all inputs by c14_pass_val (the pairs it did not
            # accept are forced below); the differential takes the others
            pick = [ss[0], ss[-1]] + [s for s in ss if s["pass"] not in VALIDATED]
        want = {(f["idx"], f["pass"]) for f in forced_by.get((name, lvl), [])}
        pick = pick + [s for s in ss if (s["idx"], s["pass"]) in want]
        for s in sorted({id(x): x for x in pick}.values(), key=lambda s: s["idx"]):
            if g.add(s):
                cover[s["pass"]] = cover.get(s["pass"], 0) + 1
        g.rejected = len(pick) - len(g.pairs)
        # context-level passes (FunctionInlinerPass): whole contexts before / after
        for s in pr["snaps"]:
            if s["fn"] == "<ctx>" and s["level"] == lvl:
                if g.add(s):
                    cover["ctx:" + s["pass"]] = cover.get("ctx:" + s["pass"], 0) + 1
        # internal functions: a seeded sample in quick, the unvalidated passes in thorough
        ints = [s for s in internal.get((name, lvl), []) if quick or s["pass"] not in VALIDATED]
        if quick:
            rnd.shuffle(ints)
            ints.sort(key=lambda s: (s["pass"] in VALIDATED, cover.get("int:" + s["pass"], 0)))
            ints = ints[:3]
        for s in ints:
            if g.add(s):
                cover["int:" + s["pass"]] = cover.get("int:" + s["pass"], 0) + 1
        if g.pairs:
            groups.append(g)
    return groups, cover


GROUP_DEADLINE = 1700
TIE_DEADLINE = 2300


def stage2(ctx, progs, built=None, forced=()):
    """built: result of build_proofs when the caller already ran it; forced: snapshots (of `runtime`) that must be part of
    the vrun differential (pairs a proved validator did not accept)"""
    from concurrent.futures import ThreadPoolExecutor
    global ADDR_WORD
    t0 = time.time()
    ok, model_ok, b = built if built is not None else build_proofs(ctx)
    ctx.log(f"pass stage2: proofs {'ok' if ok else 'BROKEN'} {time.time() - t0:.0f}s")
    stats = {"groups": 0, "pairs": 0, "evaluations": 0, "equal": 0, "unsupported": 0, "mismatch": 0, "why": {}, "per_pass": {},
             "tie_runs": 0, "tie_equal": 0, "tie_unsupported": 0, "tie_compile_failed": 0, "tie_mismatch": 0, "parser_rejected": 0}
    found = False
    if model_ok:
        from vlib.evm import Chain
        ADDR_WORD = int(Chain("cancun").set_code(None, b"\x00"), 16)
        groups, cover = _select(ctx, progs, forced)
        stats["groups"] = len(groups)
        rounds = 3 if ctx.tier == "quick" else 5

        # thorough: groups not started GROUP_DEADLINE seconds into the run are dropped (groups holding pairs a validator
        # rejected come first), the ties of the FIRST snapshots stop at TIE_DEADLINE (the tie of the final snapshot is made for
        # every evaluated group): a loaded machine keeps the tier budget, an idle one does everything
        thorough = ctx.tier != "quick"
        t_run0 = getattr(ctx, "t0", t0)
        if thorough:
            groups.sort(key=lambda g: not any(s.get("verdict") == "rejected" for (s, _, _) in g.pairs))

        def work(kg):
            k, g = kg
            if thorough and time.time() > t_run0 + GROUP_DEADLINE:
                return g, "skipped", None
            try:
                g.compile_defs(f"{os.getpid()}_{k}")
                res = run_group(g, rounds, f"{os.getpid()}_{k}")
                # the Coq half of the ties is evaluated here (in parallel); the back-end half runs in the main thread
                g.tie_pre = {"final": _tie_prepare(g, f"{os.getpid()}_{k}", "final")}
                if (thorough and time.time() < t_run0 + TIE_DEADLINE) or (not thorough and k % 3 == 0):
                    g.tie_pre["first"] = _tie_prepare(g, f"{os.getpid()}_{k}", "first")
                return g, res, None
            except Exception as e:  # noqa
                return g, None, f"{type(e).__name__}: {str(e)[-1500:]}"
        with ThreadPoolExecutor(max_workers=3 if ctx.tier == "quick" else 6) as ex:
            done = list(ex.map(work, enumerate(groups)))
        for k, (g, res, err) in enumerate(done):
            if err is not None:
                ctx.violation("correspondence-broken", f"Coq evaluation of snapshots of {g.prog}/{g.level} failed", {"error": err})
                continue
            if res == "skipped":
                stats["groups_skipped_budget"] = stats.get("groups_skipped_budget", 0) + 1
                continue
            stats["parser_rejected"] += g.rejected
            stats["pairs"] += len(g.pairs)
            reported = set()
            for (p, i, j), (code, why) in sorted(res.items()):
                stats["evaluations"] += 1
                snap = g.pairs[p][0]
                pp = stats["per_pass"].setdefault(snap["pass"], [0, 0, 0])
                pp[code] += 1
                if code == 0:
                    stats["equal"] += 1
                elif code == 1:
                    stats["unsupported"] += 1
                    for w in set(why) or {"?"}:
                        stats["why"][w] = stats["why"].get(w, 0) + 1
                else:
                    stats["mismatch"] += 1
                    if p in reported:
                        continue
                    reported.add(p)
                    found |= _report_tv_mismatch(ctx, progs, g, p, i, j, f"{os.getpid()}_{k}")
            # the tie of the final snapshot: every evaluated group, no deadline (its Coq half is already there)
            found |= _tie(ctx, progs, g, stats, f"{os.getpid()}_{k}")
            if thorough and (time.time() > t_run0 + TIE_DEADLINE or "first" not in g.tie_pre):
                stats["tie_skipped_budget"] = stats.get("tie_skipped_budget", 0) + 1
            elif thorough or k % 3 == 0:
                found |= _tie(ctx, progs, g, stats, f"{os.getpid()}_{k}", which="first")
        for g in groups:
            g.cleanup()
        ctx.extra["pass_tv_cover"] = cover
    ctx.corr["pass_stage2"] = stats
    ctx.log(f"pass stage2: {dict((k, v) for k, v in stats.items() if k not in ('per_pass',))} in {time.time() - t0:.0f}s")
    if not ok:
        # Search for the broken proof = stage 1 differential + translation validation above
        stage1_found = any(v.get("kind") == "failing-input" for v in ctx.violations) or bool(ctx.known_hits and False)
        if b is None:
            pass        # translator-rejected already reported
        elif not (found or stage1_found):
            ctx.violation("theorem-broken", f"{b.get('failed_lemma')} in {b['file']}",
                          {"theorem": b.get("failed_lemma"), "file": b["file"], "coq_output": b["out"][-1500:]})
        else:
            ctx.extra["pass_theorem_broken"] = {"theorem": b.get("failed_lemma"), "file": b["file"], "coq_output": b["out"][-800:]}
    ctx.trusted += ["coq/C14/Venom.v: hand-written reference semantics of core Venom (tied to the real back end + pyrevm per run)",
                    "vyper.venom.parser (snapshots are re-parsed by the real parser before export)"]
    ctx.assumptions += ["keccak256 is supplied to vrun as a finite table computed by eth_utils per run",
                        "external calls/creates are an uninterpreted oracle in Venom.v; executions reaching them are not compared"]
    return stats["evaluations"] + stats["tie_runs"]


def _report_tv_mismatch(ctx, progs, g, p, i, j, tag):
    snap, hb, ha = g.pairs[p]
    inp = g.inputs[i]
    entry = progs[g.prog]["entry"]
    try:
        ob_b, ob_a = detail_mismatch(g, p, i, j, tag)
        shown = {"before": _show(ob_b), "after": _show(ob_a)}
    except Exception as e:  # noqa
        shown = {"error": str(e)[-500:]}
    detail = {"program": g.prog, "source": entry["src"], "config": f"venom-{g.level}-cancun", "pass": snap["pass"], "pass_args": snap["arg"],
              "pass_invocation_index": snap["idx"], "function": snap["fn"], "input": inp, "initial_storage": {hex(k): hex(v) for k, v in g.storages[j].items()},
              "vrun": shown, "ir_before": snap["before"][:6000], "ir_after": snap["after"][:6000]}
    # confirm on the real back end (only meaningful from empty storage)
    confirmed = None
    if j == 0:
        try:
            cb = snapshot_bytecode(g.context_text(hb), skip=(snap["pass"],))
            ca = snapshot_bytecode(g.context_text(ha), skip=(snap["pass"],))
            eb, ea = evm_run(cb, inp), evm_run(ca, inp)
            sig = lambda e: (e["ok"], e["out"], e["logs"], e["halt"])   # noqa
            confirmed = sig(eb) != sig(ea)
            detail["evm"] = {"before": {"ok": eb["ok"], "out": eb["out"].hex()[:400]}, "after": {"ok": ea["ok"], "out": ea["out"].hex()[:400]}}
        except Exception as e:  # noqa
            detail["evm"] = {"unconfirmed": f"{type(e).__name__}: {str(e)[:300]}"}
    key = entry.get("key") or f"C14:pass-tv:{snap['pass']}:{g.prog}"
    TV_MISMATCHES.add((g.prog, snap["idx"], snap["pass"]))
    if confirmed:
        detail["expected"] = "pass output behaves like its input"
        ctx.violation("failing-input", f"pass {snap['pass']} changes the behaviour of function {snap['fn']} of {g.prog} "
                      f"(Coq semantics vrun, confirmed by compiling both snapshots with the real back end)", detail, key=key)
        return True
    ctx.violation("correspondence-broken", f"translation validation: vrun(before) != vrun(after) for pass {snap['pass']} on {g.prog} "
                  f"(not reproduced on the real back end)", detail, key=key)
    return False


def _tie_prepare(g, tag, which):
    """the Coq half of a tie (a coqc subprocess: safe to run in the stage-2 worker threads): crun of the final / first
    snapshot's configuration on every input from empty storage -> rendered observations, or an error string; None when
    the group has no such snapshot"""
    snap = g.final_snap if which == "final" else g.first_snap
    cand = [p for p in range(len(g.pairs)) if g.pairs[p][0] is snap]
    if not cand:
        return None
    p_last = cand[0]
    h = g.pairs[p_last][2]
    todo = [(p_last, i, 0) for i in range(len(g.inputs))]
    imports, _, _ = g.coq(todo)
    exprs = [f"render (cobserve S0 r_{h}_{i}_0)" for i in range(len(g.inputs))]
    try:
        return coqrun.eval_zlists(imports, exprs, f"c14tie_{tag}_{which}", shard=10 ** 9, timeout=600)
    except Exception as e:  # noqa
        return f"{type(e).__name__}: {str(e)[-1500:]}"


def _tie(ctx, progs, g, stats, tag, which="final"):
    """vrun on a snapshot vs the real back end's code for the same snapshot text on pyrevm (the legacy code is the arbiter).
    which='final': the IR after the last pass, assembly generation only; which='first': the IR after the first pass
    (abstract allocas, pre-SSA), compiled by the real O2 pipeline + assembly generation."""
    found = False
    entry = progs[g.prog]["entry"]
    final = which == "final"
    snap = g.final_snap if final else g.first_snap
    cand = [p for p in range(len(g.pairs)) if g.pairs[p][0] is snap]
    if not cand:
        return False
    p_last = cand[0]
    h = g.pairs[p_last][2]                 # configuration after the pass: `runtime` + the functions it calls
    text = g.context_text(h)
    try:
        code = snapshot_bytecode(text, final=final)
    except Exception as e:  # noqa
        stats["tie_compile_failed"] += 1
        return False
    pre = getattr(g, "tie_pre", {}).get(which) or _tie_prepare(g, tag, which)
    if isinstance(pre, str):
        ctx.violation("correspondence-broken", f"Coq evaluation (tie) of {g.prog}/{g.level} failed", {"error": pre[-1500:]})
        return False
    outs = pre
    ref_code = bytes.fromhex(progs[g.prog]["ref_runtime"][2:]) if progs[g.prog].get("ref_runtime") else None
    for i, o in enumerate(outs):
        ob = X.decode_render(o)
        stats["tie_runs"] += 1
        if ob["code"] >= 4:
            stats["tie_unsupported"] += 1
            continue
        ev = evm_run(code, g.inputs[i])
        if ev is None:
            stats["tie_unsupported"] += 1
            continue
        d = evm_vs_obs(ev, ob)
        if d is None:
            stats["tie_equal"] += 1
            if len(ctx.samples) < 6:
                ctx.samples.append({"tie": g.prog, "level": g.level, "input": g.inputs[i]["fn"], "args": g.inputs[i]["args"],
                                    "vrun_and_evm": _show(ob)["status"] + " " + ob["data"].hex()[:64]})
            continue
        stats["tie_mismatch"] += 1
        arb = "no legacy reference for this program"
        if ref_code is not None:
            rv = evm_run(ref_code, g.inputs[i])
            arb = evm_vs_obs(rv, ob) if rv is not None else "legacy code not deployable"
        detail = {"program": g.prog, "source": entry["src"], "config": f"venom-{g.level}-cancun", "input": g.inputs[i],
                  "ir_text": text[:8000], "snapshot": which, "difference": d, "vrun": _show(ob),
                  "evm_venom_backend": {"ok": ev["ok"], "out": ev["out"].hex()[:400]},
                  "legacy_vs_vrun": arb or "equal",
                  "call": ("" if final else "run_passes_on(O2) -> ") +
                          "vyper.venom.generate_assembly_experimental(parse_venom(ir_text)) -> generate_bytecode -> pyrevm"}
        key = entry.get("key") or f"C14:backend:{g.prog}"
        if arb is None:
            detail["expected"] = "behaviour of the IR (Coq semantics vrun) = behaviour of the legacy pipeline's code for the same call"
            ctx.violation("failing-input", f"the Venom back end ({'venom_to_assembly' if final else 'O2 pipeline + venom_to_assembly'}) "
                          f"miscompiles the {which} IR snapshot of {g.prog} at {g.level}: "
                          "vrun and the legacy code agree, the generated code differs", detail, key=key)
            found = True
        else:
            ctx.violation("correspondence-broken", f"Venom.v (vrun) disagrees with the real back end on the {which} IR of {g.prog} at {g.level}",
                          detail, key=key)
        break
    return found


def context_differential(before, after, inputs, storages=({},), top="runtime", rounds=4, tag="ctxdiff"):
    """Differential harness for passes that change several functions (e.g. FunctionInlinerPass): `before` / `after` map
    function names to Venom source texts (each text = one function, optionally followed by the data segment, as printed by
    the compiler); `inputs` = [{"data": calldata hex, "value": int, "sender": "0x.."}].  Both contexts are run with
    `crun` (coq/C14/VenomCall.v) started in `top`, and the observations are compared.
    -> list of (input index, storage index, code, reasons) with code 0 = equal observation, 1 = not comparable (a run is stuck:
    reasons), 2 = DIFFERENT."""
    global ADDR_WORD
    from vlib.evm import Chain
    ADDR_WORD = int(Chain("cancun").set_code(None, b"\x00"), 16)
    texts, hb, ha = {}, {}, {}
    for src, dst in ((before, hb), (after, ha)):
        for n, t in src.items():
            h = X.text_hash(t)
            texts[h] = t
            dst[n] = h
    g = Group("ctx", "ctx", list(inputs), list(storages), texts=texts, top=top)
    snap = {"fn": "<ctx>", "pass": "context", "idx": 0, "arg": "", "before": "", "after": "", "ctx_before": hb, "ctx_after": ha,
            "prog": "ctx", "level": "ctx"}
    g.register([snap])
    if not g.add(snap):
        raise ValueError("contexts cannot be exported (parser rejected a function, or no function named %r)" % top)
    try:
        g.compile_defs(f"{os.getpid()}_{tag}")
        res = run_group(g, rounds, f"{os.getpid()}_{tag}")
    finally:
        g.cleanup()
    return [(i, j, code, why) for (p, i, j), (code, why) in sorted(res.items())]
