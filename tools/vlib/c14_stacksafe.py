"""C14: validation of StackCleanupSafety (vyper/venom/stack_safety.py) by the verified checker coq/C14/StackSafe.v.

`StackCleanupSafety.verify_codegen` is the last thing the Venom back end calls on the analysis; it is wrapped in this
process (no /repo change) and, when it returns, the memo tables the analysis ended up with are exported together with the
whole context: `_block_summaries` (block -> (variables, transient)), `_function_growth`, `_caller_stack_heights`,
`_safe_current_heights` (block -> largest local height at which a cleanup elision was allowed), `_function_frame_growth`.
`ss_check` (vm_compute) verifies them locally; by theorem `stack_cleanup_safety_sound` acceptance means that no call chain
+ path from an elision point can exceed 1024 stack slots under the analysis' own codegen discipline.
Exact ties (Python side, on the exported numbers): ret = 1024 - caller_height - (|V| + T) for every safe height; the frame
bound recomputed by the Coq model equals `_function_frame_growth`."""
from vlib import coqrun

IMPORTS = ("From Coq Require Import NArith.\nFrom Verif Require Import C14.StackSafe.\nOpen Scope string_scope.\nOpen Scope list_scope.\n"
           "Open Scope nat_scope.\n")


def _q(s):
    return '"' + str(s).replace('"', "'") + '"'


class Observer:
    def __init__(self, max_samples=400):
        self.samples = []
        self.errors = []
        self.max = max_samples

    def __enter__(self):
        from vyper.venom.stack_safety import StackCleanupSafety as S
        self.S = S
        self.orig = S.verify_codegen
        obs = self

        def verify(self_, peaks):
            r = obs.orig(self_, peaks)
            if len(obs.samples) < obs.max:
                try:
                    s = export(self_, peaks)
                    if s is not None:
                        obs.samples.append(s)
                except Exception as e:  # noqa
                    obs.errors.append(f"{type(e).__name__}: {e}")
            return r

        S.verify_codegen = verify
        return self

    def __exit__(self, *a):
        self.S.verify_codegen = self.orig


def export(a, peaks):
    ctx = a.ctx
    fns = list(ctx.functions.values())
    if a._entry_function is not None and a._entry_function in fns:
        fns.remove(a._entry_function)
        fns.insert(0, a._entry_function)
    vid = {}

    def v(fn, var):
        d = vid.setdefault(fn, {})
        if var not in d:
            d[var] = len(d)
        return d[var]

    P, frames = [], {}
    for fn in fns:
        cfg = a._get_cfg(fn)
        bl = []
        for bb in fn.get_basic_blocks():
            vs, ins = [], []
            for i in bb.instructions:
                for x in list(i.get_input_variables()) + list(i.get_outputs()):
                    vs.append(v(fn, x))
                cal = "None"
                if i.opcode == "invoke":
                    cal = f"(Some {_q(ctx.get_function(i.operands[0]).name.value)})"
                ins.append(f"{{| nops := {len(i.operands)}; callee := {cal} |}}")
            succ = [s.label.value for s in cfg.cfg_out(bb)]
            bl.append(f"{{| slabel := {_q(bb.label.value)}; svars := [{'; '.join(f'{x}%N' for x in sorted(set(vs)))}]; "
                      f"sinsts := [{'; '.join(ins)}]; ssuccs := [{'; '.join(_q(s) for s in succ)}] |}}")
        P.append(f"{{| fname := {_q(fn.name.value)}; fentry := {_q(fn.entry.label.value)}; fblocks := [{'; '.join(bl)}] |}}")
    bc, growth_of = [], {}
    for bb, summ in a._block_summaries.items():
        if summ is None:
            continue
        fn = bb.parent
        V, T = summ
        bc.append(f"({_q(fn.name.value)}, {_q(bb.label.value)}, ([{'; '.join(f'{v(fn, x)}%N' for x in V)}], {T}))")
        growth_of[bb] = len(V) + T
    gc = [f"({_q(fn.name.value)}, {g})" for fn, g in a._function_growth.items() if g is not None]
    hc = [f"({_q(fn.name.value)}, {h})" for fn, h in a._caller_stack_heights.items() if h is not None]
    safe, ties = [], []
    for bb, ret in a._safe_current_heights.items():
        if ret is None:
            continue
        H = a._caller_stack_heights.get(bb.parent)
        g = growth_of.get(bb)
        if H is None or g is None or ret != 1024 - H - g:
            ties.append(f"safe height of {bb.label.value}: ret={ret}, caller height={H}, growth={g}")
        if ret >= 0:
            safe.append(f"({_q(bb.parent.name.value)}, {_q(bb.label.value)}, {ret})")
    if not bc and not hc:
        return None
    fr = [(fn.name.value, g) for fn, g in a._function_frame_growth.items()]
    return {"P": "[" + "; ".join(P) + "]", "bc": "[" + "; ".join(bc) + "]", "gc": "[" + "; ".join(gc) + "]", "hc": "[" + "; ".join(hc) + "]",
            "safe": "[" + "; ".join(safe) + "]", "n_blocks": len(bc), "n_safe": len(safe), "n_fns": len(fns), "ties": ties, "frames": fr,
            "peaks": {fn.name.value: h for fn, h in peaks.items()}, "entry": fns[0].name.value if fns else ""}


def evaluate(samples, name="c14ss", shard=8, timeout=600):
    """per sample: [ss_check; frame of every function listed in `frames` ...]"""
    exprs = []
    for s in samples:
        fr = "; ".join(f"match find_func P {_q(n)} with Some fn => Z.of_nat (frame fn) | None => (-1)%Z end" for n, _ in s["frames"])
        exprs.append(f"let P : sprog := {s['P']} in (if ss_check P {s['bc']} {s['gc']} {s['hc']} {s['safe']} then 1%Z else 0%Z) :: [{fr}]")
    imports = "From Coq Require Import ZArith.\n" + IMPORTS
    return coqrun.eval_zlists(imports, exprs, name, shard=shard, timeout=timeout)


# contracts whose internal functions survive inlining (two call sites each), with must-halt regions inside callees (caller
# heights), invokes inside must-halt regions (callee growth in a transient) and nested calls
EXTRA_SOURCES = ["""
x: uint256
m: HashMap[address, uint256]

@internal
def _h(a: uint256, b: uint256) -> uint256:
    assert a > b, "no"
    return a - b

@internal
def _k(a: uint256, b: uint256, c: uint256) -> uint256:
    t: uint256 = self._h(a, b) * self._h(a + c, b)
    if t > 7777:
        raise "k"
    return t + c

@external
def f(a: uint256, b: uint256, c: uint256) -> uint256:
    t: uint256 = self._h(a, b) + self._h(b + 10, c)
    if t > 100:
        raise "big"
    self.m[msg.sender] += t
    assert self.m[msg.sender] < 10**30, "cap"
    return t + self._k(a, b, c) + self._k(c, b, a)

@external
def g(a: uint256[5]) -> uint256:
    s: uint256 = 0
    for v: uint256 in a:
        s += v
        assert s < 1000
    return s
""", """
owner: address
total: uint256

@internal
def _fail(code: uint256, who: address):
    if code > 3:
        raise "fatal"
    assert who != empty(address), "zero"
    raise "other"

@internal
def _check(v: uint256, lim: uint256) -> uint256:
    if v > lim:
        self._fail(v - lim, msg.sender)
    return lim - v

@external
def pay(v: uint256, w: uint256) -> uint256:
    a: uint256 = self._check(v, 100)
    b: uint256 = self._check(w, a + 5)
    if a + b == 77:
        self._fail(a, self.owner)
    self.total += a * b
    return self.total

@external
def other(v: uint256) -> uint256:
    if v == 0:
        self._fail(9, msg.sender)
    return self._check(v, 1000)
"""]
