"""C04 canaries, round 2: nested containers, loops over arrays, concat / extract32, internal calls with large
frames and arrays passed by value, dynamic (msize) allocation next to immutables in the constructor.
Every container sits between canary variables; expected results come from a small Python reference model
(in bounds -> exact effect, else revert and nothing changed)."""
import warnings

C0 = 0xC0FFEE0000000000000000000000000000000000000000000000000000000001
C1 = 0xBADC0DE000000000000000000000000000000000000000000000000000000002
C2 = 0xFEEDFACE00000000000000000000000000000000000000000000000000000003
C3 = 0xDEADBEEF00000000000000000000000000000000000000000000000000000004

NESTED = f"""
struct P:
    a: uint256
    b: Bytes[40]
    c: uint256[2]

c0: uint256
ds: DynArray[P, 3]
c1: uint256
aa: uint256[2][3]
c2: uint256
sb: P
c3: uint256
dd: DynArray[DynArray[uint256, 2], 2]
c4: uint256
sx: Bytes[64]
c5: uint256

@external
def setup():
    self.c0 = {C0}
    self.ds = [P(a=1, b=b"one", c=[11, 12]), P(a=2, b=b"two", c=[21, 22])]
    self.c1 = {C1}
    self.aa = [[1, 2], [3, 4], [5, 6]]
    self.c2 = {C2}
    self.sb = P(a=7, b=b"seven", c=[71, 72])
    self.c3 = {C3}
    self.dd = [[1], [2, 3]]
    self.c4 = {C0}
    self.sx = b"0123456789abcdefghijklmnopqrstuvwxyzABCDEFGHIJ"
    self.c5 = {C1}

@external
@view
def dump() -> (uint256, DynArray[P, 3], uint256, uint256[2][3], uint256, P, uint256, DynArray[DynArray[uint256, 2], 2], uint256, Bytes[64], uint256):
    return self.c0, self.ds, self.c1, self.aa, self.c2, self.sb, self.c3, self.dd, self.c4, self.sx, self.c5

@external
def set_ds_c(i: uint256, j: int128, v: uint256):
    self.ds[i].c[j] = v

@external
def set_ds_b(i: uint256, v: Bytes[40]):
    self.ds[i].b = v

@external
def set_aa(i: int128, j: uint8, v: uint256):
    self.aa[i][j] = v

@external
def set_sb_b(v: Bytes[40]):
    self.sb.b = v

@external
def set_dd(i: uint256, j: uint256, v: uint256):
    self.dd[i][j] = v

@external
def push_dd(i: uint256, v: uint256):
    self.dd[i].append(v)

@external
def mem_nested(i: uint256, j: int128, k: uint8, v: uint256) -> (uint256, DynArray[P, 3], uint256, uint256[2][3], uint256):
    a: uint256 = {C0}
    m: DynArray[P, 3] = [P(a=1, b=b"one", c=[11, 12]), P(a=2, b=b"two", c=[21, 22])]
    b: uint256 = {C1}
    n: uint256[2][3] = [[1, 2], [3, 4], [5, 6]]
    c: uint256 = {C2}
    m[i].c[j] = v
    n[j][k] = v
    return a, m, b, n, c

@external
@view
def x32_storage(i: uint256) -> (uint256, bytes32, uint256):
    return self.c4, extract32(self.sx, i), self.c5

@external
@view
def x32_mem(b: Bytes[64], i: uint256) -> (uint256, bytes32, uint256):
    x: uint256 = {C0}
    m: Bytes[64] = b
    y: uint256 = {C1}
    r: bytes32 = extract32(m, i)
    return x, r, y

@external
@view
def cat(p: Bytes[10], q: Bytes[10]) -> (uint256, Bytes[20], uint256, Bytes[10], Bytes[10]):
    x: uint256 = {C0}
    a: Bytes[10] = p
    b: Bytes[10] = q
    r: Bytes[20] = concat(a, b)
    y: uint256 = {C1}
    return x, r, y, a, b

@external
@view
def cat_storage(q: Bytes[10]) -> (uint256, Bytes[74], uint256):
    return self.c4, concat(self.sx, q), self.c5
"""

LOOPS = f"""
c0: uint256
arr: DynArray[uint256, 4]
c1: uint256
other: DynArray[uint256, 4]
c2: uint256

@external
def setup(n: uint256):
    self.c0 = {C0}
    self.arr = []
    self.other = []
    for j: uint256 in range(4):
        if j >= n:
            break
        self.arr.append(10 + j)
    self.c1 = {C1}
    self.c2 = {C2}

@internal
def _touch_other(x: uint256):
    if len(self.other) < 4:
        self.other.append(x)

@external
def loop_sum() -> (uint256, uint256, uint256, DynArray[uint256, 4], uint256):
    s: uint256 = 0
    k: uint256 = 0
    for x: uint256 in self.arr:
        s += x
        k += 1
        self._touch_other(x)
    return self.c0, s, k, self.other, self.c2

@external
def loop_copy_mutate() -> (uint256, DynArray[uint256, 4], uint256, uint256):
    # iterate over a memory copy while the storage original is modified
    cp: DynArray[uint256, 4] = self.arr
    s: uint256 = 0
    for x: uint256 in cp:
        s += x
        if len(self.arr) > 0:
            self.arr.pop()
    return self.c0, self.arr, self.c1, s

@external
@view
def loop_mem(a: DynArray[uint256, 4]) -> (uint256, uint256, uint256):
    c: uint256 = {C0}
    m: DynArray[uint256, 4] = a
    d: uint256 = {C1}
    s: uint256 = 0
    for x: uint256 in m:
        s = s * 31 + x
    return c, s, d

@external
@view
def loop_static(a: uint256[3]) -> (uint256, uint256, uint256):
    c: uint256 = {C0}
    d: uint256 = {C1}
    s: uint256 = 0
    for x: uint256 in a:
        s = s * 31 + x
    return c, s, d
"""

# programs that mutate the array they iterate over must be rejected at compile time
LOOP_REJECT = [
    "a: DynArray[uint256, 4]\n@external\ndef f():\n    for x: uint256 in self.a:\n        self.a.append(x)\n",
    "a: DynArray[uint256, 4]\n@external\ndef f():\n    for x: uint256 in self.a:\n        self.a[0] = x\n",
    "a: DynArray[uint256, 4]\n@internal\ndef g():\n    self.a.pop()\n@external\ndef f():\n    for x: uint256 in self.a:\n        self.g()\n",
    "@external\ndef f():\n    m: uint256[3] = [1, 2, 3]\n    for x: uint256 in m:\n        m[0] = x\n",
]

FRAMES = f"""
@internal
def leaf(a: uint256[20], k: uint256) -> uint256:
    t: uint256[30] = empty(uint256[30])
    for i: uint256 in range(30):
        t[i] = k + i
    s: uint256 = 0
    for i: uint256 in range(20):
        s += a[i]
    return s + t[29]

@internal
def mid(a: uint256[20], b: DynArray[uint256, 8], k: uint256) -> uint256:
    u: uint256[25] = empty(uint256[25])
    for i: uint256 in range(25):
        u[i] = 1000 + i
    r: uint256 = self.leaf(a, k)
    s: uint256 = 0
    for x: uint256 in b:
        s += x
    for i: uint256 in range(25):
        assert u[i] == 1000 + i
    return r + s

@external
def callbig(q: uint256, n: uint256) -> (uint256, uint256[20], uint256, DynArray[uint256, 8], uint256, uint256):
    c0: uint256 = {C0}
    arr: uint256[20] = empty(uint256[20])
    for i: uint256 in range(20):
        arr[i] = q + i
    c1: uint256 = {C1}
    d: DynArray[uint256, 8] = []
    for i: uint256 in range(8):
        if i >= n:
            break
        d.append(q * 2 + i)
    c2: uint256 = {C2}
    r: uint256 = self.mid(arr, d, q)
    r2: uint256 = self.leaf(arr, q + 1)
    return c0, arr, c1, d, c2, r + r2
"""

# concat of fixed-size bytesM operands as the LAST allocation of an internal function's frame; the caller's first
# variable (a canary) lies directly above the callee frame
CONCATM = f"""
@internal
def cat2(a: bytes31, b: bytes1) -> Bytes[32]:
    return concat(a, b)

@internal
def cat3(a: bytes15, b: bytes16, c: bytes1) -> Bytes[32]:
    return concat(a, b, c)

@internal
def cat1_1(a: bytes1, b: bytes1) -> Bytes[2]:
    return concat(a, b)

@internal
def cat32_32(a: bytes32, b: bytes32) -> Bytes[64]:
    return concat(a, b)

@internal
def catmix(a: bytes31, b: Bytes[5], c: bytes1) -> Bytes[37]:
    return concat(a, b, c)

@external
def top2(a: bytes31, b: bytes1) -> (uint256, Bytes[32], uint256):
    c0: uint256 = {C0}
    r: Bytes[32] = self.cat2(a, b)
    c1: uint256 = {C1}
    return c0, r, c1

@external
def top3(a: bytes15, b: bytes16, c: bytes1) -> (uint256, Bytes[32], uint256):
    c0: uint256 = {C0}
    r: Bytes[32] = self.cat3(a, b, c)
    c1: uint256 = {C1}
    return c0, r, c1

@external
def top11(a: bytes1, b: bytes1) -> (uint256, Bytes[2], uint256):
    c0: uint256 = {C0}
    r: Bytes[2] = self.cat1_1(a, b)
    c1: uint256 = {C1}
    return c0, r, c1

@external
def top64(a: bytes32, b: bytes32) -> (uint256, Bytes[64], uint256):
    c0: uint256 = {C0}
    r: Bytes[64] = self.cat32_32(a, b)
    c1: uint256 = {C1}
    return c0, r, c1

@external
def topmix(a: bytes31, b: Bytes[5], c: bytes1) -> (uint256, Bytes[37], uint256):
    c0: uint256 = {C0}
    r: Bytes[37] = self.catmix(a, b, c)
    c1: uint256 = {C1}
    return c0, r, c1

@internal
def inner_arg(x: uint256, a: bytes31, b: bytes1) -> (uint256, Bytes[32]):
    # x is this function's first argument, directly above cat2's frame
    r: Bytes[32] = self.cat2(a, b)
    return x, r

@external
def top_arg(x: uint256, a: bytes31, b: bytes1) -> (uint256, Bytes[32]):
    return self.inner_arg(x, a, b)

# other builtins whose result buffer is the last allocation of the callee frame
@internal
def last_slice(b: Bytes[40], s: uint256, l: uint256) -> Bytes[40]:
    return slice(b, s, l)

@internal
def last_encode(n: uint256, b: Bytes[40]) -> Bytes[192]:
    return abi_encode(n, b)

@internal
def last_u2s(n: uint256) -> String[78]:
    return uint2str(n)

@internal
def inner_edge(x: uint256, b: Bytes[40], s: uint256, l: uint256, n: uint256) -> (uint256, Bytes[40], Bytes[192], String[78], uint256):
    r1: Bytes[40] = self.last_slice(b, s, l)
    r2: Bytes[192] = self.last_encode(n, b)
    r3: String[78] = self.last_u2s(n)
    return x, r1, r2, r3, x

@external
def top_edge(x: uint256, b: Bytes[40], s: uint256, l: uint256, n: uint256) -> (uint256, Bytes[40], Bytes[192], String[78], uint256):
    return self.inner_edge(x, b, s, l, n)
"""

# index expressions whose evaluation shrinks the array being indexed: the bounds check must use the length AFTER the
# index has been evaluated (a pipeline may instead reject such a program at compile time)
SHRINK = f"""
c0: uint256
arr: DynArray[uint256, 4]
c1: uint256

@external
def setup(n: uint256):
    self.c0 = {C0}
    self.arr = []
    for j: uint256 in range(4):
        if j >= n:
            break
        self.arr.append(10 + j)
    self.c1 = {C1}

@internal
def _pop_ret(k: uint256) -> uint256:
    self.arr.pop()
    return k

@external
def read_shrink(k: uint256) -> uint256:
    return self.arr[self._pop_ret(k)]

@external
def write_shrink(k: uint256, v: uint256):
    self.arr[self._pop_ret(k)] = v

@internal
def _push_ret(k: uint256) -> uint256:
    self.arr.append(77)
    return k

@external
def read_grow(k: uint256) -> uint256:
    return self.arr[self._push_ret(k)]

@external
@view
def dump() -> (uint256, DynArray[uint256, 4], uint256):
    return self.c0, self.arr, self.c1
"""

SHRINK_MEM = f"""
@external
def mem_read(idx: uint256) -> (uint256, uint256, uint256):
    x: uint256 = {C0}
    b: DynArray[uint256, 4] = [10, 11, idx]
    y: uint256 = {C1}
    r: uint256 = b[b.pop()]
    return x, r, y

@external
def mem_write(idx: uint256, v: uint256) -> (uint256, DynArray[uint256, 4], uint256):
    x: uint256 = {C0}
    b: DynArray[uint256, 4] = [10, 11, idx]
    y: uint256 = {C1}
    b[b.pop()] = v
    return x, b, y
"""

# runtime-sized (free-memory-pointer) allocations: raw_call forwarding msg.data, create_copy_of
DYN = f"""
@external
def fwd(target: address, q: uint256) -> (uint256, uint256[3], Bytes[128], uint256):
    c0: uint256 = {C0}
    arr: uint256[3] = [q, q + 1, q + 2]
    r: Bytes[128] = raw_call(target, msg.data, max_outsize=128)
    c1: uint256 = {C1}
    return c0, arr, r, c1

@internal
def _echo(t: address, k: uint256) -> Bytes[96]:
    m: uint256[4] = [k, k + 1, k + 2, k + 3]
    r: Bytes[96] = raw_call(t, msg.data, max_outsize=96)
    assert m[0] == k and m[3] == k + 3
    return r

@external
def loop_fwd(t: address, n: uint256) -> (uint256, Bytes[96], uint256[2], uint256):
    c0: uint256 = {C0}
    acc: Bytes[96] = b""
    keep: uint256[2] = [n, n + 7]
    for i: uint256 in range(3):
        if i >= n:
            break
        acc = self._echo(t, i)
        first: Bytes[96] = raw_call(t, msg.data, max_outsize=96)
        assert first == acc
    return c0, acc, keep, {C1}

@external
def copy_of(target: address, q: uint256) -> (uint256, address, uint256[2], uint256):
    c0: uint256 = {C0}
    keep: uint256[2] = [q, q + 1]
    a: address = create_copy_of(target)
    b: Bytes[32] = raw_call(0x0000000000000000000000000000000000000004, msg.data, max_outsize=32)
    return c0, a, keep, {C1}
"""

CTOR = f"""
IA: immutable(uint256)
IB: immutable(uint256[3])
ID: immutable(bytes32)
IC: immutable(uint256)
IE: immutable(Bytes[40])

@deploy
def __init__(n: uint256, blob: Bytes[100]):
    IA = {C0}
    IB = [n, n + 1, n + 2]
    # dynamic (msize-based) allocations while the immutables are staged in memory
    d: DynArray[uint256, 10] = []
    for i: uint256 in range(10):
        if i >= n:
            break
        d.append(i * 7)
    enc: Bytes[1000] = abi_encode(d, blob)
    h: bytes32 = keccak256(concat(enc, blob))
    echo: Bytes[100] = raw_call(0x0000000000000000000000000000000000000004, blob, max_outsize=100)
    assert echo == blob
    ID = h
    IC = {C1}
    IE = slice(blob, 0, 5)

@external
@view
def get() -> (uint256, uint256[3], bytes32, uint256, Bytes[40]):
    return IA, IB, ID, IC, IE
"""


def w(x):
    return (x % 2**256).to_bytes(32, "big")


def run(ctx, cfgs):
    from eth_abi import decode, encode
    from vyper.exceptions import VyperException
    from vyper.utils import keccak256, method_id
    from .configs import compile_src
    from .evm import Chain
    rnd = ctx.rng("canary2")
    n_cases = 0
    stats = {"nested": 0, "loops": 0, "x32": 0, "concat": 0, "frames": 0, "ctor": 0, "rejected_programs": 0}

    class CompilerCrash(Exception):
        pass

    def comp(src, cfg):
        with warnings.catch_warnings():
            warnings.simplefilter("ignore")
            try:
                return compile_src(src, cfg, formats=("bytecode",))
            except VyperException:
                raise
            except Exception as e:   # raw exception from the compiler on a valid canary program: fail closed, with the input
                ctx.violation("correspondence-broken", f"compiler raised {type(e).__name__} on a valid canary contract",
                              {"source": src, "config": cfg.name, "error": str(e)[:300]})
                raise CompilerCrash()

    def viol(what, src, cfg, call, expected, observed):
        ctx.violation("failing-input", what, {"source": src, "config": cfg.name, "call": call, "expected": str(expected)[:1500],
                                              "observed": str(observed)[:1500]})

    # programs that must not compile
    for src in LOOP_REJECT:
        try:
            comp(src, cfgs[0])
            ctx.violation("failing-input", "program mutating the array it iterates over was accepted", {"source": src})
            return n_cases, True
        except VyperException:
            stats["rejected_programs"] += 1

    try:
        return _run(ctx, cfgs, comp, viol, stats, rnd)
    except CompilerCrash:
        return 0, True


def _run(ctx, cfgs, comp, viol, stats, rnd):
    from eth_abi import decode, encode
    from vyper.utils import keccak256, method_id
    from .evm import Chain
    n_cases = 0
    P_T = "(uint256,bytes,uint256[2])"
    DUMP_T = ["uint256", f"{P_T}[]", "uint256", "uint256[2][3]", "uint256", P_T, "uint256", "uint256[][]", "uint256", "bytes", "uint256"]
    SX = b"0123456789abcdefghijklmnopqrstuvwxyzABCDEFGHIJ"
    for cfg in cfgs:
        # ---------------- nested containers
        out = comp(NESTED, cfg)
        ch = Chain(cfg.evm)
        addr = ch.deploy(bytes.fromhex(out["bytecode"][2:]))
        if addr is None:
            ctx.violation("correspondence-broken", "nested canary contract failed to deploy", {"config": cfg.name})
            return n_cases, True
        ch.call(addr, method_id("setup()"))
        state = {"ds": [[1, b"one", [11, 12]], [2, b"two", [21, 22]]], "aa": [[1, 2], [3, 4], [5, 6]], "sb": [7, b"seven", [71, 72]],
                 "dd": [[1], [2, 3]]}

        def expect_dump():
            return (C0, tuple((a, b, tuple(c)) for a, b, c in state["ds"]), C1, tuple(tuple(r) for r in state["aa"]), C2,
                    (state["sb"][0], state["sb"][1], tuple(state["sb"][2])), C3, tuple(tuple(r) for r in state["dd"]), C0, SX, C1)

        def check_dump(what, call):
            d = ch.call(addr, method_id("dump()"))
            got = decode(DUMP_T, d.out) if d.ok else None
            if got != expect_dump():
                viol(what + ": state differs from the reference model (neighbour changed / wrong element / missing revert)",
                     NESTED, cfg, call, expect_dump(), got)
                return True
            return False
        big = [0, 1, 2, 3, 2**255, 2**256 - 1, 2**128, 255, 256]
        for _ in range(30):
            i, j = rnd.choice(big), rnd.choice(big + [2**256 - 2, 2**127, 2**127 - 1])
            v = rnd.randrange(1, 2**256)
            kind = rnd.choice(["ds_c", "ds_b", "aa", "sb_b", "dd", "push_dd"])
            n_cases += 1
            stats["nested"] += 1
            if kind == "ds_c":
                jv = j - 2**256 if j >= 2**255 else j
                ok = i < len(state["ds"]) and -(2**127) <= jv < 2**127 and 0 <= jv < 2
                r = ch.call(addr, method_id("set_ds_c(uint256,int128,uint256)") + w(i) + w(j) + w(v))
                if ok:
                    state["ds"][i][2][jv] = v
                call = f"set_ds_c({hex(i)}, {hex(j)}, {v})"
            elif kind == "ds_b":
                val = bytes(rnd.randrange(256) for _ in range(rnd.choice([0, 1, 31, 32, 33, 40])))
                ok = i < len(state["ds"])
                r = ch.call(addr, method_id("set_ds_b(uint256,bytes)") + encode(["uint256", "bytes"], [i, val]))
                if ok:
                    state["ds"][i][1] = val
                call = f"set_ds_b({hex(i)}, 0x{val.hex()})"
            elif kind == "aa":
                iv = i - 2**256 if i >= 2**255 else i
                ok = -(2**127) <= iv < 2**127 and 0 <= iv < 3 and j < 2
                r = ch.call(addr, method_id("set_aa(int128,uint8,uint256)") + w(i) + w(j) + w(v))
                if ok:
                    state["aa"][iv][j] = v
                call = f"set_aa({hex(i)}, {hex(j)}, {v})"
            elif kind == "sb_b":
                val = bytes(rnd.randrange(256) for _ in range(rnd.choice([0, 5, 32, 40])))
                ok = True
                r = ch.call(addr, method_id("set_sb_b(bytes)") + encode(["bytes"], [val]))
                state["sb"][1] = val
                call = f"set_sb_b(0x{val.hex()})"
            elif kind == "dd":
                ok = i < len(state["dd"]) and j < len(state["dd"][i])
                r = ch.call(addr, method_id("set_dd(uint256,uint256,uint256)") + w(i) + w(j) + w(v))
                if ok:
                    state["dd"][i][j] = v
                call = f"set_dd({hex(i)}, {hex(j)}, {v})"
            else:
                ok = i < len(state["dd"]) and len(state["dd"][i]) < 2
                r = ch.call(addr, method_id("push_dd(uint256,uint256)") + w(i) + w(v))
                if ok:
                    state["dd"][i].append(v)
                call = f"push_dd({hex(i)}, {v})"
            if r.ok != ok:
                viol("nested container write: " + ("in-bounds access reverted" if ok else "out-of-bounds access did not revert"),
                     NESTED, cfg, call, "ok" if ok else "revert", "ok" if r.ok else "revert")
                return n_cases, True
            if check_dump("nested container write", call):
                return n_cases, True
        # memory nested
        for _ in range(12):
            i, j, k = rnd.choice([0, 1, 2, 3, 2**256 - 1]), rnd.choice([0, 1, 2, 2**256 - 1, 2**127]), rnd.choice([0, 1, 2, 255, 256])
            v = rnd.randrange(1, 2**256)
            jv = j - 2**256 if j >= 2**255 else j
            ok = i < 2 and -(2**127) <= jv < 2**127 and 0 <= jv < 2 and k < 2
            r = ch.call(addr, method_id("mem_nested(uint256,int128,uint8,uint256)") + w(i) + w(j) + w(k) + w(v))
            n_cases += 1
            stats["nested"] += 1
            exp = None
            if ok:
                m = [[1, b"one", [11, 12]], [2, b"two", [21, 22]]]
                m[i][2][jv] = v
                nn = [[1, 2], [3, 4], [5, 6]]
                nn[jv][k] = v
                exp = (C0, tuple((a, b, tuple(c)) for a, b, c in m), C1, tuple(tuple(x) for x in nn), C2)
            got = decode(["uint256", f"{P_T}[]", "uint256", "uint256[2][3]", "uint256"], r.out) if r.ok else None
            if r.ok != ok or got != exp:
                viol("nested memory containers: wrong effect or missing revert", NESTED, cfg, f"mem_nested({hex(i)},{hex(j)},{k},{v})", exp, got)
                return n_cases, True
        # extract32 / concat
        for i in [0, 1, 13, 14, 15, 32, 46, 2**255, 2**256 - 1, 2**256 - 32, 2**256 - 31]:
            r = ch.call(addr, method_id("x32_storage(uint256)") + w(i))
            ok = i + 32 <= len(SX)
            n_cases += 1
            stats["x32"] += 1
            if r.ok != ok or (ok and r.out != w(C0) + SX[i:i + 32] + w(C1)):
                viol("extract32 on storage: wrong bytes or missing revert", NESTED, cfg, f"x32_storage({hex(i)})", "ok" if ok else "revert", r.out.hex() if r.ok else "revert")
                return n_cases, True
            for blen in (0, 31, 32, 33, 64):
                body = bytes(rnd.randrange(256) for _ in range(blen))
                r = ch.call(addr, method_id("x32_mem(bytes,uint256)") + encode(["bytes", "uint256"], [body, i]))
                ok = i + 32 <= blen
                n_cases += 1
                stats["x32"] += 1
                if r.ok != ok or (ok and r.out != w(C0) + body[i:i + 32] + w(C1)):
                    viol("extract32 on memory: wrong bytes or missing revert", NESTED, cfg, f"x32_mem(0x{body.hex()}, {hex(i)})",
                         "ok" if ok else "revert", r.out.hex() if r.ok else "revert")
                    return n_cases, True
        for la in (0, 1, 9, 10):
            for lb in (0, 3, 10):
                pa = bytes(rnd.randrange(256) for _ in range(la))
                pb = bytes(rnd.randrange(256) for _ in range(lb))
                r = ch.call(addr, method_id("cat(bytes,bytes)") + encode(["bytes", "bytes"], [pa, pb]))
                got = decode(["uint256", "bytes", "uint256", "bytes", "bytes"], r.out) if r.ok else None
                n_cases += 1
                stats["concat"] += 1
                if got != (C0, pa + pb, C1, pa, pb):
                    viol("concat: wrong result or neighbour changed", NESTED, cfg, f"cat(0x{pa.hex()}, 0x{pb.hex()})", (C0, pa + pb, C1, pa, pb), got)
                    return n_cases, True
                r = ch.call(addr, method_id("cat_storage(bytes)") + encode(["bytes"], [pb]))
                got = decode(["uint256", "bytes", "uint256"], r.out) if r.ok else None
                if got != (C0, SX + pb, C1):
                    viol("concat with a storage operand: wrong result", NESTED, cfg, f"cat_storage(0x{pb.hex()})", (C0, SX + pb, C1), got)
                    return n_cases, True
        # ---------------- loops
        out = comp(LOOPS, cfg)
        ch = Chain(cfg.evm)
        addr = ch.deploy(bytes.fromhex(out["bytecode"][2:]))
        for n in range(5):
            ch.call(addr, method_id("setup(uint256)") + w(n))
            ln = min(n, 4)
            arr = [10 + j for j in range(ln)]
            r = ch.call(addr, method_id("loop_sum()"))
            got = decode(["uint256", "uint256", "uint256", "uint256[]", "uint256"], r.out) if r.ok else None
            n_cases += 1
            stats["loops"] += 1
            if got != (C0, sum(arr), ln, tuple(arr), C2):
                viol("for-loop over a storage DynArray: wrong elements / iteration count / neighbour", LOOPS, cfg, f"setup({n}); loop_sum()", (C0, sum(arr), ln, tuple(arr), C2), got)
                return n_cases, True
            r = ch.call(addr, method_id("loop_copy_mutate()"))
            got = decode(["uint256", "uint256[]", "uint256", "uint256"], r.out) if r.ok else None
            if got != (C0, (), C1, sum(arr)):
                viol("for-loop over a memory copy while the storage original is popped", LOOPS, cfg, f"setup({n}); loop_sum(); loop_copy_mutate()", (C0, (), C1, sum(arr)), got)
                return n_cases, True
            a = [rnd.randrange(2**200) for _ in range(ln)]
            h = 0
            for x in a:
                h = (h * 31 + x) % 2**256
            r = ch.call(addr, method_id("loop_mem(uint256[])") + encode(["uint256[]"], [a]))
            if not r.ok or r.out != w(C0) + w(h) + w(C1):
                viol("for-loop over a memory DynArray", LOOPS, cfg, f"loop_mem({a})", h, r.out.hex() if r.ok else "revert")
                return n_cases, True
        a = [rnd.randrange(2**200) for _ in range(3)]
        h = 0
        for x in a:
            h = (h * 31 + x) % 2**256
        r = ch.call(addr, method_id("loop_static(uint256[3])") + encode(["uint256[3]"], [a]))
        if not r.ok or r.out != w(C0) + w(h) + w(C1):
            viol("for-loop over a calldata static array", LOOPS, cfg, f"loop_static({a})", h, r.out.hex() if r.ok else "revert")
            return n_cases, True
        # ---------------- internal calls with large frames, arrays by value
        out = comp(FRAMES, cfg)
        ch = Chain(cfg.evm)
        addr = ch.deploy(bytes.fromhex(out["bytecode"][2:]))
        for q, n in ((1, 0), (5, 3), (2**100, 8), (7, 9)):
            r = ch.call(addr, method_id("callbig(uint256,uint256)") + w(q) + w(n))
            arr = [q + i for i in range(20)]
            d = [q * 2 + i for i in range(min(n, 8))]
            leaf = lambda a, k: sum(a) + k + 29
            exp = (C0, tuple(arr), C1, tuple(d), C2, leaf(arr, q) + sum(d) + leaf(arr, q + 1))
            got = decode(["uint256", "uint256[20]", "uint256", "uint256[]", "uint256", "uint256"], r.out) if r.ok else None
            n_cases += 1
            stats["frames"] += 1
            if got != exp:
                viol("internal calls with large frames: caller's variables / canaries changed or wrong result", FRAMES, cfg, f"callbig({q},{n})", exp, got)
                return n_cases, True
        # ---------------- index expression shrinking the indexed array
        for name, src in (("SHRINK", SHRINK), ("SHRINK_MEM", SHRINK_MEM)):
            try:
                from vyper.exceptions import VyperException, VyperInternalException
                from .configs import compile_src
                with warnings.catch_warnings():
                    warnings.simplefilter("ignore")
                    out = compile_src(src, cfg, formats=("bytecode",))
            except (VyperException, VyperInternalException):
                # a pipeline may refuse such a program (legacy: "risky overlap"); whether the diagnostic is user-facing is C20
                stats["shrink_rejected_at_compile_time"] = stats.get("shrink_rejected_at_compile_time", 0) + 1
                continue
            ch = Chain(cfg.evm)
            addr = ch.deploy(bytes.fromhex(out["bytecode"][2:]))
            if name == "SHRINK":
                for n in range(5):
                    for k in (0, 1, 2, 3, 4, 2**256 - 1):
                        if n < 4:    # growing index expression: the element appended while evaluating the index is addressable
                            ch.call(addr, method_id("setup(uint256)") + w(n))
                            r = ch.call(addr, method_id("read_grow(uint256)") + w(k))
                            arr_g = [10 + j for j in range(n)] + [77]
                            okg = k < len(arr_g)
                            n_cases += 1
                            if r.ok != okg or (okg and r.out != w(arr_g[k])):
                                viol("index expression that appends to the indexed array: bounds must be checked against the length after the "
                                     "index was evaluated", src, cfg, f"setup({n}); read_grow({hex(k)})", arr_g[k] if okg else "revert",
                                     r.out.hex() if r.ok else "revert")
                                return n_cases, True
                        for mode in ("read", "write"):
                            ch.call(addr, method_id("setup(uint256)") + w(n))
                            ln = min(n, 4)
                            arr = [10 + j for j in range(ln)]
                            v = rnd.randrange(1, 2**256)
                            ok = ln >= 1 and k < ln - 1
                            if mode == "read":
                                r = ch.call(addr, method_id("read_shrink(uint256)") + w(k))
                                good = r.ok == ok and (not ok or r.out == w(arr[k]))
                                call = f"setup({n}); read_shrink({hex(k)})"
                            else:
                                r = ch.call(addr, method_id("write_shrink(uint256,uint256)") + w(k) + w(v))
                                good = r.ok == ok
                                call = f"setup({n}); write_shrink({hex(k)}, {v})"
                            want = list(arr)
                            if ok:
                                want = arr[:-1]
                                if mode == "write":
                                    want[k] = v
                            d = ch.call(addr, method_id("dump()"))
                            got = decode(["uint256", "uint256[]", "uint256"], d.out) if d.ok else None
                            n_cases += 1
                            stats["shrink"] = stats.get("shrink", 0) + 1
                            if not good or got != (C0, tuple(want), C1):
                                viol("index expression that pops from the indexed array: bounds must be checked against the length after the index "
                                     "was evaluated", src, cfg, call, ("ok" if ok else "revert", want), ("ok" if r.ok else "revert", r.out.hex(), got))
                                return n_cases, True
            else:
                for idx in (0, 1, 2, 3, 2**256 - 1):
                    ok = idx < 2
                    r = ch.call(addr, method_id("mem_read(uint256)") + w(idx))
                    n_cases += 1
                    stats["shrink"] = stats.get("shrink", 0) + 1
                    if r.ok != ok or (ok and r.out != w(C0) + w(10 + idx) + w(C1)):
                        viol("b[b.pop()] on a memory DynArray: read checked against the old length", src, cfg, f"mem_read({hex(idx)})",
                             "ok" if ok else "revert", r.out.hex() if r.ok else "revert")
                        return n_cases, True
                    v = rnd.randrange(1, 2**256)
                    r = ch.call(addr, method_id("mem_write(uint256,uint256)") + w(idx) + w(v))
                    exp = None
                    if ok:
                        bb_ = [10, 11]
                        bb_[idx] = v
                        exp = (C0, tuple(bb_), C1)
                    got = decode(["uint256", "uint256[]", "uint256"], r.out) if r.ok else None
                    if r.ok != ok or got != exp:
                        viol("b[b.pop()] = v on a memory DynArray: write checked against the old length", src, cfg, f"mem_write({hex(idx)}, {v})", exp, got)
                        return n_cases, True
        # ---------------- concat of bytesM operands at the end of a callee frame
        out = comp(CONCATM, cfg)
        ch = Chain(cfg.evm)
        addr = ch.deploy(bytes.fromhex(out["bytecode"][2:]))
        rb = lambda k: bytes(rnd.randrange(1, 256) for _ in range(k))
        pad = lambda b_: b_ + b"\0" * (32 - len(b_))
        for _ in range(3):
            tests = []
            a, b = rb(31), rb(1)
            tests.append(("top2(bytes31,bytes1)", pad(a) + pad(b), ["uint256", "bytes", "uint256"], (C0, a + b, C1)))
            a, b, c = rb(15), rb(16), rb(1)
            tests.append(("top3(bytes15,bytes16,bytes1)", pad(a) + pad(b) + pad(c), ["uint256", "bytes", "uint256"], (C0, a + b + c, C1)))
            a, b = rb(1), rb(1)
            tests.append(("top11(bytes1,bytes1)", pad(a) + pad(b), ["uint256", "bytes", "uint256"], (C0, a + b, C1)))
            a, b = rb(32), rb(32)
            tests.append(("top64(bytes32,bytes32)", a + b, ["uint256", "bytes", "uint256"], (C0, a + b, C1)))
            a, b, c = rb(31), rb(rnd.randint(0, 5)), rb(1)
            tests.append(("topmix(bytes31,bytes,bytes1)", encode(["bytes31", "bytes", "bytes1"], [a, b, c]), ["uint256", "bytes", "uint256"], (C0, a + b + c, C1)))
            a, b = rb(31), rb(1)
            x = rnd.randrange(1, 2**256)
            tests.append(("top_arg(uint256,bytes31,bytes1)", w(x) + pad(a) + pad(b), ["uint256", "bytes"], (x, a + b)))
            bb = rb(rnd.choice([0, 1, 31, 32, 33, 40]))
            s_ = rnd.randint(0, len(bb))
            l_ = rnd.randint(0, len(bb) - s_)
            n_ = rnd.choice([0, 1, 2**255, 2**256 - 1, rnd.randrange(2**256)])
            x = rnd.randrange(1, 2**256)
            tests.append(("top_edge(uint256,bytes,uint256,uint256,uint256)", encode(["uint256", "bytes", "uint256", "uint256", "uint256"], [x, bb, s_, l_, n_]),
                          ["uint256", "bytes", "bytes", "string", "uint256"], (x, bb[s_:s_ + l_], encode(["uint256", "bytes"], [n_, bb]), str(n_), x)))
            for sig, data, rt, exp in tests:
                r = ch.call(addr, method_id(sig) + data)
                got = decode(rt, r.out) if r.ok else None
                n_cases += 1
                stats["concat"] += 1
                if got != exp:
                    viol("concat of bytesM operands at the end of a callee frame: result or the caller's adjacent variable changed",
                         CONCATM, cfg, f"{sig} data=0x{data.hex()}", exp, got)
                    return n_cases, True
        # ---------------- runtime-sized allocations (raw_call with msg.data, create_copy_of)
        out = comp(DYN, cfg)
        ch = Chain(cfg.evm)
        addr = ch.deploy(bytes.fromhex(out["bytecode"][2:]))
        ident = 4
        for q in (0, 5, 2**255):
            data = method_id("fwd(address,uint256)") + w(ident) + w(q)
            r = ch.call(addr, data)
            got = decode(["uint256", "uint256[3]", "bytes", "uint256"], r.out) if r.ok else None
            exp = (C0, tuple((q + i) % 2**256 for i in range(3)), data[:128], C1)
            n_cases += 1
            stats["dynamic"] = stats.get("dynamic", 0) + 1
            if q != 2**255 and got != exp or (q == 2**255 and got != exp):
                viol("raw_call forwarding msg.data (runtime-sized buffer): neighbours changed or wrong output", DYN, cfg, f"fwd(0x04, {q})", exp, got)
                return n_cases, True
        for n in range(4):
            data = method_id("loop_fwd(address,uint256)") + w(ident) + w(n)
            r = ch.call(addr, data)
            got = decode(["uint256", "bytes", "uint256[2]", "uint256"], r.out) if r.ok else None
            exp = (C0, data[:96] if n else b"", (n, n + 7), C1)
            n_cases += 1
            stats["dynamic"] = stats.get("dynamic", 0) + 1
            if got != exp:
                viol("runtime-sized buffers in a loop / internal call: neighbours changed or wrong output", DYN, cfg, f"loop_fwd(0x04, {n})", exp, got)
                return n_cases, True
        data = method_id("copy_of(address,uint256)") + w(int(addr, 16)) + w(9)
        r = ch.call(addr, data)
        got = decode(["uint256", "address", "uint256[2]", "uint256"], r.out) if r.ok else None
        n_cases += 1
        stats["dynamic"] = stats.get("dynamic", 0) + 1
        if got is None or got[0] != C0 or got[2] != (9, 10) or got[3] != C1 or ch.code(got[1]) != ch.code(addr):
            viol("create_copy_of (runtime-sized scratch): neighbours changed or the copy differs from the target's code", DYN, cfg,
                 "copy_of(self, 9)", "(C0, <copy with identical code>, (9, 10), C1)", got)
            return n_cases, True
        # ---------------- constructor: dynamic allocation next to staged immutables
        out = comp(CTOR, cfg)
        for n, blob in ((0, b"12345"), (3, b"hello world"), (10, bytes(range(100)))):
            ch = Chain(cfg.evm)
            args = encode(["uint256", "bytes"], [n, blob])
            addr = ch.deploy(bytes.fromhex(out["bytecode"][2:]) + args)
            n_cases += 1
            stats["ctor"] += 1
            if addr is None:
                viol("constructor with dynamic allocations next to immutables reverted", CTOR, cfg, f"deploy({n}, 0x{blob.hex()})", "deploys", "revert")
                return n_cases, True
            r = ch.call(addr, method_id("get()"))
            d = [i * 7 for i in range(min(n, 10))]
            enc = encode(["uint256[]", "bytes"], [d, blob])
            exp = (C0, (n, n + 1, n + 2), keccak256(enc + blob), C1, blob[:5])
            got = decode(["uint256", "uint256[3]", "bytes32", "uint256", "bytes"], r.out) if r.ok else None
            if got != exp:
                viol("immutables corrupted by dynamic allocation in the constructor (or wrong hash)", CTOR, cfg, f"deploy({n}, 0x{blob.hex()}); get()", exp, got)
                return n_cases, True
    ctx.corr["canaries_round2"] = dict(stats, cases=n_cases, configs=[c.name for c in cfgs])
    return n_cases, False
