"""C14 (MemMergePass, vyper/venom/passes/memmerging.py): verified per-invocation validator + interval kernel + search.

Coq (coq/C14MM): `MemSym.v` -- byte-addressed region memory, memory programs (`mi`), symbolic execution with byte provenance,
`mm_check B A`; `MemSymProofs.v`/`PropsMemMerge.v` -- `mm_check_sound`: an accepted pair of blocks has, for every memory
content / calldata / data section / values of the other variables, the same observations at every barrier and the same
final memory, and the loads that survive read the same bytes.

This module: the exporter (block -> memory program with addresses resolved to (region, offset) by an own resolver, not
BasePtrAnalysis), the families built with parse_venom, the Observer that wraps MemMergePass.run_pass while corpus contracts
compile, and the Search (independent byte-level interpreter on the real IR objects; real back end + pyrevm)."""
import hashlib
import time

from . import coqrun
from .common import COQ

W = 2**256
MODEL_FILES = ["C14MM/MemSym.v", "C14MM/GenCopy.v", "C14MM/CopyModel.v"]
PROOF_FILES = ["C14MM/MemSymProofs.v", "C14MM/CopyProofs.v", "C14MM/LowerDload.v", "C14MM/PropsMemMerge.v"]
IMPORTS = ("From Coq Require Import NArith.\nFrom Verif Require Import Base.Word256 C14MM.MemSym.\nOpen Scope Z_scope.\n"
           "Definition bz (b : bool) : Z := if b then 1 else 0.\n")


# ------------------------------------------------------------------ address resolution (independent of BasePtrAnalysis)
class Resolver:
    """var -> (region, offset) | None.  region 0 = literal address, region n>0 = n-th alloca-like instruction."""
    ALLOCA = ("alloca", "palloca", "calloca", "dalloca")

    def __init__(self, fn, regions=None):
        from vyper.venom.analysis import DFGAnalysis, IRAnalysesCache
        self.dfg = IRAnalysesCache(fn).request_analysis(DFGAnalysis)
        self.regions = regions if regions is not None else {}
        self.memo = {}

    def region_of(self, inst):
        key = inst.output.name
        if key not in self.regions:
            self.regions[key] = len(self.regions) + 1
        return self.regions[key]

    def resolve(self, op, depth=0):
        from vyper.venom.basicblock import IRLiteral, IRVariable
        if isinstance(op, IRLiteral):
            return (0, op.value)
        if not isinstance(op, IRVariable):
            return None
        if op.name in self.memo:
            return self.memo[op.name]
        if depth > 40:
            return None
        self.memo[op.name] = None      # cycle guard
        r = None
        inst = self.dfg.get_producing_instruction(op)
        if inst is not None:
            o = inst.opcode
            if o in self.ALLOCA:
                r = (self.region_of(inst), 0)
            elif o == "assign":
                r = self.resolve(inst.operands[0], depth + 1)
                if r is not None and r[0] == 0:
                    r = None if not isinstance(inst.operands[0], IRLiteral) else r
            elif o in ("add", "sub"):
                rhs, lhs = inst.operands
                if isinstance(rhs, IRLiteral) and isinstance(lhs, IRVariable):
                    b = self.resolve(lhs, depth + 1)
                    if b is not None and b[0] != 0:
                        r = (b[0], b[1] + (rhs.value if o == "add" else -rhs.value))
                elif o == "add" and isinstance(lhs, IRLiteral) and isinstance(rhs, IRVariable):
                    b = self.resolve(rhs, depth + 1)
                    if b is not None and b[0] != 0:
                        r = (b[0], b[1] + lhs.value)
            elif o == "phi":
                rs = [self.resolve(v, depth + 1) for _, v in inst.phi_operands]
                if rs and all(x is not None and x == rs[0] for x in rs) and rs[0][0] != 0:
                    r = rs[0]
        self.memo[op.name] = r
        return r


class MemExport:
    """memory programs of the blocks of one function, before and after, with one variable numbering"""

    def __init__(self, fn):
        self.var = {}
        self.lab = {}
        self.opc = {}
        self.regions = {}
        self.fn = fn
        for bb in fn.get_basic_blocks():
            for i in bb.instructions:
                for o in i.get_outputs():
                    self.v(o)
                for o in i.operands:
                    if hasattr(o, "name") and o.__class__.__name__ == "IRVariable":
                        self.v(o)
        self.nv = len(self.var)

    def v(self, var):
        if var.name not in self.var:
            self.var[var.name] = len(self.var)
        return self.var[var.name]

    def arg(self, o):
        from vyper.venom.basicblock import IRLabel, IRLiteral, IRVariable
        if isinstance(o, IRLiteral):
            return f"ALit {coqrun.hexlit(o.value)}"
        if isinstance(o, IRVariable):
            return f"AVar {self.v(o)}%N"
        if isinstance(o, IRLabel):
            if o.value not in self.lab:
                self.lab[o.value] = len(self.lab)
            return f"ALab {self.lab[o.value]}%N"
        raise ValueError(repr(o))

    def opid(self, inst):
        k = inst.opcode
        if k not in self.opc:
            self.opc[k] = len(self.opc) + 1
        return self.opc[k]

    def program(self, bb, res):
        """list of Coq `mi` terms (strings) + structured form for the python interpreter of memory programs"""
        import vyper.venom.effects as eff
        from vyper.venom.basicblock import IRLiteral, IRVariable
        out = []

        def loc(op):
            r = res.resolve(op)
            return None if r is None else (r[0], r[1])

        def lit(op):
            return op.value if isinstance(op, IRLiteral) else None

        def barrier(inst):
            out.append(f"MBarrier {self.opid(inst)}%N [{'; '.join(self.arg(o) for o in inst.operands)}]")

        def extsrc(kind, op):
            """source in calldata / data: literal offset or variable offset"""
            if isinstance(op, IRLiteral):
                return f"({kind} {coqrun.hexlit(op.value)})"
            return f"({kind}V {self.v(op)}%N 0)"

        for inst in bb.instructions:
            o = inst.opcode
            ops = inst.operands
            if o == "nop":
                continue
            if o == "mload":
                a = loc(ops[0])
                if a is None:
                    barrier(inst)
                else:
                    out.append(f"MLoad {self.v(inst.output)}%N {a[0]}%N {coqrun.hexlit(a[1])}")
            elif o in ("calldataload", "dload"):
                kind = "SCd" if o == "calldataload" else "SDt"
                if isinstance(ops[0], (IRLiteral, IRVariable)):
                    out.append(f"MLoadExt {self.v(inst.output)}%N {extsrc(kind, ops[0])}")
                else:
                    barrier(inst)
            elif o == "mstore":
                val, ptr = ops
                a = loc(ptr)
                if a is None or not isinstance(val, (IRLiteral, IRVariable)):
                    barrier(inst)
                elif isinstance(val, IRLiteral):
                    out.append(f"MStoreL {a[0]}%N {coqrun.hexlit(a[1])} {coqrun.hexlit(val.value)}")
                else:
                    out.append(f"MStoreV {a[0]}%N {coqrun.hexlit(a[1])} {self.v(val)}%N")
            elif o in ("mcopy", "calldatacopy", "dloadbytes"):
                size, src, dst = ops
                n = lit(size)
                d = loc(dst)
                s = None
                if o == "mcopy":
                    sl = loc(src)
                    if sl is not None:
                        s = f"(SMem {sl[0]}%N {coqrun.hexlit(sl[1])})"
                elif isinstance(src, IRLiteral):
                    s = extsrc("SCd" if o == "calldatacopy" else "SDt", src)
                elif isinstance(src, IRVariable):
                    p = res.dfg.get_producing_instruction(src)
                    if o == "calldatacopy" and p is not None and p.opcode == "calldatasize":
                        s = "SZero"
                    else:
                        s = extsrc("SCd" if o == "calldatacopy" else "SDt", src)
                if n is None or d is None or s is None or n < 0:
                    barrier(inst)
                else:
                    out.append(f"MCopy {d[0]}%N {coqrun.hexlit(d[1])} {s} {coqrun.hexlit(n)}")
            else:
                effs = inst.get_read_effects() | inst.get_write_effects()
                if eff.Effects.MEMORY in effs:
                    barrier(inst)
                else:
                    outs = [self.v(x) for x in inst.get_outputs()]
                    if outs and all(x >= self.nv for x in outs):
                        continue            # inserted by the pass (offset computations, calldatasize)
                    out.append(f"MPure {self.opid(inst)}%N [{'; '.join(self.arg(x) for x in ops)}] [{'; '.join(f'{x}%N' for x in outs)}]")
        return out

    def blocks(self):
        """{label: [mi terms]} with a fresh resolver (the DFG of the function as it is now) and the shared region table"""
        res = Resolver(self.fn, self.regions)
        return {bb.label.value: self.program(bb, res) for bb in self.fn.get_basic_blocks()}


def pair_samples(mx, before, after, meta):
    """one sample per block whose memory program changed"""
    out = []
    for lbl, pb in before.items():
        pa = after.get(lbl)
        if pa is None or pa == pb:
            continue
        out.append(dict(meta, block=lbl, B="[" + ";\n ".join(pb) + "]", A="[" + ";\n ".join(pa) + "]",
                        nb=len(pb), na=len(pa), unsupported=unsupported_reason(mx, pb, pa)))
    return out


def unsupported_reason(mx, pb, pa):
    """shapes outside the validator's domain (both produced by `_merge_mstore_dload` only):
    (a) a use of the dload result renamed to a fresh `mload` result (a fresh variable occurs as an operand of an opaque
    instruction), (b) dload + mstore through an unresolvable pointer turned into dloadbytes (a new dloadbytes barrier)"""
    import re
    for t in pa:
        if t.startswith("MPure") or t.startswith("MBarrier"):
            for m in re.finditer(r"AVar (\d+)%N", t):
                if int(m.group(1)) >= mx.nv:
                    return "dload result renamed to a fresh mload result"
    k = mx.opc.get("dloadbytes")
    if k is not None:
        cnt = lambda prog: sum(1 for t in prog if t.startswith(f"MBarrier {k}%N"))
        if cnt(pa) > cnt(pb):
            return "dload + mstore through an unresolved pointer merged into dloadbytes"
    return None


def evaluate(samples, name, timeout=900):
    if not samples:
        return []
    exprs = [f"let B : list mi := {s['B']} in let A : list mi := {s['A']} in [bz (mm_check B A); bz (mm_check A B)]" for s in samples]
    return coqrun.eval_zlists(IMPORTS, exprs, name, shard=max(1, (len(exprs) + 7) // 8), timeout=timeout)


# ------------------------------------------------------------------ independent interpreter on the real IR (Search)
def interp(fn, cd, data, mem0, bases=None):
    """single-function straight-line/CFG interpreter with byte memory; returns the event list (stores to storage, hashes
    of memory ranges, returned bytes).  Raises KeyError on opcodes it does not know."""
    from vyper.venom.basicblock import IRLiteral, IRVariable
    mem = dict(mem0)
    env = {}
    ev = []
    nbase = [0]

    def rd(a, n):
        return [mem.get(a + i, 0) for i in range(n)]

    def val(o):
        if isinstance(o, IRLiteral):
            return o.value % W
        if isinstance(o, IRVariable):
            return env[o.name]
        raise KeyError(repr(o))
    bb, prev, fuel = fn.entry, None, 2000
    while bb is not None and fuel > 0:
        nxt = None
        upd = {}
        for inst in bb.instructions:
            if inst.opcode != "phi":
                break
            for lbl, var in inst.phi_operands:
                if prev is not None and lbl.value == prev.label.value:
                    upd[inst.output.name] = env[var.name]
        env.update(upd)
        for inst in bb.instructions:
            op = inst.opcode
            fuel -= 1
            if op in ("nop", "phi"):
                continue
            if op in Resolver.ALLOCA:
                nm = inst.output.name
                if bases is not None and nm in bases:
                    env[nm] = bases[nm]
                else:
                    nbase[0] += 1
                    env[nm] = 100000 * nbase[0]
                continue
            v = [val(o) for o in inst.operands]
            if op == "mload":
                env[inst.output.name] = int.from_bytes(bytes(rd(v[0], 32)), "big")
            elif op == "mstore":
                b = v[0].to_bytes(32, "big")
                for i in range(32):
                    mem[v[1] + i] = b[i]
            elif op == "mcopy":
                n, s, d = v
                srcb = rd(s, n)
                for i in range(n):
                    mem[d + i] = srcb[i]
            elif op == "calldatacopy":
                n, s, d = v
                for i in range(n):
                    mem[d + i] = cd[s + i] if s + i < len(cd) else 0
            elif op == "calldataload":
                s = v[0]
                env[inst.output.name] = int.from_bytes(bytes((cd[s + i] if s + i < len(cd) else 0) for i in range(32)), "big")
            elif op == "calldatasize":
                env[inst.output.name] = len(cd)
            elif op == "dloadbytes":
                n, s, d = v
                for i in range(n):
                    mem[d + i] = data[s + i] if s + i < len(data) else 0
            elif op == "dload":
                s = v[0]
                env[inst.output.name] = int.from_bytes(bytes((data[s + i] if s + i < len(data) else 0) for i in range(32)), "big")
            elif op == "add":
                env[inst.output.name] = (v[0] + v[1]) % W
            elif op == "sub":
                env[inst.output.name] = (v[1] - v[0]) % W
            elif op == "assign":
                env[inst.output.name] = v[0]
            elif op == "iszero":
                env[inst.output.name] = int(v[0] == 0)
            elif op == "sstore":
                ev.append(("sstore", v[1], v[0]))
            elif op == "sha3":
                n, s = v[0], v[1]
                env[inst.output.name] = int.from_bytes(hashlib.sha256(bytes(rd(s, n))).digest(), "big")
            elif op == "jmp":
                nxt = fn.get_basic_block(inst.operands[0].value)
            elif op == "jnz":
                nxt = fn.get_basic_block(inst.operands[1].value if v[0] != 0 else inst.operands[2].value)
            elif op == "stop":
                return ev
            elif op == "return":
                n, s = v[0], v[1]
                ev.append(("return", bytes(rd(s, n)).hex()))
                return ev
            else:
                raise KeyError(op)
        prev, bb = bb, nxt
    return ev + [("end",)]


def run_memmerge(fn, abstract):
    from vyper.venom.analysis import IRAnalysesCache
    from vyper.venom.passes import MemMergePass
    MemMergePass(IRAnalysesCache(fn), fn).run_pass(memory_abstract=abstract)


def search_text(text, abstract, rnd, trials=4):
    from vyper.venom.parser import parse_venom
    f0 = list(parse_venom(text).functions.values())[0]
    f1 = list(parse_venom(text).functions.values())[0]
    run_memmerge(f1, abstract)
    for t in range(trials):
        cd = bytes(rnd.randrange(1, 256) for _ in range([0, 40, 100, 300][t % 4]))
        if t >= 2 and len(cd) >= 64:
            # small first words: variable calldata / data offsets stay inside the calldata
            cd = (4).to_bytes(32, "big") + (36).to_bytes(32, "big") + cd[64:]
        data = bytes(rnd.randrange(1, 256) for _ in range(300))
        mem0 = {}
        for b in (0, 100000, 200000, 300000):
            for i in range(640):
                mem0[b + i] = rnd.randrange(1, 256)
        try:
            a, b = interp(f0, cd, data, mem0), interp(f1, cd, data, mem0)
        except KeyError:
            return None
        if a != b:
            return {"calldata": cd.hex(), "data_section": data.hex(), "initial_memory": "bytes mem0[r*100000+i] = seeded nonzero (see oracle)",
                    "before": str(a)[:600], "after": str(b)[:600], "function_after_pass": str(f1)}
    return None


# ------------------------------------------------------------------ families
TAIL3 = "    %hA = sha3 %A, 512\n    sstore 65, %hA\n    %hB = sha3 %B, 512\n    sstore 66, %hB\n    %hC = sha3 %C, 512\n    sstore 67, %hC\n"


def fn_text(lines, abstract, name="f"):
    hdr = ["%A = alloca 512", "%B = alloca 512", "%C = alloca 512"] if abstract else []
    body = "\n    ".join(hdr + lines)
    tail = (TAIL3 if abstract else "") + "    %h0 = sha3 0, 640\n    sstore 7, %h0\n    stop\n"
    return f"function {name} {{\n{name}:\n    {body}\n{tail}}}\n"


def hand_family():
    """(name, lines, abstract)"""
    F = []

    def both(name, lines):
        F.append((name, lines, False))

    # adjacent / overlapping / reversed / gaps / zero length / 31-32-33 byte pieces, for the three copy kinds
    for op, ld in (("mcopy", "mload"), ("calldatacopy", "calldataload"), ("dloadbytes", "dload")):
        sb = 300 if op == "mcopy" else 0
        both(f"{op}/adjacent", [f"{op} 0, {sb}, 32", f"{op} 32, {sb + 32}, 32", f"{op} 64, {sb + 64}, 40"])
        both(f"{op}/reversed", [f"{op} 64, {sb + 64}, 40", f"{op} 32, {sb + 32}, 32", f"{op} 0, {sb}, 32"])
        both(f"{op}/overlap", [f"{op} 0, {sb}, 48", f"{op} 32, {sb + 32}, 48", f"{op} 16, {sb + 16}, 8"])
        both(f"{op}/gap1", [f"{op} 0, {sb}, 32", f"{op} 33, {sb + 33}, 32"])
        both(f"{op}/delta", [f"{op} 0, {sb}, 32", f"{op} 32, {sb + 33}, 32"])
        both(f"{op}/zero", [f"{op} 0, {sb}, 32", f"{op} 32, {sb + 32}, 0", f"{op} 32, {sb + 32}, 32", f"{op} 200, {sb}, 0"])
        for n in (31, 32, 33):
            both(f"{op}/piece{n}", [f"{op} 0, {sb}, {n}", f"{op} {n}, {sb + n}, {n}"])
            both(f"{op}/single{n}", [f"{op} 8, {sb + 5}, {n}"])
        both(f"{op}/pairs", [f"%a = {ld} {sb}", f"%b = {ld} {sb + 32}", "mstore 0, %a", "mstore 32, %b"])
        both(f"{op}/pair_then_copy", [f"%a = {ld} {sb}", "mstore 0, %a", f"{op} 32, {sb + 32}, 64"])
        both(f"{op}/pair_used_elsewhere", [f"%a = {ld} {sb}", "mstore 0, %a", f"%b = {ld} {sb + 32}", "mstore 32, %b", "sstore 1, %a"])
        both(f"{op}/read_between", [f"{op} 0, {sb}, 32", "%r = mload 0", f"{op} 32, {sb + 32}, 32", "sstore 1, %r"])
        both(f"{op}/read_between_other", [f"{op} 0, {sb}, 32", "%r = mload 128", f"{op} 32, {sb + 32}, 32", "sstore 1, %r"])
        both(f"{op}/store_between", [f"{op} 0, {sb}, 32", "mstore 16, 7", f"{op} 32, {sb + 32}, 32"])
        both(f"{op}/sha_between", [f"{op} 0, {sb}, 32", "%r = sha3 0, 64", f"{op} 32, {sb + 32}, 32", "sstore 1, %r"])
        both(f"{op}/waw_other_delta", [f"{op} 0, {sb}, 64", f"{op} 16, {sb + 100}, 8", f"{op} 64, {sb + 64}, 32"])
        both(f"{op}/waw_lower", [f"{op} 8, {sb + 8}, 32", f"{op} 0, {sb + 200}, 16", f"{op} 40, {sb + 40}, 32"])
        both(f"{op}/var_offset", ["%p = calldataload 0", f"{op} %p, {sb}, 32", f"{op} 32, {sb + 32}, 32", f"{op} 64, {sb + 64}, 32"])
    # memmove hazards (mcopy only)
    both("mcopy/src_overlaps_earlier_dst", ["mcopy 100, 0, 32", "mcopy 132, 32, 32", "mcopy 164, 132, 32"])
    both("mcopy/raw_chain", ["mcopy 32, 0, 32", "mcopy 64, 32, 32", "mcopy 96, 64, 32"])
    both("mcopy/war", ["mcopy 200, 0, 32", "mcopy 0, 300, 32", "mcopy 232, 32, 32"])
    both("mcopy/self_overlap_fwd", ["mcopy 8, 0, 64", "mcopy 72, 64, 32"])
    both("mcopy/self_overlap_bwd", ["mcopy 0, 8, 64", "mcopy 64, 72, 32"])
    both("mcopy/load_then_clobber", ["%a = mload 0", "mcopy 0, 300, 32", "mstore 100, %a", "%b = mload 32", "mstore 132, %b"])
    both("mcopy/load_store_swap", ["%a = mload 0", "%b = mload 32", "mstore 0, %b", "mstore 32, %a"])
    both("mcopy/pending_then_load_dst", ["%a = mload 300", "mstore 0, %a", "%b = mload 332", "mstore 32, %b", "%c = mload 16", "mstore 400, %c"])
    # zeroing
    both("zero/stores", ["mstore 0, 0", "mstore 32, 0", "mstore 64, 0"])
    both("zero/cdcopy", ["%z = calldatasize", "calldatacopy 0, %z, 64", "mstore 64, 0", "calldatacopy 96, %z, 5"])
    both("zero/single32", ["%z = calldatasize", "calldatacopy 7, %z, 32"])
    both("zero/nonzero_between", ["mstore 0, 0", "mstore 32, 1", "mstore 64, 0"])
    both("zero/read_between", ["mstore 0, 0", "%r = mload 0", "mstore 32, 0", "sstore 1, %r"])
    both("zero/not_calldatasize", ["%z = calldataload 0", "calldatacopy 0, %z, 64", "mstore 64, 0"])
    both("zero/cdcopy_beyond", ["calldatacopy 0, 1000, 64", "mstore 64, 0"])
    both("cd/beyond_size", ["calldatacopy 0, 90, 32", "calldatacopy 32, 122, 32"])
    # dload + mstore with variable pointers (_merge_mstore_dload)
    both("dload/var_ptrs", ["%s = calldataload 0", "%d = calldataload 32", "%x = dload %s", "mstore %d, %x"])
    # abstract memory
    A = []
    A.append(("abs/adjacent", ["%p1 = add %B, 32", "%q1 = add %A, 32", "mcopy %A, %B, 32", "mcopy %q1, %p1, 32"]))
    A.append(("abs/pairs", ["%a = mload %B", "%p = add %B, 32", "%b = mload %p", "mstore %A, %a", "%q = add %A, 32", "mstore %q, %b"]))
    A.append(("abs/two_regions", ["mcopy %A, %B, 32", "mcopy %C, %B, 32", "%q = add %A, 32", "%p = add %B, 32", "mcopy %q, %p, 32"]))
    A.append(("abs/same_region", ["%p = add %A, 64", "mcopy %A, %p, 32", "%q = add %A, 32", "%r = add %A, 96", "mcopy %q, %r, 32"]))
    A.append(("abs/concrete_between", ["mcopy %A, %B, 32", "mstore 0, 5", "%q = add %A, 32", "%p = add %B, 32", "mcopy %q, %p, 32"]))
    A.append(("abs/zero", ["mstore %A, 0", "%q = add %A, 32", "mstore %q, 0", "%r = add %A, 64", "mstore %r, 0"]))
    A.append(("abs/cd", ["calldatacopy %A, 4, 32", "%q = add %A, 32", "calldatacopy %q, 36, 32"]))
    for name, lines in A:
        F.append((name, lines, True))
        F.append((name + "/concrete_mode", lines, None))     # allocas present but pass run with memory_abstract=False
    return F


def random_lines(rnd, abstract):
    offs = [0, 8, 16, 31, 32, 33, 48, 64, 96, 100, 128, 160, 200, 224, 256]
    lens = [0, 1, 8, 16, 31, 32, 33, 48, 64, 96]
    kinds = rnd.choice([["mload", "mstore", "mcopy"], ["cdl", "mstore", "cdc", "mstore0", "zero"], ["dload", "mstore", "dlb"],
                        ["mload", "mstore", "mcopy", "cdl", "cdc", "mstore0", "mstorel", "zero", "sha3", "dload", "dlb"]])
    lines, vs = [], []
    k = [0]

    def ptr():
        k[0] += 1
        if not abstract or rnd.random() < 0.15:
            return str(rnd.choice(offs))
        b, o = rnd.choice("ABC"), rnd.choice(offs)
        if o == 0 and rnd.random() < 0.5:
            return f"%{b}"
        lines.append(f"%p{k[0]} = add %{b}, {o}")
        return f"%p{k[0]}"
    for _ in range(rnd.randrange(2, 10)):
        t = rnd.choice(kinds)
        k[0] += 1
        n = k[0]
        if t == "mload":
            lines.append(f"%v{n} = mload {ptr()}"); vs.append(f"%v{n}")
        elif t == "cdl":
            lines.append(f"%v{n} = calldataload {rnd.choice(offs)}"); vs.append(f"%v{n}")
        elif t == "dload":
            lines.append(f"%v{n} = dload {rnd.choice(offs)}"); vs.append(f"%v{n}")
        elif t == "mstore" and vs:
            lines.append(f"mstore {ptr()}, {rnd.choice(vs[-3:])}")
        elif t == "mstore0":
            lines.append(f"mstore {ptr()}, 0")
        elif t == "mstorel":
            lines.append(f"mstore {ptr()}, {rnd.choice([1, 7, W - 1])}")
        elif t == "mcopy":
            p, q = ptr(), ptr()
            lines.append(f"mcopy {p}, {q}, {rnd.choice(lens)}")
        elif t == "cdc":
            lines.append(f"calldatacopy {ptr()}, {rnd.choice(offs)}, {rnd.choice(lens)}")
        elif t == "dlb":
            lines.append(f"dloadbytes {ptr()}, {rnd.choice(offs)}, {rnd.choice(lens)}")
        elif t == "zero":
            p = ptr()
            lines.append(f"%z{n} = calldatasize"); lines.append(f"calldatacopy {p}, %z{n}, {rnd.choice(lens)}")
        elif t == "sha3":
            lines.append(f"%h{n} = sha3 {ptr()}, {rnd.choice(lens)}"); vs.append(f"%h{n}")
    for i, v in enumerate(vs):
        lines.append(f"sstore {1000 + i}, {v}")
    return lines


def real_pair(text, abstract):
    from vyper.venom.parser import parse_venom
    fn = list(parse_venom(text).functions.values())[0]
    mx = MemExport(fn)
    before = mx.blocks()
    run_memmerge(fn, abstract)
    after = mx.blocks()
    return pair_samples(mx, before, after, {"text": text, "abstract": abstract, "after_text": str(fn)}), str(fn)


def part_families(ctx, model_ok):
    rnd = ctx.rng("c14mm-fam")
    fam = [(n_, fn_text(l, a is not False), bool(a)) for n_, l, a in hand_family()]
    nrand = 250 if ctx.tier == "quick" else 3000
    for j in range(nrand):
        ab = rnd.random() < 0.4
        fam.append((f"random{j}", fn_text(random_lines(rnd, ab), ab), ab))
    samples = []
    n = changed = 0
    found = False
    for name, text, ab in fam:
        n += 1
        try:
            w = search_text(text, ab, rnd)
        except Exception as ex:  # noqa  -- the pass raises
            w = {"exception": repr(ex)[:400]}
        if w is not None and not found:
            found = True
            ctx.violation("failing-input", "MemMergePass changes the behaviour of a function" if "exception" not in w else "MemMergePass raises on well-formed IR",
                          dict(w, venom=text, family_member=name, memory_abstract=ab,
                               call=f"MemMergePass(IRAnalysesCache(fn), fn).run_pass(memory_abstract={ab}) on parse_venom(venom)",
                               oracle="byte-level interpreter: storage writes, sha-256 of memory ranges (every alloca, memory 0..640) before vs after the pass"),
                          key="memmerge:" + name.split("/")[0])
            continue
        try:
            ss, _ = real_pair(text, ab)
        except Exception:  # noqa
            continue
        for s in ss:
            s["name"] = name
        changed += bool(ss)
        samples += ss
    st = {"members": len(fam), "changed_by_real_pass": changed, "blocks_checked": len(samples), "accepted": 0, "unsupported": 0, "rejected": 0}
    if model_ok and samples:
        res = evaluate(samples, "c14mm_fam")
        for s, r in zip(samples, res):
            if r == [1, 1]:
                st["accepted"] += 1
            elif s["unsupported"]:
                st["unsupported"] += 1
            else:
                st["rejected"] += 1
                if not found and st["rejected"] <= 2:
                    ctx.violation("theorem-broken", "mm_check_sound does not apply: the validator rejects the output of MemMergePass on a family member (" + s["name"] + ")",
                                  {"theorem": "mm_check_sound (mm_check B A = false)", "venom": s["text"], "after": s["after_text"], "verdict": r,
                                   "memory_program_before": s["B"][:3000], "memory_program_after": s["A"][:3000]})
    ctx.corr["memmerge_family"] = st
    return n + st["accepted"]


# ------------------------------------------------------------------ every invocation while the corpus compiles
class Observer:
    def __init__(self, max_insts=800):
        self.samples = {}
        self.invocations = 0
        self.changed_invocations = 0
        self.too_big = 0
        self.errors = []
        self.max_insts = max_insts

    def __enter__(self):
        from vyper.venom.passes import MemMergePass
        self.cls = MemMergePass
        self.orig = MemMergePass.run_pass
        obs = self

        def run_pass(self_, *a, **k):
            pre = None
            try:
                pre = obs.before(self_.function)
            except Exception as e:  # the observer must never change what the compiler does
                obs.errors.append("before: " + repr(e))
            r = obs.orig(self_, *a, **k)
            if pre is not None:
                try:
                    obs.after(self_.function, pre, k.get("memory_abstract", a[0] if a else None))
                except Exception as e:
                    obs.errors.append("after: " + repr(e))
            return r
        MemMergePass.run_pass = run_pass
        return self

    def __exit__(self, *a):
        self.cls.run_pass = self.orig

    def before(self, fn):
        self.invocations += 1
        if sum(len(bb.instructions) for bb in fn.get_basic_blocks()) > self.max_insts:
            self.too_big += 1
            return None
        mx = MemExport(fn)
        return mx, mx.blocks(), str(fn)

    def after(self, fn, pre, abstract):
        mx, before, text_before = pre
        after = mx.blocks()
        ss = pair_samples(mx, before, after, {"abstract": abstract, "name": str(fn.name), "text_before": text_before, "after_text": str(fn)})
        if ss:
            self.changed_invocations += 1
        # fresh variables must only occur in the instructions the exporter understands
        for s in ss:
            key = hashlib.sha256((s["B"] + "|" + s["A"]).encode()).hexdigest()[:16]
            self.samples.setdefault(key, s)


def part_corpus(ctx, model_ok):
    import warnings
    from . import c14_pass_corpus as PC
    from vyper.compiler import compile_code
    from vyper.compiler.settings import OptimizationLevel, Settings
    rnd = ctx.rng("c14mm-corpus")
    progs = PC.select(ctx.tier, rnd)
    if ctx.tier == "quick":
        progs = progs[:14]
    levels = [OptimizationLevel.GAS] if ctx.tier == "quick" else [OptimizationLevel.GAS, OptimizationLevel.CODESIZE, OptimizationLevel.O3]
    nfail = 0
    with warnings.catch_warnings():
        warnings.simplefilter("ignore")
        with Observer(max_insts=1200 if ctx.tier == "quick" else 3000) as obs:
            for c in progs:
                for lvl in levels:
                    try:
                        compile_code(c["src"], output_formats=["bytecode"], settings=Settings(experimental_codegen=True, optimize=lvl))
                    except Exception:
                        nfail += 1
    if obs.errors:
        ctx.violation("correspondence-broken", "cannot export a MemMergePass invocation: " + obs.errors[0], {"errors": obs.errors[:5]})
    samples = sorted(obs.samples.values(), key=lambda s_: (-(s_["nb"] + s_["na"]), s_["name"], s_["block"]))
    cap = 60 if ctx.tier == "quick" else 100000
    if len(samples) > cap:
        samples = samples[:cap // 3] + rnd.sample(samples[cap // 3:], cap - cap // 3)
    st = {"programs": len(progs), "compile_failures": nfail, "invocations": obs.invocations, "invocations_changing_memory_code": obs.changed_invocations,
          "too_big_skipped": obs.too_big, "distinct_changed_blocks": len(obs.samples), "checked": len(samples), "accepted": 0, "unsupported": 0, "rejected": 0}
    if model_ok and samples:
        try:
            res = evaluate(samples, "c14mm_corpus", timeout=1500)
        except RuntimeError as e:
            res = None
            ctx.violation("correspondence-broken", "the memmerge validator could not be evaluated on the exported invocations", {"error": str(e)[-1500:]})
        if res is not None:
            for s, r in zip(samples, res):
                if r == [1, 1]:
                    st["accepted"] += 1
                elif s["unsupported"]:
                    st["unsupported"] += 1
                else:
                    st["rejected"] += 1
                    if st["rejected"] <= 2:
                        ctx.violation("theorem-broken", f"mm_check_sound does not apply: the validator rejects what MemMergePass did to block {s['block']} of a corpus function ({s['name']})",
                                      {"theorem": "mm_check_sound", "verdict": r, "memory_abstract": s["abstract"], "memory_program_before": s["B"][:4000],
                                       "memory_program_after": s["A"][:4000], "function_before": s["text_before"][:5000], "function_after": s["after_text"][:5000]})
    ctx.corr["memmerge_corpus"] = st
    return st["accepted"]


def _gen(ctx):
    from . import c14mm_copy
    from .py2coq import Unsupported
    try:
        text, _ = c14mm_copy.gen_coq()
    except Unsupported as e:
        return str(e)
    p = COQ / "C14MM" / "GenCopy.v"
    if not p.exists() or p.read_text() != text:
        p.write_text(text)
    return None


def part_kernel(ctx, model_ok):
    """translator validation of the sliced `_Copy.can_merge` / `_Copy.merge`: Coq vs CPython on an interval grid, and the real
    `_Copy` objects vs the sliced functions"""
    from . import c14mm_copy
    from vyper.venom.memory_location import MemoryLocation
    from vyper.venom.passes.memmerging import _Copy
    mod, _ = c14mm_copy.load_module()
    vals = [0, 1, 31, 32, 33, 64, 96, 100]
    lens = [0, 1, 31, 32, 33, 64]
    cases = [(a, b, l1, c, d, l2) for a in (0, 100) for b in vals[:5] for l1 in lens for c in (0, 100, 132) for d in vals for l2 in (0, 32, 33)]
    n = bad = 0
    py = []
    for (ss, sd, sl, os_, od, ol) in cases:
        cm = mod.can_merge(ss, sd, sl, os_, od, ol)
        try:
            ml = mod.merge_len(ss, sd, sl, os_, od, ol)
        except AssertionError:
            ml = -1
        # the real objects
        s_ = _Copy(MemoryLocation(sd, sl), MemoryLocation(ss, sl), [])
        o_ = _Copy(MemoryLocation(od, ol), MemoryLocation(os_, ol), [])
        rcm = s_.can_merge(o_)
        try:
            s_.merge(o_)
            rml = s_.length
        except AssertionError:
            rml = -1
        n += 1
        if (bool(rcm), rml) != (bool(cm), ml):
            bad += 1
            if bad <= 2:
                ctx.violation("correspondence-broken", "sliced _Copy.can_merge/merge differ from the real methods",
                              {"self": [ss, sd, sl], "other": [os_, od, ol], "real": [bool(rcm), rml], "sliced": [bool(cm), ml]})
        py += [1 if cm else 0, ml]
    if model_ok and (COQ / "C14MM" / "GenCopy.vo").exists():
        imports = ("From Verif Require Import Base.PyInt C14MM.GenCopy.\nOpen Scope Z_scope.\n"
                   "Definition eb (r : res bool) : Z := match r with Ok true => 1 | Ok false => 0 | Err _ => 2 end.\n"
                   "Definition ez (r : res Z) : Z := match r with Ok v => v | Err _ => -1 end.\n"
                   "Definition one (t : Z * Z * Z * Z * Z * Z) : list Z := match t with (a, b, c, d, e, f) => [eb (can_merge a b c d e f); ez (merge_len a b c d e f)] end.\n")
        chunks = [cases[i:i + 800] for i in range(0, len(cases), 800)]
        exprs = ["flat_map one [" + "; ".join("(%d, %d, %d, %d, %d, %d)" % c for c in ch) + "]" for ch in chunks]
        outs = coqrun.eval_zlists(imports, exprs, "c14mm_kernel", shard=max(1, len(exprs) // 4), timeout=300)
        flat = [x for o in outs for x in o]
        if flat != py:
            k = next((i for i, (a, b) in enumerate(zip(flat, py)) if a != b), 0)
            ctx.violation("correspondence-broken", "py2coq model of _Copy.can_merge/merge (GenCopy.v) disagrees with CPython",
                          {"case": list(cases[k // 2]), "coq": flat[k:k + 2], "python": py[k:k + 2]})
        n += len(cases)
    ctx.corr["memmerge_copy_kernel_cases"] = n
    return n


def _build(ctx):
    err = _gen(ctx)
    if err is not None:
        return {"ok": False, "gen_err": err, "file": "C14MM/GenCopy.v", "failed_lemma": None, "out": err}
    files = [f for f in MODEL_FILES if (COQ / f).exists()]
    b = ctx.coq_build_cached(files, timeout=600)
    if not b["ok"]:
        return b
    pf = [f for f in PROOF_FILES if (COQ / f).exists()]
    return ctx.coq_build_cached(pf, deps=files, timeout=900)


def prebuild(ctx):
    return _build(ctx)


def part_memmerge(ctx):
    t0 = time.time()
    b = _build(ctx)
    ctx.log(f"C14MM coq build: {time.time() - t0:.1f}s ok={b['ok']}")
    model_ok = (COQ / "C14MM" / "MemSym.vo").exists()
    nviol = len(ctx.violations)
    total = 0
    t0 = time.time()
    total += part_kernel(ctx, model_ok)
    ctx.log(f"C14MM copy kernel: {time.time() - t0:.1f}s")
    t0 = time.time()
    total += part_families(ctx, model_ok)
    ctx.log(f"C14MM families: {time.time() - t0:.1f}s")
    t0 = time.time()
    total += part_corpus(ctx, model_ok)
    ctx.log(f"C14MM corpus invocations: {time.time() - t0:.1f}s")
    if not b["ok"] and len(ctx.violations) == nviol and b.get("gen_err"):
        ctx.violation("translator-rejected", "cannot slice/translate _Copy.can_merge/_Copy.merge: " + b["gen_err"], {"error": b["gen_err"]})
    elif not b["ok"] and len(ctx.violations) == nviol:
        ctx.violation("theorem-broken", f"{b.get('failed_lemma')} in {b['file']}",
                      {"theorem": b.get("failed_lemma"), "file": b["file"], "coq_output": b["out"][-1500:]})
    ctx.trusted += ["C14MM: exporter tools/vlib/c14mm_part.py:MemExport/Resolver (block -> memory program; addresses resolved by an own "
                    "alloca/add/assign/phi resolver; `calldatacopy` from a `calldatasize` variable = zero fill)",
                    "C14MM: abstract memory model: distinct allocas and literal addresses are disjoint regions"]
    return total
