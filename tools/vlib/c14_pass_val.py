"""C14 (pass level), proved validators (coq/C14/ValRUV.v, ValCopy.v, ValDFT.v, Liveness.v) run on the real compiler's data.

 * pass validators: for every selected invocation of a pass that has a validator, both snapshots are exported with a shared
   variable/label numbering and `<checker> before after` is evaluated by vm_compute; an accepted pair is covered by the
   soundness theorem for ALL inputs; a rejected pair is classified by the (unproved) diagnosis function into `unsupported`
   (outside the validator's domain) and `rejected`; rejected pairs go to the vrun differential (c14_pass_sem).
 * liveness validator: every observed LivenessAnalysis result is re-checked by `live_check`; on rejection the search
   compares the table with the least solution of the liveness equations computed here (a missing variable = failing input).
"""
import time

from vlib import c14_pass_export as X
from vlib import coqrun

STATIC = ["C14/VenomSim.v", "C14/ValRUV.v", "C14/Liveness.v"]

# pass class -> (Coq module, code function : func -> func -> Z   with 0 accepted / 1 unsupported / 2 rejected)
VALIDATORS = {
    "RemoveUnusedVariablesPass": ("ValRUV", "ruv_code"),
}


# ------------------------------------------------------------------------------------------------ liveness
def _vset(namer, names):
    return "[" + "; ".join(str(namer.var_ix.setdefault(n, len(namer.var_ix) + 1)) for n in names) + "]%positive"


def live_export(obs):
    """observation -> (coq term of the function, coq term of the table, parsed fn) or None"""
    try:
        ctx = X.parse(obs["text"])
    except Exception:  # noqa
        return None
    fns = list(ctx.functions.values())
    if len(fns) != 1:
        return None
    fn = fns[0]
    namer = X.Namer()
    ex = X.export_function(fn, ctx.data_segment, namer)
    rows = []
    for bb in fn.get_basic_blocks():
        tab, out = obs["tables"].get(bb.label.value, (None, None))
        if tab is None or len(tab) != len(bb.instructions):
            return None
        lab = namer.lab_ix[bb.label.value]
        rows.append(f"({lab}%positive, ([" + "; ".join(_vset(namer, t) for t in tab) + f"], {_vset(namer, out)}))")
    return ex["term"], "table_of [" + ";\n ".join(rows) + "]", fn


def true_liveness(fn):
    """least solution of the liveness equations of coq/C14/Liveness.v (`live`), computed on the parsed function:
    -> dict label -> (list of sets before each instruction, set after the last instruction)"""
    from vyper.venom.basicblock import IRLabel, IRVariable
    blocks = {bb.label.value: bb for bb in fn.get_basic_blocks()}
    before = {l: [set() for _ in bb.instructions] for l, bb in blocks.items()}
    after_last = {l: set() for l in blocks}

    def nphis(bb):
        n = 0
        for i in bb.instructions:
            if i.opcode != "phi":
                break
            n += 1
        return n

    def at(l, k):
        return before[l][k] if k < len(before[l]) else after_last[l]
    changed = True
    while changed:
        changed = False
        for l, bb in blocks.items():
            insts = bb.instructions
            for k in range(len(insts) - 1, -1, -1):
                i = insts[k]
                if i.opcode == "phi":
                    continue
                nxt = set(at(l, k + 1))
                if i.opcode in ("jmp", "jnz", "djmp"):
                    for op in i.operands:
                        if isinstance(op, IRLabel) and op.value in blocks:
                            t = blocks[op.value]
                            np = nphis(t)
                            pouts = {o.value for p in t.instructions[:np] for o in p.get_outputs()}
                            for p in t.instructions[:np]:
                                for lab, var in p.phi_operands:
                                    if lab.value == l and isinstance(var, IRVariable):
                                        nxt.add(var.value)
                                        break
                            nxt |= {v for v in at(op.value, np) if v not in pouts}
                    if k == len(insts) - 1 and not nxt <= after_last[l]:
                        after_last[l] |= nxt
                        changed = True
                new = {v for v in nxt if v not in {o.value for o in i.get_outputs()}}
                new |= {op.value for op in i.operands if isinstance(op, IRVariable)}
                if not new <= before[l][k]:
                    before[l][k] |= new
                    changed = True
    return before, after_last


def liveness_part(ctx, observations, stats):
    """-> number of evaluations"""
    obs = [o for o in observations if o.get("phase") != "observer-error"]
    for o in observations:
        if o.get("phase") == "observer-error":
            ctx.violation("correspondence-broken", "liveness observer failed", {"error": o.get("error")})
    exported, exprs, defs = [], [], []
    for k, o in enumerate(obs):
        ex = live_export(o)
        if ex is None:
            stats["live_unexportable"] = stats.get("live_unexportable", 0) + 1
            continue
        term, tab, fn = ex
        defs.append(f"Definition lf_{k} : func := {term}.\nDefinition lt_{k} : table := {tab}.")
        exprs.append(f"[if live_check lf_{k} lt_{k} then 1 else 0]")
        exported.append((o, fn))
    if not exprs:
        return 0
    imports = "From Verif Require Import Base.Word256 C14.Venom C14.Liveness.\n" + "\n".join(defs) + "\n"
    # shard so that big functions are spread over a few coqc processes
    outs = []
    n_shards = 3
    import concurrent.futures as cf
    chunks = [list(range(i, len(exprs), n_shards)) for i in range(n_shards)]

    def run(idx):
        if not idx:
            return []
        imp = "From Verif Require Import Base.Word256 C14.Venom C14.Liveness.\n" + "\n".join(defs[i] for i in idx) + "\n"
        return coqrun.eval_zlists(imp, [exprs[i] for i in idx], f"c14live_{idx[0]}", shard=10 ** 9, timeout=900)
    with cf.ThreadPoolExecutor(max_workers=n_shards) as ex:
        parts = list(ex.map(run, chunks))
    res = {}
    for idx, part in zip(chunks, parts):
        for i, o in zip(idx, part):
            res[i] = o[0]
    stats["live_checked"] = len(exprs)
    stats["live_accepted"] = sum(1 for v in res.values() if v == 1)
    stats["live_codegen"] = sum(1 for (o, _) in exported if o["phase"] == "codegen")
    for i, (o, fn) in enumerate(exported):
        if res.get(i) == 1:
            continue
        # Search: is a truly live variable missing from the real table?
        before, after_last = true_liveness(fn)
        missing = None
        for bb in fn.get_basic_blocks():
            tab, out = o["tables"][bb.label.value]
            for k, inst in enumerate(bb.instructions):
                if inst.opcode == "phi":
                    continue
                m = before[bb.label.value][k] - set(tab[k])
                if m:
                    missing = {"block": bb.label.value, "instruction_index": k, "instruction": str(inst).strip(), "missing": sorted(m)}
                    break
            if missing is None and after_last[bb.label.value] - set(out):
                missing = {"block": bb.label.value, "out_vars": True, "missing": sorted(after_last[bb.label.value] - set(out))}
            if missing:
                break
        detail = {"program": o["prog"], "config": f"venom-{o['level']}-cancun", "function": o["fn"], "requested_during": o["phase"],
                  "ir_text": o["text"][:8000], "call": "LivenessAnalysis(ac, fn).analyze(); live_vars_at(inst) / out_vars(bb)"}
        if missing:
            ctx.violation("failing-input", f"LivenessAnalysis misses a live variable in {o['fn']} of {o['prog']} "
                          f"(block {missing['block']}): {missing['missing'][:4]}",
                          dict(detail, witness=missing, expected="every variable read on some path before being redefined is in the table"),
                          key=f"C14:liveness-miss:{o['prog']}")
        else:
            ctx.violation("correspondence-broken", f"live_check rejects the LivenessAnalysis table of {o['fn']} of {o['prog']} although it "
                          "contains the least solution", detail, key=f"C14:liveness-reject:{o['prog']}")
    return len(exprs)
