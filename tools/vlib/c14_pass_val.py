"""C14 (pass level), proved validators (coq/C14/ValRUV.v, ValCopy.v, ValDFT.v, Liveness.v) run on the real compiler's data.

 * pass validators: for every selected invocation of a pass that has a validator, both snapshots are exported with a shared
   variable/label numbering and `<checker> before after` is evaluated by vm_compute; an accepted pair is covered by the
   soundness theorem for ALL inputs; a rejected pair is classified by the (unproved) diagnosis function into `unsupported`
   (outside the validator's domain) and `rejected`; rejected pairs go to the vrun differential (c14_pass_sem).
 * liveness validator: every observed LivenessAnalysis result is re-checked by `live_check`; on rejection the search
   compares the table with the least solution of the liveness equations computed here (a missing variable = failing input).
"""
import time

from vlib import c14_pass_export as X
from vlib import coqrun

STATIC = ["C14/VenomSim.v", "C14/ValRUV.v", "C14/Liveness.v"]

# pass class -> (Coq module, code function : func -> func -> Z   with 0 accepted / 1 unsupported / 2 rejected)
VALIDATORS = {
    "RemoveUnusedVariablesPass": ("ValRUV", "ruv_code"),
}


# ------------------------------------------------------------------------------------------------ liveness
def _vset(namer, names):
    return "[" + "; ".join(str(namer.var_ix.setdefault(n, len(namer.var_ix) + 1)) for n in names) + "]%positive"


def live_export(obs):
    """observation -> (coq term of the function, coq term of the table, parsed fn) or None"""
    try:
        ctx = X.parse(obs["text"])
    except Exception:  # noqa
        return None
    fns = list(ctx.functions.values())
    if len(fns) != 1:
        return None
    fn = fns[0]
    namer = X.Namer()
    ex = X.export_function(fn, ctx.data_segment, namer)
    rows = []
    for bb in fn.get_basic_blocks():
        tab, out = obs["tables"].get(bb.label.value, (None, None))
        if tab is None or len(tab) != len(bb.instructions):
            return None
        lab = namer.lab_ix[bb.label.value]
        rows.append(f"({lab}%positive, ([" + "; ".join(_vset(namer, t) for t in tab) + f"], {_vset(namer, out)}))")
    return ex["term"], "table_of [" + ";\n ".join(rows) + "]", fn


def true_liveness(fn):
    """least solution of the liveness equations of coq/C14/Liveness.v (`live`), computed on the parsed function:
    -> dict label -> (list of sets before each instruction, set after the last instruction)"""
    from vyper.venom.basicblock import IRLabel, IRVariable
    blocks = {bb.label.value: bb for bb in fn.get_basic_blocks()}
    before = {l: [set() for _ in bb.instructions] for l, bb in blocks.items()}
    after_last = {l: set() for l in blocks}

    def nphis(bb):
        n = 0
        for i in bb.instructions:
            if i.opcode != "phi":
                break
            n += 1
        return n

    def at(l, k):
        return before[l][k] if k < len(before[l]) else after_last[l]
    changed = True
    while changed:
        changed = False
        for l, bb in blocks.items():
            insts = bb.instructions
            for k in range(len(insts) - 1, -1, -1):
                i = insts[k]
                if i.opcode == "phi":
                    continue
                nxt = set(at(l, k + 1))
                if i.opcode in ("jmp", "jnz", "djmp"):
                    for op in i.operands:
                        if isinstance(op, IRLabel) and op.value in blocks:
                            t = blocks[op.value]
                            np = nphis(t)
                            pouts = {o.value for p in t.instructions[:np] for o in p.get_outputs()}
                            for p in t.instructions[:np]:
                                for lab, var in p.phi_operands:
                                    if lab.value == l and isinstance(var, IRVariable):
                                        nxt.add(var.value)
                                        break
                            nxt |= {v for v in at(op.value, np) if v not in pouts}
                    if k == len(insts) - 1 and not nxt <= after_last[l]:
                        after_last[l] |= nxt
                        changed = True
                new = {v for v in nxt if v not in {o.value for o in i.get_outputs()}}
                new |= {op.value for op in i.operands if isinstance(op, IRVariable)}
                if not new <= before[l][k]:
                    before[l][k] |= new
                    changed = True
    return before, after_last


def liveness_part(ctx, observations, stats):
    """-> number of evaluations"""
    obs = [o for o in observations if o.get("phase") != "observer-error"]
    for o in observations:
        if o.get("phase") == "observer-error":
            ctx.violation("correspondence-broken", "liveness observer failed", {"error": o.get("error")})
    exported, exprs, defs = [], [], []
    for k, o in enumerate(obs):
        ex = live_export(o)
        if ex is None:
            stats["live_unexportable"] = stats.get("live_unexportable", 0) + 1
            continue
        term, tab, fn = ex
        defs.append(f"Definition lf_{k} : func := {term}.\nDefinition lt_{k} : table := {tab}.")
        exprs.append(f"[if live_check lf_{k} lt_{k} then 1 else 0]")
        exported.append((o, fn))
    if not exprs:
        return 0
    imports = "From Verif Require Import Base.Word256 C14.Venom C14.Liveness.\n" + "\n".join(defs) + "\n"
    # shard so that big functions are spread over a few coqc processes
    outs = []
    n_shards = 3 if ctx.tier == "quick" else 8
    import concurrent.futures as cf
    # thorough: interleaved chunks, more chunks than workers; a chunk not started LIVE_DEADLINE seconds into the run is
    # dropped (= a uniform sample of the tables; counted as live_skipped_budget) so that a loaded machine keeps the tier budget
    n_chunks = n_shards if ctx.tier == "quick" else 32
    chunks = [list(range(i, len(exprs), n_chunks)) for i in range(n_chunks)]
    deadline = getattr(ctx, "t0", time.time()) + (10 ** 9 if ctx.tier == "quick" else LIVE_DEADLINE)

    def run(idx):
        if not idx:
            return []
        if time.time() > deadline:
            return None
        imp = "From Verif Require Import Base.Word256 C14.Venom C14.Liveness.\n" + "\n".join(defs[i] for i in idx) + "\n"
        return coqrun.eval_zlists(imp, [exprs[i] for i in idx], f"c14live_{idx[0]}", shard=10 ** 9, timeout=900)
    with cf.ThreadPoolExecutor(max_workers=n_shards) as ex:
        parts = list(ex.map(run, chunks))
    res = {}
    skipped = set()
    for idx, part in zip(chunks, parts):
        if part is None:
            skipped |= set(idx)
            continue
        for i, o in zip(idx, part):
            res[i] = o[0]
    if skipped:
        stats["live_skipped_budget"] = len(skipped)
    stats["live_checked"] = len(exprs) - len(skipped)
    stats["live_accepted"] = sum(1 for v in res.values() if v == 1)
    stats["live_codegen"] = sum(1 for (o, _) in exported if o["phase"] == "codegen")
    for i, (o, fn) in enumerate(exported):
        if res.get(i) == 1 or i in skipped:
            continue
        # Search: is a truly live variable missing from the real table?
        before, after_last = true_liveness(fn)
        missing = None
        for bb in fn.get_basic_blocks():
            tab, out = o["tables"][bb.label.value]
            for k, inst in enumerate(bb.instructions):
                if inst.opcode == "phi":
                    continue
                m = before[bb.label.value][k] - set(tab[k])
                if m:
                    missing = {"block": bb.label.value, "instruction_index": k, "instruction": str(inst).strip(), "missing": sorted(m)}
                    break
            if missing is None and after_last[bb.label.value] - set(out):
                missing = {"block": bb.label.value, "out_vars": True, "missing": sorted(after_last[bb.label.value] - set(out))}
            if missing:
                break
        detail = {"program": o["prog"], "config": f"venom-{o['level']}-cancun", "function": o["fn"], "requested_during": o["phase"],
                  "ir_text": o["text"][:8000], "call": "LivenessAnalysis(ac, fn).analyze(); live_vars_at(inst) / out_vars(bb)"}
        if missing:
            # known shape: the variable is also a phi operand (for another predecessor) of the block it is live through
            phi_ops = {op.value for bb in fn.get_basic_blocks() for i in bb.instructions if i.opcode == "phi"
                       for _, op in i.phi_operands}
            key = "C14:liveness-phi-operand-live-through" if set(missing["missing"]) <= phi_ops else f"C14:liveness-miss:{o['prog']}"
            ctx.violation("failing-input", f"LivenessAnalysis misses a live variable in {o['fn']} of {o['prog']} "
                          f"(block {missing['block']}): {missing['missing'][:4]}",
                          dict(detail, witness=missing, expected="every variable read on some path before being redefined is in the table"),
                          key=key)
        else:
            ctx.violation("correspondence-broken", f"live_check rejects the LivenessAnalysis table of {o['fn']} of {o['prog']} although it "
                          "contains the least solution", detail, key=f"C14:liveness-reject:{o['prog']}")
    return len(exprs)


# ------------------------------------------------------------------------------------------------ pass validators
STATIC_ALL = ["C14/VenomSim.v", "C14/ValRUV.v", "C14/ValDFT.v", "C14/ValCopy.v", "C14/Liveness.v"]
# thorough tier: seconds into the run after which validator jobs / liveness chunks that have not started are dropped
# (counted as val_skipped_budget / live_skipped_budget); an idle machine finishes everything well before
VAL_DEADLINE = 1250
LIVE_DEADLINE = 1500

PASS_VALIDATOR = {"RemoveUnusedVariablesPass": "ruv", "AssignElimination": "copy", "SingleUseExpansion": "copy", "DFTPass": "dft"}
THEOREM = {"ruv": "ruv_fn_sim + validators_compose", "copy": "copy_fn_sim + validators_compose", "dft": "cdft_fn_sim + validators_compose"}


def _parse_one(text):
    try:
        ctx = X.parse(text)
    except Exception:  # noqa
        return None
    fns = list(ctx.functions.values())
    return (fns[0], ctx) if len(fns) == 1 else None


def _is_copy(inst):
    from vyper.venom.basicblock import IRLabel, IRVariable
    if inst.opcode != "assign" or len(inst.get_outputs()) != 1 or len(inst.operands) != 1:
        return None
    o = inst.operands[0]
    if isinstance(o, IRLabel):
        return None
    x = inst.get_outputs()[0]
    if isinstance(o, IRVariable) and o.value == x.value:
        return None
    return (x.value, o)


def _copies_in(fn):
    """forward must-analysis of the copies that hold at block entry (the certificate of coq/C14/ValCopy.v; it is
    re-checked there, so nothing here is trusted).  Only copies whose target is read in another block are tracked."""
    from vyper.venom.basicblock import IRLabel, IRVariable
    blocks = list(fn.get_basic_blocks())
    lab = {bb.label.value: bb for bb in blocks}
    def_block, used_blocks = {}, {}
    for bb in blocks:
        for inst in bb.instructions:
            for o in inst.get_outputs():
                def_block.setdefault(o.value, set()).add(bb.label.value)
            for op in inst.operands:
                if isinstance(op, IRVariable):
                    used_blocks.setdefault(op.value, set()).add(bb.label.value)
    cross = {v for v, bs in used_blocks.items() if bs - def_block.get(v, set())}
    # closed under "source of a tracked copy" so that chains of copies can be followed across blocks
    src = {}
    for bb in blocks:
        for inst in bb.instructions:
            c = _is_copy(inst)
            if c is not None and isinstance(c[1], IRVariable):
                src.setdefault(c[0], set()).add(c[1].value)
    work = list(cross)
    while work:
        for y in src.get(work.pop(), ()):
            if y not in cross:
                cross.add(y)
                work.append(y)

    def key(o):
        return ("v", o.value) if isinstance(o, IRVariable) else ("l", int(o.value))

    def transfer(inset, bb):
        cur = dict(inset)
        for inst in bb.instructions:
            outs = {o.value for o in inst.get_outputs()}
            if outs:
                cur = {x: o for x, o in cur.items() if x not in outs and not (o[0] == "v" and o[1] in outs)}
            c = _is_copy(inst)
            if c is not None and inst.opcode != "phi" and c[0] in cross:
                cur[c[0]] = key(c[1])
        return cur

    succ = {}
    for bb in blocks:
        t = bb.instructions[-1] if bb.instructions else None
        succ[bb.label.value] = [op.value for op in t.operands if isinstance(op, IRLabel) and op.value in lab] \
            if t is not None and t.opcode in ("jmp", "jnz", "djmp") else []
    TOP = None
    ins = {l: TOP for l in lab}
    ins[fn.entry.label.value] = {}
    work = [fn.entry.label.value]
    while work:
        l = work.pop()
        out = transfer(ins[l], lab[l])
        for t in succ[l]:
            if t == fn.entry.label.value:
                new = {}
            elif ins[t] is TOP:
                new = dict(out)
            else:
                new = {x: o for x, o in ins[t].items() if out.get(x) == o}
            if ins[t] is TOP or new != ins[t]:
                ins[t] = new
                work.append(t)
    return {l: (v if v is not TOP else {}) for l, v in ins.items()}


def _copy_cert(fb, fa, namer):
    """-> (coq term for the list of non-agreeing variables, coq term for the certificate)"""
    def defs(fn):
        return {o.value for bb in fn.get_basic_blocks() for i in bb.instructions for o in i.get_outputs()}
    db, da = defs(fb), defs(fa)
    nu = sorted((db - da) | (da - db))
    var = lambda n: namer.var_ix.setdefault(n, len(namer.var_ix) + 1)   # noqa
    cb, ca = _copies_in(fb), _copies_in(fa)

    def avs(d):
        items = []
        for x, o in sorted(d.items()):
            items.append(f"({var(x)}%positive, " + (f"OVar {var(o[1])}" if o[0] == "v" else f"OLit {hex(o[1] % X.W)}") + ")")
        return "[" + "; ".join(items) + "]"
    rows = []
    for l in sorted(set(cb) | set(ca)):
        li = namer.lab_ix.setdefault(l, len(namer.lab_ix) + 1)
        rows.append(f"({li}%positive, ({avs(cb.get(l, {}))}, {avs(ca.get(l, {}))}))")
    return "[" + "; ".join(str(var(n)) for n in nu) + "]%positive", "cert_of [" + ";\n  ".join(rows) + "]"


def _classify_reject(kind, fb, fa):
    """a rejected pair outside the validator's domain is `unsupported` (reported as a count, never as a violation)"""
    from vlib.c14_pass_export import MODELLED
    if kind == "ruv":
        def multiset(fn):
            d = {}
            for bb in fn.get_basic_blocks():
                for i in bb.instructions:
                    d[str(i).strip()] = d.get(str(i).strip(), 0) + 1
            return d
        mb, ma = multiset(fb), multiset(fa)
        for bb in fb.get_basic_blocks():
            for i in bb.instructions:
                k = str(i).strip()
                if mb.get(k, 0) > ma.get(k, 0) and i.opcode not in MODELLED + ["offset", "initial_fmp"]:
                    return "unsupported"       # an out-of-core instruction was removed
        return "rejected"
    if kind == "copy":
        pb = [str(i).strip() for bb in fb.get_basic_blocks() for i in bb.instructions if i.opcode == "phi"]
        pa = [str(i).strip() for bb in fa.get_basic_blocks() for i in bb.instructions if i.opcode == "phi"]
        return "unsupported" if pb != pa else "rejected"       # phi operands rewritten (copy at the end of the predecessor)
    return "rejected"


def validators_part(ctx, progs, stats):
    """-> (number of evaluations, list of snapshots the validators did not accept, for the vrun differential)"""
    import concurrent.futures as cf
    rnd = ctx.rng("c14p-val")
    quick = ctx.tier == "quick"
    cands = []
    for name, pr in sorted(progs.items()):
        for s in pr["snaps"]:
            if s["pass"] in PASS_VALIDATOR and s["fn"] != "<ctx>":
                cands.append(s)
    if quick:
        # budget per validated pass class: invocations on `runtime` of seeded programs first (that is where pass bugs show),
        # then the small functions; every invocation of a pass stage 1 has localised a behavioural difference to is included
        rnd.shuffle(cands)
        per, chosen = {}, []
        suspects = [s for s in cands if s["pass"] in progs[s["prog"]].get("suspects", ())]
        for s in suspects[:24]:
            chosen.append(s)
        order = sorted(cands, key=lambda s: (s["fn"] != "runtime", progs[s["prog"]]["entry"].get("prio", 1) if s["fn"] == "runtime" else 0))
        for s in order:
            k = (s["pass"], s["fn"] == "runtime")
            if per.get(k, 0) < (5 if s["fn"] == "runtime" else 3) and s not in chosen:
                per[k] = per.get(k, 0) + 1
                chosen.append(s)
        cands = chosen
    groups = {}
    for s in cands:
        groups.setdefault((s["prog"], s["level"], s["fn"]), []).append(s)
    jobs = []
    for gk, ss in sorted(groups.items()):
        # invoke / ret / param are exported with the call semantics (coq/C14/VenomCall.v); function labels are numbered per group
        from vlib.c14_pass_sem import fn_norm
        names = sorted({fn_norm(gk[2])} | {fn_norm(n) for s in ss for n in s.get("ctx", {})})
        namer = X.Namer(fn_index={n: k for k, n in enumerate(names)})
        defs, exprs, meta = {}, [], []
        for s in sorted(ss, key=lambda s: s["idx"]):
            pb, pa = _parse_one(s["before"]), _parse_one(s["after"])
            if pb is None or pa is None:
                stats["val_parser_rejected"] = stats.get("val_parser_rejected", 0) + 1
                continue
            hs = []
            for (fn, c), k in ((pb, "before"), (pa, "after")):
                h = X.text_hash(s[k])
                if h not in defs:
                    defs[h] = X.export_function(fn, c.data_segment, namer)["term"]
                hs.append(h)
            kind = PASS_VALIDATOR[s["pass"]]
            if kind == "ruv":
                e = f"ruv_check f_{hs[0]} f_{hs[1]}"
            elif kind == "dft":
                e = f"cdft_check f_{hs[0]} f_{hs[1]}"
            else:
                nu, cert = _copy_cert(pb[0], pa[0], namer)
                e = f"copy_check (fun x => negb (memp x {nu})) ({cert}) f_{hs[0]} f_{hs[1]}"
            exprs.append(f"[if {e} then 1 else 0]")
            meta.append((s, kind, pb[0], pa[0]))
        if exprs:
            jobs.append((gk, defs, exprs, meta))

    deadline = getattr(ctx, "t0", time.time()) + (10 ** 9 if quick else VAL_DEADLINE)
    if not quick:
        rnd.shuffle(jobs)        # what the deadline drops is a seeded random subset

    def run(job):
        gk, defs, exprs, meta = job
        if time.time() > deadline:
            return "skipped", None
        imp = ("From Verif Require Import Base.Word256 C14.Venom C14.VenomSim C14.ValRUV C14.ValDFT C14.ValCopy C14.VenomCall C14.ValCall.\n"
               + "".join(f"Definition f_{h} : func := {t}.\n" for h, t in defs.items()))
        tag = "c14val_" + X.text_hash("|".join(map(str, gk)))
        try:
            return coqrun.eval_zlists(imp, exprs, tag, shard=10 ** 9, timeout=900), None
        except Exception as e:  # noqa
            return None, f"{type(e).__name__}: {str(e)[-1200:]}"
    with cf.ThreadPoolExecutor(max_workers=3 if quick else 6) as ex:
        results = list(ex.map(run, jobs))
    rejected = []
    per = stats.setdefault("validators", {})
    n = 0
    for (gk, defs, exprs, meta), (outs, err) in zip(jobs, results):
        if err is not None:
            ctx.violation("correspondence-broken", f"Coq evaluation of the pass validators failed for {gk}", {"error": err})
            continue
        if outs == "skipped":
            stats["val_skipped_budget"] = stats.get("val_skipped_budget", 0) + len(exprs)
            continue
        for (s, kind, fb, fa), o in zip(meta, outs):
            n += 1
            d = per.setdefault(s["pass"], {"accepted": 0, "unsupported": 0, "rejected": 0})
            if o and o[0] == 1:
                d["accepted"] += 1
            else:
                c = _classify_reject(kind, fb, fa)
                d[c] += 1
                rejected.append(dict(s, verdict=c, validator=kind))
    return n, rejected
