"""C14 (dominators / SSA / DFG): verified validators for the control-flow facts other Venom passes trust.

While corpus contracts are compiled with the Venom pipeline, this module observes (by wrapping, in this process only)
 * every `DominatorTreeAnalysis.analyze`: the function as it is + cfg_in/cfg_out/reachable + dominators +
   immediate dominators + dominance frontiers are exported as Coq literals and `cfg_check`, `dom_check`,
   `dom_complete_check`, `idom_check`, `df_check` (coq/C14D/Dom.v) are evaluated by vm_compute;
 * every pass invocation after which the function is claimed to be in SSA form (from MakeSSA until Mem2Var /
   FmpLoweringPass): `ssa_check` + `single_def_check` (coq/C14D/Ssa.v) with the dominator sets of the real analysis
   (themselves validated by `dom_check`);
 * every `DFGAnalysis.analyze`: `dfg_check` compares _dfg_outputs/_dfg_inputs with the syntactic def/use sites.
Theorems (coq/C14D/PropsDom.v): an accepted certificate is correct for EVERY path / execution of that function.
A rejected certificate is searched for a witness (a path avoiding a claimed dominator, a path reading an unassigned
variable, a missing/extra frontier block, a wrong producer/use) and reported as failing-input.
"""
import hashlib
import os
import time
import warnings

from . import coqrun
from .common import COQ

FOREIGN = 1_000_000
COQ_FILES = ["C14D/Dom.v", "C14D/DomProofs.v", "C14D/Ssa.v", "C14D/SsaProofs.v", "C14D/PropsDom.v",
             "C14D/MakeSsa.v", "C14D/MakeSsaProofs.v", "C14D/PropsMakeSsa.v"]
IMPORTS = "From Coq Require Import NArith.\nFrom Verif Require Import C14D.Dom C14D.Ssa.\nOpen Scope N_scope.\n"
SSA_OFF_AFTER = ("Mem2Var", "FmpLoweringPass")


# ------------------------------------------------------------------ export
class Export:
    def __init__(self, fn):
        self.fn = fn
        self.blocks = list(fn.get_basic_blocks())
        entry = fn.entry
        if self.blocks and self.blocks[0] is not entry:
            self.blocks.remove(entry)
            self.blocks.insert(0, entry)
        self.lab = {bb.label.value: i for i, bb in enumerate(self.blocks)}
        self.idx = {id(bb): i for i, bb in enumerate(self.blocks)}
        self.var = {}
        self.foreign = {}
        self.name = fn.name.value if hasattr(fn.name, "value") else str(fn.name)
        self.ninsts = sum(len(bb.instructions) for bb in self.blocks)
        self.site = {}
        for bi, bb in enumerate(self.blocks):
            for k, inst in enumerate(bb.instructions):
                self.site[id(inst)] = (bi, k)

    def v(self, var):
        k = var.value if hasattr(var, "value") else str(var)
        if k not in self.var:
            self.var[k] = len(self.var)
        return self.var[k]

    def operand(self, o):
        from vyper.venom.basicblock import IRLabel, IRLiteral, IRVariable
        if isinstance(o, IRLiteral):
            return "OLit"
        if isinstance(o, IRVariable):
            return f"OVar {self.v(o)}"
        if isinstance(o, IRLabel):
            if o.value in self.lab:
                return f"OLab {self.lab[o.value]}"
            if o.value not in self.foreign:
                self.foreign[o.value] = FOREIGN + len(self.foreign)
            return f"OLab {self.foreign[o.value]}"
        raise ValueError(f"operand {o!r}")

    def inst(self, i):
        args = "; ".join(self.operand(o) for o in i.operands)
        outs = "; ".join(str(self.v(o)) for o in i.get_outputs())
        return f"mkI {'true' if i.opcode == 'phi' else 'false'} [{args}] [{outs}]"

    def func(self):
        return "[" + ";\n  ".join("[" + "; ".join(self.inst(i) for i in bb.instructions) + "]" for bb in self.blocks) + "]"

    def bset(self, bbs):
        return "[" + "; ".join(str(self.idx[id(b)]) for b in bbs) + "]"

    def table(self, d, default="[]"):
        """dict block -> iterable of blocks, as a list indexed by block"""
        out = []
        for bb in self.blocks:
            out.append(self.bset(d[bb]) if bb in d else default)
        return "[" + "; ".join(out) + "]"


def nlist(xs):
    return "[" + "; ".join(str(x) for x in xs) + "]"


# ------------------------------------------------------------------ naive oracles (Search)
def graph(ex):
    succ = []
    for bb in ex.blocks:
        succ.append([ex.lab[l.value] for l in bb.instructions[-1].get_label_operands() if l.value in ex.lab] if bb.instructions else [])
    return succ


def reach_avoiding(succ, ban):
    """dict block -> path (list of blocks) from the entry not entering `ban`"""
    if ban == 0:
        return {}
    paths = {0: [0]}
    work = [0]
    while work:
        x = work.pop()
        for s in succ[x]:
            if s != ban and s not in paths:
                paths[s] = paths[x] + [s]
                work.append(s)
    return paths


def naive_dom(succ):
    n = len(succ)
    reach = reach_avoiding(succ, None)
    dom = {b: {b} for b in reach}
    for d in range(n):
        av = reach_avoiding(succ, d)
        for b in reach:
            if b not in av:
                dom[b].add(d)
    return reach, dom


def dom_witness(ex, an):
    """compare the real analysis result with the definition; returns a description of the first difference"""
    succ = graph(ex)
    reach, dom = naive_dom(succ)
    lbl = [bb.label.value for bb in ex.blocks]
    real_R = {ex.idx[id(b)] for b in an.cfg_post_walk}
    if real_R != set(reach):
        return {"problem": "reachable blocks differ", "analysis": sorted(lbl[i] for i in real_R), "definition": sorted(lbl[i] for i in reach)}
    for bb in an.cfg_post_walk:
        b = ex.idx[id(bb)]
        real = {ex.idx[id(x)] for x in an.dominators[bb]}
        if real != dom[b]:
            extra = real - dom[b]
            if extra:
                d = sorted(extra)[0]
                p = reach_avoiding(succ, d)[b]
                return {"problem": f"{lbl[d]} is reported to dominate {lbl[b]} but a path avoids it", "path": [lbl[i] for i in p]}
            d = sorted(dom[b] - real)[0]
            return {"problem": f"{lbl[d]} dominates {lbl[b]} (every path from the entry passes through it) but is not in dominators[{lbl[b]}]"}
    sdom = {b: dom[b] - {b} for b in dom}
    for bb in an.cfg_post_walk:
        b = ex.idx[id(bb)]
        if b == 0:
            continue
        i = an.immediate_dominators.get(bb)
        want = [d for d in sdom[b] if all(e in dom[d] for e in sdom[b])]
        if i is None or ex.idx[id(i)] not in want:
            return {"problem": f"immediate dominator of {lbl[b]} is {i.label.value if i is not None else None}, "
                               f"the closest strict dominator is {[lbl[w] for w in want]}"}
    pred = {b: [p for p in reach if b in succ[p]] for b in reach}
    for bx in an.cfg_post_walk:
        x = ex.idx[id(bx)]
        real = {ex.idx[id(y)] for y in an.dominator_frontiers[bx]}
        want = {y for y in reach if any(x in dom[p] for p in pred[y]) and x not in sdom[y]}
        if real != want:
            return {"problem": f"dominance frontier of {lbl[x]} is {sorted(lbl[i] for i in real)}, by definition it is {sorted(lbl[i] for i in want)}"}
    return None


def ssa_witness(ex):
    """single definition, and a path on which a variable is read before any assignment (explicit search)"""
    from vyper.venom.basicblock import IRVariable
    succ = graph(ex)
    lbl = [bb.label.value for bb in ex.blocks]
    defs = {}
    for bi, bb in enumerate(ex.blocks):
        for k, inst in enumerate(bb.instructions):
            for o in inst.get_outputs():
                if o.value in defs:
                    return {"problem": f"variable {o.value} is assigned twice", "sites": [f"{lbl[defs[o.value][0]]}[{defs[o.value][1]}]", f"{lbl[bi]}[{k}]"],
                            "instructions": [str(ex.blocks[defs[o.value][0]].instructions[defs[o.value][1]]), str(inst)]}
                defs[o.value] = (bi, k)
    reach = reach_avoiding(succ, None)

    def first_def_index(bi, var):
        for k, inst in enumerate(ex.blocks[bi].instructions):
            if any(o.value == var for o in inst.get_outputs()):
                return k
        return None

    def undefined_path_to(b, var):
        """path from the entry to the START of block b along which var is never assigned"""
        paths = {0: [0]}
        work = [0]
        if b == 0:
            return [0]
        while work:
            x = work.pop()
            if first_def_index(x, var) is not None:
                continue        # leaving x, var is assigned
            for s in succ[x]:
                if s not in paths:
                    paths[s] = paths[x] + [s]
                    if s == b:
                        return paths[s]
                    work.append(s)
        return None
    for b in sorted(reach):
        bb = ex.blocks[b]
        for k, inst in enumerate(bb.instructions):
            if inst.opcode == "phi":
                for lab, var in inst.phi_operands:
                    if not isinstance(var, IRVariable) or lab.value not in ex.lab:
                        continue
                    p = ex.lab[lab.value]
                    if p not in reach or b not in succ[p]:
                        continue
                    if first_def_index(p, var.value) is not None:
                        continue
                    path = undefined_path_to(p, var.value)
                    if path is not None:
                        return {"problem": f"phi operand {var.value} (for predecessor {lbl[p]}) is read before any assignment",
                                "instruction": str(inst), "path": [lbl[i] for i in path] + [lbl[b]]}
                preds = [p for p in reach if b in succ[p]]
                have = {lab.value for lab, _ in inst.phi_operands}
                for p in preds:
                    if lbl[p] not in have:
                        # MakeSSA drops `x = phi(.., p: x)`: the phi keeps its value on that edge, fine if b dominates p
                        av = reach_avoiding(succ, b)
                        if b == 0 or p in av:
                            return {"problem": f"phi has no operand for predecessor {lbl[p]} and {lbl[b]} does not dominate it",
                                    "instruction": str(inst), "block": lbl[b], "path": [lbl[i] for i in av.get(p, [0])] + [lbl[b]]}
                continue
            for o in inst.operands:
                if not isinstance(o, IRVariable):
                    continue
                fd = first_def_index(b, o.value)
                if fd is not None and fd < k:
                    continue
                path = undefined_path_to(b, o.value)
                if path is not None:
                    return {"problem": f"{o.value} is read before any assignment", "instruction": str(inst), "block": lbl[b],
                            "path": [lbl[i] for i in path]}
    return None


def dfg_witness(ex, dfg):
    from vyper.venom.basicblock import IRVariable
    uses, prod = {}, {}
    for bb in ex.blocks:
        for inst in bb.instructions:
            for o in inst.operands:
                if isinstance(o, IRVariable):
                    uses.setdefault(o.value, set()).add(id(inst))
            for o in inst.get_outputs():
                prod[o.value] = inst
    for name in sorted(set(uses) | set(prod)):
        from vyper.venom.basicblock import IRVariable as V
        v = V(name)
        real_u = {id(i) for i in dfg.get_uses(v)}
        if real_u != uses.get(name, set()):
            return {"problem": f"get_uses({name}) differs from the instructions that read {name}",
                    "dfg": len(real_u), "syntactic": len(uses.get(name, set()))}
        rp = dfg.get_producing_instruction(v)
        if rp is not prod.get(name):
            return {"problem": f"get_producing_instruction({name}) is {rp}, the (last) assignment is {prod.get(name)}"}
    return None


# ------------------------------------------------------------------ observers
class Observer:
    def __init__(self, max_insts=900):
        self.max_insts = max_insts
        self.dom = {}
        self.ssa = {}
        self.dfg = {}
        self.errors = []
        self.calls = {"dom": 0, "ssa": 0, "dfg": 0, "pass_invocations": 0}
        self.skipped_big = 0
        self.ssa_state = {}
        self.unreachable_at_dom = 0
        self.dom_analysis_keyerror = 0

    # ---- wrappers
    def __enter__(self):
        from vyper.venom.analysis import DFGAnalysis, DominatorTreeAnalysis
        self.saved = []
        obs = self

        def wrap(cls, name, after):
            orig = cls.__dict__[name]

            def f(self_, *a, **k):
                r = orig(self_, *a, **k)
                try:
                    after(self_)
                except Exception as e:  # the observer must never change what the compiler does
                    obs.errors.append(f"{cls.__name__}.{name}: {type(e).__name__}: {e}")
                return r
            self.saved.append((cls, name, orig))
            setattr(cls, name, f)
        wrap(DominatorTreeAnalysis, "analyze", self.rec_dom)
        wrap(DFGAnalysis, "analyze", self.rec_dfg)
        from .c14_pass_harness import pass_classes
        for c in pass_classes():
            wrap(c, "run_pass", (lambda cname: (lambda self_: obs.rec_pass(cname, self_)))(c.__name__))
        return self

    def __exit__(self, *a):
        for cls, name, orig in reversed(self.saved):
            setattr(cls, name, orig)

    def _key(self, *parts):
        return hashlib.sha256("|".join(parts).encode()).hexdigest()[:16]

    # ---- dominators
    def rec_dom(self, an):
        self.calls["dom"] += 1
        ex = Export(an.function)
        if ex.ninsts > self.max_insts:
            self.skipped_big += 1
            return
        cfg = an.cfg
        R = list(an.cfg_post_walk)
        if len(R) != len(ex.blocks):
            self.unreachable_at_dom += 1
        ftxt = ex.func()
        cert = dict(
            cout=ex.table(cfg._cfg_out), cin=ex.table(cfg._cfg_in), R=ex.bset(R),
            reach=ex.bset([bb for bb in ex.blocks if cfg.is_reachable(bb)]),
            D=ex.table(an.dominators),
            I="[" + "; ".join(str(ex.idx[id(an.immediate_dominators[bb])]) if an.immediate_dominators.get(bb) is not None else str(i)
                             for i, bb in enumerate(ex.blocks)) + "]",
            DF=ex.table(an.dominator_frontiers))
        key = self._key(ftxt, *cert.values())
        if key in self.dom:
            return
        self.dom[key] = dict(name=ex.name, func=ftxt, cert=cert, nblocks=len(ex.blocks), ninsts=ex.ninsts, text=str(an.function),
                             witness=dom_witness(ex, an))

    # ---- SSA after passes
    def rec_pass(self, pname, p):
        self.calls["pass_invocations"] += 1
        fn = getattr(p, "function", None)
        if fn is None:
            return
        fname = id(fn)          # per function OBJECT (every contract has a function called "runtime")
        if pname == "MakeSSA":
            self.ssa_state[fname] = (True, fn)
        elif pname in SSA_OFF_AFTER:
            self.ssa_state[fname] = (False, fn)
        if not self.ssa_state.get(fname, (False, None))[0]:
            return
        self.calls["ssa"] += 1
        ex = Export(fn)
        if ex.ninsts > self.max_insts:
            self.skipped_big += 1
            return
        ftxt = ex.func()
        key = self._key(ftxt)
        if key in self.ssa:
            self.ssa[key]["passes"].add(pname)
            return
        from vyper.venom.analysis import DominatorTreeAnalysis, IRAnalysesCache
        try:
            an = IRAnalysesCache(fn).request_analysis(DominatorTreeAnalysis)
            R, D = ex.bset(list(an.cfg_post_walk)), ex.table(an.dominators)
        except KeyError:
            # the real analysis does not support unreachable predecessors (dominators[pred] KeyError); the SSA theorem
            # only needs SOME table accepted by dom_check, so the definition-based one is used for this snapshot
            self.dom_analysis_keyerror += 1
            reach, dom = naive_dom(graph(ex))
            R = nlist(sorted(reach))
            D = "[" + "; ".join(nlist(sorted(dom[b])) if b in dom else "[]" for b in range(len(ex.blocks))) + "]"
        self.ssa[key] = dict(name=ex.name, func=ftxt, R=R, D=D,
                             nblocks=len(ex.blocks), ninsts=ex.ninsts, text=str(fn), passes={pname}, first_pass=pname,
                             witness=ssa_witness(ex))

    # ---- DFG
    def rec_dfg(self, dfg):
        self.calls["dfg"] += 1
        ex = Export(dfg.function)
        if ex.ninsts > self.max_insts:
            self.skipped_big += 1
            return
        ftxt = ex.func()
        outs = "[" + "; ".join(f"({ex.v(v)}, ({ex.site[id(i)][0]}, {ex.site[id(i)][1]}))" for v, i in dfg._dfg_outputs.items()
                               if id(i) in ex.site) + "]"
        dangling = [str(v) for v, i in dfg._dfg_outputs.items() if id(i) not in ex.site]
        ins = "[" + "; ".join(f"({ex.v(v)}, [" + "; ".join(f"({ex.site[id(i)][0]}, {ex.site[id(i)][1]})" for i in us if id(i) in ex.site) + "])"
                              for v, us in dfg._dfg_inputs.items()) + "]"
        dangling += [str(v) for v, us in dfg._dfg_inputs.items() if any(id(i) not in ex.site for i in us)]
        key = self._key(ftxt, outs, ins)
        if key in self.dfg:
            return
        self.dfg[key] = dict(name=ex.name, func=ftxt, outs=outs, ins=ins, nvars=len(ex.var), ninsts=ex.ninsts, text=str(dfg.function),
                             dangling=dangling, witness=dfg_witness(ex, dfg))


# ------------------------------------------------------------------ evaluation in Coq
def pick(samples, cap, rnd, size):
    """everything the Python search already suspects and the hand-written shapes; then the largest third of the cap;
    then a seeded sample"""
    samples = sorted(samples, key=lambda s: (-s[size], s["name"], s["ninsts"], s["func"]))
    must = [s for s in samples if s.get("witness") is not None or s["name"] == "s"]
    rest = [s for s in samples if not (s.get("witness") is not None or s["name"] == "s")]
    must = must[:cap]
    room = max(0, cap - len(must))
    if len(rest) <= room:
        return must + rest
    head = rest[:room // 3]
    return must + head + rnd.sample(rest[room // 3:], room - len(head))


def eval_dom(samples, complete_cap):
    exprs = []
    for s in samples:
        c = s["cert"]
        comp = "(if dom_complete_check f R D then 1%Z else 0%Z)" if s["nblocks"] <= complete_cap else "2%Z"
        exprs.append(f"let f : func := {s['func']} in let R := {c['R']} in let D := {c['D']} in "
                     f"[if cfg_check f {c['cout']} {c['cin']} R then 1%Z else 0%Z; if seteqN R {c['reach']} then 1%Z else 0%Z; "
                     f"if dom_check f R D then 1%Z else 0%Z; {comp}; if idom_check R D {c['I']} then 1%Z else 0%Z; "
                     f"if df_check f R D {c['DF']} then 1%Z else 0%Z]")
    return coqrun.eval_zlists(IMPORTS, exprs, f"c14d_dom_{os.getpid()}", shard=max(1, min(60, (len(exprs) + 5) // 6)), timeout=1500) if exprs else []


def eval_ssa(samples):
    exprs = [f"let f : func := {s['func']} in let R := {s['R']} in let D := {s['D']} in "
             "[if dom_check f R D then 1%Z else 0%Z; if ssa_check f R D then 1%Z else 0%Z; if single_def_check f then 1%Z else 0%Z]"
             for s in samples]
    return coqrun.eval_zlists(IMPORTS, exprs, f"c14d_ssa_{os.getpid()}", shard=max(1, min(60, (len(exprs) + 5) // 6)), timeout=1500) if exprs else []


def eval_dfg(samples):
    exprs = [f"[if dfg_check {s['func']} {nlist(range(s['nvars']))} {s['outs']} {s['ins']} then 1%Z else 0%Z]" for s in samples]
    return coqrun.eval_zlists(IMPORTS, exprs, f"c14d_dfg_{os.getpid()}", shard=max(1, min(60, (len(exprs) + 5) // 6)), timeout=1500) if exprs else []


# ------------------------------------------------------------------ hand-written CFG shapes (always part of the run)
SHAPES = [
    # diamond, loop with two exits, nested loops, irreducible-looking join, djmp
    """function s {
s:
    %c = calldataload 0
    jnz %c, @a, @b
a:
    %x = 1
    jmp @j
b:
    %x = 2
    jmp @j
j:
    mstore 0, %x
    stop
}
""",
    """function s {
s:
    %i = 0
    jmp @head
head:
    %c = lt %i, 10
    jnz %c, @body, @exit
body:
    %k = calldataload %i
    jnz %k, @cont, @exit2
cont:
    %i = add %i, 1
    jmp @head
exit:
    mstore 0, %i
    stop
exit2:
    mstore 0, %k
    stop
}
""",
    """function s {
s:
    %i = 0
    %acc = 0
    jmp @outer
outer:
    %c = lt %i, 3
    jnz %c, @inner_init, @done
inner_init:
    %j = 0
    jmp @inner
inner:
    %d = lt %j, 4
    jnz %d, @inner_body, @outer_next
inner_body:
    %acc = add %acc, %j
    %j = add %j, 1
    jmp @inner
outer_next:
    %i = add %i, 1
    jmp @outer
done:
    mstore 0, %acc
    stop
}
""",
    """function s {
s:
    %c = calldataload 0
    %v = 5
    jnz %c, @a, @b
a:
    %d = calldataload 32
    jnz %d, @c, @j
b:
    %v = 6
    jmp @c
c:
    %v = add %v, 1
    jmp @j
j:
    mstore 0, %v
    stop
}
""",
    # a sibling that reads the version defined above the branch while the other sibling redefines it (both orders)
    """function s {
s:
    %c = calldataload 0
    %x = 1
    jnz %c, @a, @b
a:
    %x = 2
    jmp @j
b:
    mstore 32, %x
    jmp @j
j:
    mstore 0, %x
    stop
}
""",
    """function s {
s:
    %c = calldataload 0
    %x = 1
    jnz %c, @a, @b
a:
    mstore 32, %x
    jmp @j
b:
    %x = 2
    jmp @j
j:
    mstore 0, %x
    stop
}
""",
]


def compile_shapes():
    """run MakeSSA (with the real analyses) on hand-written non-SSA functions, under the observer"""
    from vyper.venom.analysis import DFGAnalysis, IRAnalysesCache
    from vyper.venom.parser import parse_venom
    from vyper.venom.passes import MakeSSA
    for text in SHAPES:
        ctx = parse_venom(text)
        for fn in ctx.functions.values():
            ac = IRAnalysesCache(fn)
            MakeSSA(ac, fn).run_pass()
            ac.request_analysis(DFGAnalysis)


# ------------------------------------------------------------------ entry points
def prebuild(ctx):
    return ctx.coq_build_cached(COQ_FILES)


def part_dom(ctx):
    t0 = time.time()
    b = ctx.coq_build_cached(COQ_FILES)
    ctx.log(f"C14D coq build: {time.time() - t0:.1f}s ok={b['ok']}")
    model_ok = (COQ / "C14D" / "Dom.vo").exists() and (COQ / "C14D" / "Ssa.vo").exists()
    from vlib import c14_pass_corpus as PC
    from vyper.compiler import compile_code
    from vyper.compiler.settings import OptimizationLevel, Settings
    rnd = ctx.rng("c14d")
    progs = PC.select(ctx.tier, rnd)
    if ctx.tier == "quick":
        progs = progs[:14]
    levels = [OptimizationLevel.GAS] if ctx.tier == "quick" else [OptimizationLevel.GAS, OptimizationLevel.CODESIZE, OptimizationLevel.O3]
    nfail = 0
    t0 = time.time()
    with warnings.catch_warnings():
        warnings.simplefilter("ignore")
        import signal

        class Hang(Exception):
            pass

        def on_alarm(*a):
            raise Hang()
        old = signal.signal(signal.SIGALRM, on_alarm)
        hangs = []
        from . import c14d_makessa as MS
        with Observer(max_insts=700 if ctx.tier == "quick" else 1500) as obs, MS.Observer(max_insts=700 if ctx.tier == "quick" else 1500) as mobs:
            try:
                signal.alarm(30)
                compile_shapes()
                MS.run_random(ctx.rng("c14d-random-cfg"), 40 if ctx.tier == "quick" else 600)
            except Hang:
                hangs.append("hand-written CFG shapes (MakeSSA + analyses)")
            except Exception as e:  # noqa
                obs.errors.append(f"shapes: {type(e).__name__}: {e}")
            finally:
                signal.alarm(0)
            for c in progs:
                for lvl in levels:
                    try:
                        signal.alarm(40)
                        compile_code(c["src"], output_formats=["bytecode"], settings=Settings(experimental_codegen=True, optimize=lvl))
                    except Hang:
                        hangs.append(c["name"])
                        if len(hangs) >= 2:
                            break
                    except Exception:  # noqa
                        nfail += 1
                    finally:
                        signal.alarm(0)
                if len(hangs) >= 2:
                    break
        signal.signal(signal.SIGALRM, old)
    t_compile = time.time() - t0
    found = False
    if hangs:
        ctx.violation("correspondence-broken", "compilation does not terminate under observation (no analysis result to validate): "
                      + ", ".join(hangs), {"programs": hangs, "limit_seconds": 40})
    if obs.errors:
        ctx.violation("correspondence-broken", "cannot export an analysis result: " + obs.errors[0], {"errors": obs.errors[:5]})
    quick = ctx.tier == "quick"
    doms = pick(list(obs.dom.values()), 40 if quick else 900, rnd, "nblocks")
    ssas = pick(list(obs.ssa.values()), 70 if quick else 900, rnd, "ninsts")
    dfgs = pick(list(obs.dfg.values()), 30 if quick else 500, rnd, "ninsts")
    mcases = sorted(mobs.cases.values(), key=lambda c: (-(c.ninsts if c.problem is None else 10**9), c.name, c.key()))
    mcap = 90 if quick else 1500
    if len(mcases) > mcap:
        mcases = mcases[:mcap // 3] + rnd.sample(mcases[mcap // 3:], mcap - mcap // 3)
    if mobs.errors:
        ctx.violation("correspondence-broken", "cannot snapshot a MakeSSA invocation: " + mobs.errors[0], {"errors": mobs.errors[:5]})
    stats = {"programs": len(progs), "compile_failures": nfail, "compile_seconds": round(t_compile, 1), "calls": obs.calls,
             "distinct": {"dom": len(obs.dom), "ssa": len(obs.ssa), "dfg": len(obs.dfg)}, "too_big_skipped": obs.skipped_big,
             "functions_with_unreachable_blocks_at_dominator_analysis": obs.unreachable_at_dom,
             "snapshots_where_DominatorTreeAnalysis_raised_KeyError": obs.dom_analysis_keyerror,
             "checked": {"dom": len(doms), "ssa": len(ssas), "dfg": len(dfgs)},
             "accepted": {"cfg": 0, "dom_sound": 0, "dom_complete": 0, "idom": 0, "df": 0, "ssa": 0, "single_def": 0, "dfg": 0}}
    total = 0
    if model_ok:
        t0 = time.time()
        try:
            from concurrent.futures import ThreadPoolExecutor
            with ThreadPoolExecutor(max_workers=3) as ex:
                fd = ex.submit(eval_dom, doms, 100 if quick else 400)
                fs = ex.submit(eval_ssa, ssas)
                fg = ex.submit(eval_dfg, dfgs)
                fm = ex.submit(MS.evaluate, [c for c in mcases if c.problem is None])
                rd, rs, rg, rm = fd.result(), fs.result(), fg.result(), fm.result()
        except RuntimeError as e:
            ctx.violation("correspondence-broken", "the validators could not be evaluated on the exported results", {"error": str(e)[-1500:]})
            rd = rs = rg = rm = None
        stats["coq_seconds"] = round(time.time() - t0, 1)
        if rd is not None:
            names = ["cfg", "reachable", "dom_sound", "dom_complete", "idom", "df"]
            thm = {"cfg": "cfg_check (model CFG = cfg_in/cfg_out)", "reachable": "reachable set", "dom_sound": "dom_check_sound",
                   "dom_complete": "dom_exact", "idom": "idom_check_sound", "df": "df_check_sound"}
            nrep = 0
            for s, r in zip(doms, rd):
                total += 1
                for nm, v in zip(names, r):
                    if v == 1 and nm in stats["accepted"]:
                        stats["accepted"][nm] += 1
                badp = [nm for nm, v in zip(names, r) if v == 0]
                if badp and nrep < 2:
                    nrep += 1
                    w = s["witness"]
                    detail = {"function": s["text"][:6000], "rejected_checks": badp, "theorems_not_applicable": [thm[x] for x in badp]}
                    if w is not None:
                        found = True
                        ctx.violation("failing-input", "DominatorTreeAnalysis result contradicts the definition: " + w["problem"],
                                      dict(detail, **w, call="IRAnalysesCache(fn).request_analysis(DominatorTreeAnalysis) on parse_venom(function)"),
                                      key="dominators:" + badp[0])
                    else:
                        ctx.violation("theorem-broken", "the dominator certificate is rejected by the verified checker (" + ", ".join(badp) + ")", detail)
        if rs is not None:
            nrep = 0
            for s, r in zip(ssas, rs):
                total += 1
                stats["accepted"]["ssa"] += r[1] == 1 and r[0] == 1
                stats["accepted"]["single_def"] += r[2] == 1
                if (r[0] != 1 or r[1] != 1 or r[2] != 1) and nrep < 2:
                    nrep += 1
                    detail = {"function": s["text"][:6000], "after_pass": s["first_pass"], "also_after": sorted(s["passes"])[:8],
                              "checks": {"dom_check": r[0], "ssa_check": r[1], "single_def_check": r[2]}}
                    if s["witness"] is not None:
                        found = True
                        ctx.violation("failing-input", f"function is not in SSA form after {s['first_pass']}: " + s["witness"]["problem"],
                                      dict(detail, **s["witness"]), key="ssa:" + s["first_pass"])
                    elif not found:
                        ctx.violation("theorem-broken", "ssa_check_sound does not apply: the SSA certificate is rejected", detail)
                elif s["witness"] is not None and nrep < 2:
                    nrep += 1
                    ctx.violation("correspondence-broken", "the Python path search finds an SSA violation the verified checker accepts",
                                  {"function": s["text"][:6000], **s["witness"]})
        if rg is not None:
            nrep = 0
            for s, r in zip(dfgs, rg):
                total += 1
                stats["accepted"]["dfg"] += r[0] == 1 and not s["dangling"]
                if (r[0] != 1 or s["dangling"]) and nrep < 2:
                    nrep += 1
                    detail = {"function": s["text"][:6000], "dangling_instructions_for": s["dangling"][:5]}
                    if s["witness"] is not None:
                        found = True
                        ctx.violation("failing-input", "DFGAnalysis differs from the syntactic def/use sets: " + s["witness"]["problem"],
                                      dict(detail, **s["witness"]), key="dfg")
                    else:
                        ctx.violation("theorem-broken", "dfg_check rejects the DFGAnalysis result", detail)
    if model_ok and rm is not None:
        ms = {"makessa_invocations": mobs.calls, "distinct": len(mobs.cases), "checked": len(mcases), "accepted": 0,
              "precondition_violated_inputs": 0, "new_phis": 0, "inserted_assigns": 0, "new_versions": 0, "too_big_skipped": mobs.skipped_big}
        it = iter(rm)
        nrep = 0
        for c in mcases:
            total += 1
            r = [0] if c.problem is not None else next(it)
            if c.problem is None:
                ms["new_phis"] += c.n_new_phis
                ms["inserted_assigns"] += c.n_extra
                ms["new_versions"] += c.n_versions
                ms["blocks_with_params_hoisted"] = ms.get("blocks_with_params_hoisted", 0) + c.param_hoisted
            if r == [1]:
                ms["accepted"] += 1
                continue
            pre = MS.reads_unassigned(c.before) if c.problem is None else None
            if pre is not None:
                ms["precondition_violated_inputs"] += 1      # the input reads an unassigned variable: nothing is claimed
                continue
            if nrep >= 2:
                continue
            nrep += 1
            w = MS.witness(c)
            detail = {"function_before": MS.text_of(c.before)[:5000], "function_after": MS.text_of(c.after)[:6000],
                      "call": "MakeSSA(IRAnalysesCache(fn), fn).run_pass() on function_before"}
            if w is not None:
                found = True
                ctx.violation("failing-input", "MakeSSA does not preserve behaviour: " + w["problem"], dict(detail, **w), key="makessa:values")
            else:
                ctx.violation("theorem-broken", "makessa_check_sound does not apply: the certificate for a MakeSSA invocation is rejected "
                              "(function " + c.name + ")", dict(detail, certificate=c.cert[:3000]))
        stats["makessa"] = ms
    if not b["ok"] and not found:
        ctx.violation("theorem-broken", f"{b.get('failed_lemma')} in {b['file']}",
                      {"theorem": b.get("failed_lemma"), "file": b["file"], "coq_output": b["out"][-1500:]})
    ctx.corr["dominators_ssa_dfg"] = stats
    ctx.log(f"C14D: compile {t_compile:.1f}s, coq {stats.get('coq_seconds')}s, checked {stats['checked']}, accepted {stats['accepted']}, "
            f"makessa {stats.get('makessa')}")
    if doms:
        ctx.samples.append({"validated_dominator_tree": doms[0]["name"], "blocks": doms[0]["nblocks"]})
    ctx.trusted += ["C14D: export of IRFunction objects to Coq literals (tools/vlib/c14d_part.py Export); the CFG of the theorems is the "
                    "terminator-defined one, checked equal to CFGAnalysis.cfg_in/cfg_out per function"]
    return total
