"""C14S corpus: deep-stack contracts (many live locals / args / returns, loops with many carried variables, branches
joining with many live values) and a hook recording the scheduler's stack map on every CFG edge."""


def gen_contract(rnd, nloc=None):
    """seeded contract whose functions keep >16 values alive"""
    nloc = nloc or rnd.randrange(14, 30)
    L = []
    nargs = rnd.randrange(6, 13)
    nret = rnd.randrange(2, 6)
    args = ", ".join(f"a{i}: uint256" for i in range(nargs))
    rets = ", ".join(["uint256"] * nret)
    L += ["@internal", f"def many({args}) -> ({rets}):"]
    for i in range(nret):
        terms = " + ".join(f"a{(i + k) % nargs} * {k + 2}" for k in range(0, nargs, 2))
        L.append(f"    r{i}: uint256 = unsafe_add({terms.replace(' + ', ', unsafe_mul(1, ', 1)}{')' if False else ''}, {i})" if False else
                 f"    r{i}: uint256 = " + " ^ ".join(f"unsafe_mul(a{(i + k) % nargs}, {k + 2})" for k in range(0, nargs, 2)) + f" ^ {i}")
    L.append("    return " + ", ".join(f"r{i}" for i in range(nret)))
    L.append("")
    # straight-line with many live locals, branch join, loop with many carried vars
    L += ["@external", "def g(x: uint256, y: uint256) -> uint256:"]
    for i in range(nloc):
        if i < 2:
            L.append(f"    v{i}: uint256 = unsafe_add({'x' if i == 0 else 'y'}, {i + 1})")
        else:
            a, b = rnd.randrange(0, i), rnd.randrange(0, i)
            op = rnd.choice(["unsafe_add", "unsafe_mul", "unsafe_sub"])
            L.append(f"    v{i}: uint256 = {op}(v{a}, v{b}) ^ {i}")
    # branch: modifies a subset, all remain live
    mod = rnd.sample(range(nloc), min(nloc, rnd.randrange(2, 8)))
    L.append("    if x & 1 == 1:")
    for i in mod:
        L.append(f"        v{i} = unsafe_add(v{i}, v{(i + 3) % nloc})")
    L.append("    else:")
    for i in mod[::-1][:max(1, len(mod) // 2)]:
        L.append(f"        v{i} = unsafe_mul(v{i}, 3)")
    # a value defined before the loop that is both the initial value of a loop-carried variable and used in the body
    inv = rnd.randrange(nloc)
    L.append(f"    w: uint256 = v{inv}")
    # loop with carried variables
    car = rnd.sample([i for i in range(nloc) if i != inv], min(nloc - 1, rnd.randrange(3, 10)))
    L.append("    for i: uint256 in range(3):")
    L.append(f"        w = unsafe_add(w, v{inv})")
    for j, i in enumerate(car):
        L.append(f"        v{i} = unsafe_add(v{i}, v{car[(j + 1) % len(car)]}) ^ i")
    L.append("        if v0 & 7 == 3:")
    L.append("            break")
    # internal call with many args / returns
    call_args = ", ".join(f"v{rnd.randrange(nloc)}" for _ in range(nargs))
    L.append("    " + ", ".join(f"q{i}: uint256" for i in range(nret)) + f" = self.many({call_args})" if False else
             "    q: (" + ", ".join(["uint256"] * nret) + f") = self.many({call_args})")
    order = list(range(nloc))
    rnd.shuffle(order)
    acc = "w ^ " + " ^ ".join(f"unsafe_mul(v{i}, {k + 1})" for k, i in enumerate(order))
    L.append(f"    return {acc} ^ " + " ^ ".join(f"q[{i}]" for i in range(nret)))
    return "\n".join(L) + "\n"


class EdgeRecorder:
    """monkeypatches VenomCompiler._generate_evm_for_basicblock_r to record, for every CFG edge pred->bb, the
    stack map handed to bb, the spilled dict and the liveness-derived target list"""

    def __init__(self):
        self.records = []     # (fn name, bb label, pred label, stack names, spilled keys, target names (phi-normalised))
        self._orig = None

    def __enter__(self):
        from vyper.venom.venom_to_assembly import VenomCompiler
        rec = self
        self._cls = VenomCompiler
        self._orig = VenomCompiler._generate_evm_for_basicblock_r

        def wrapper(vc, asm, bb, stack, spilled, bound):
            cur = getattr(vc, "_c14s_cur", [])
            pred = cur[-1] if cur else None
            if pred is not None:
                phi_map = {}
                for inst in bb.instructions:
                    if inst.opcode == "phi":
                        for label, var in inst.phi_operands:
                            if label.value == pred.label.value:
                                phi_map[var.name] = inst.output.name
                try:
                    target = [phi_map.get(v.name, v.name) for v in vc.liveness.input_vars_from(pred, bb)]
                except Exception as e:  # noqa
                    target = [f"<error {e}>"]
                st = [phi_map.get(getattr(o, "name", None) if hasattr(o, "value") and isinstance(o.value, str) else None, str(o))
                      if hasattr(o, "value") else str(o) for o in stack._stack]
                rec.records.append((bb.parent.name.value, bb.label.value, pred.label.value, st,
                                    sorted(phi_map.get(k.name, k.name) for k in spilled), target,
                                    len(vc.cfg.cfg_in(bb))))
            visited = bb in vc.visited_basicblocks
            vc._c14s_cur = cur + [bb]
            try:
                return rec._orig(vc, asm, bb, stack, spilled, bound)
            finally:
                vc._c14s_cur = cur

        VenomCompiler._generate_evm_for_basicblock_r = wrapper
        return self

    def __exit__(self, *a):
        self._cls._generate_evm_for_basicblock_r = self._orig


def join_disagreements(records):
    """for every block with >= 2 incoming edges: the phi-normalised target lists must be equal, the top |target|
    items of every incoming stack map must be that list, the stacks must agree below it (dead-prefix items excepted)"""
    by_bb = {}
    for r in records:
        if r[6] >= 2:
            by_bb.setdefault((r[0], r[1]), []).append(r)
    bad = []
    n = 0
    for key, rs in by_bb.items():
        n += 1
        t0 = rs[0][5]
        for r in rs:
            if r[5] != t0:
                bad.append({"function": key[0], "block": key[1], "what": "target lists differ", "edges": [(x[2], x[5]) for x in rs]})
                break
            k = len(r[5])
            if k and r[3][-k:] != r[5]:
                bad.append({"function": key[0], "block": key[1], "what": "incoming stack top is not the target list",
                            "pred": r[2], "stack": r[3], "target": r[5]})
                break
        else:
            heights = {len([x for x in r[3] if "dead" not in x.lower()]) for r in rs}
            if len(heights) > 1:
                bad.append({"function": key[0], "block": key[1], "what": "live stack heights differ on incoming edges",
                            "edges": [(x[2], x[3]) for x in rs]})
    return n, bad


# fixed programs with historically problematic shapes (source, selector signature, argument lists)
FIXED = [
    ("""
s1: uint256
s2: int256

@external
def f1(a1: uint256) -> uint256:
    self.s1 = a1
    for v0: uint8 in range(2):
        self.s1 += a1
    return self.s1

@external
def f2(a1: int256) -> int256:
    self.s2 = a1
    for v0: uint8 in range(3):
        self.s2 = (-self.s2) - a1
    return self.s2
""", [("f1(uint256)", [5]), ("f1(uint256)", [0]), ("f2(int256)", [7]), ("f2(int256)", [2**256 - 3])]),
    # a callee that never returns (932abac: invoke arity), arguments read at evaluation time (d038d61)
    ("""
x: uint256

@internal
def _never(p: uint256) -> uint256:
    raise "no"

@internal
def wr() -> uint256:
    self.x = 9
    return 1

@internal
def h(a: uint256, b: uint256) -> uint256:
    return a * 10 + b

@external
def g(p: uint256) -> uint256:
    if p > 3:
        return self._never(p)
    return p

@external
def go() -> uint256:
    self.x = 5
    return self.h(self.x, self.wr())
""", [("g(uint256)", [2]), ("g(uint256)", [7]), ("go()", [])]),
    # a dead phi output (dead-code removal disabled) was left in the stack map under its own name: "Retained dead stack
    # item is above a live item" in clean_stack_from_cfg_in (notes/patches/c14s_dead_phi_output.diff, ac6097c)
    ("""
t0: bool
t1: uint256
@external
def f0(a0: uint256, a2: bool) -> int256:
    assert (((a2 or (a0 > self.t1)) and (not a2)) or True)
    assert ((True and self.t0) and ((True or self.t0) or (a2 or False)))
    return (convert(a0, int256) ^ 1)
""", [("f0(uint256,bool)", [5, 0]), ("f0(uint256,bool)", [0, 1])]),
    # a callee whose spill slots (prologue popmany / deep swaps) started at fn_eom[callee] and overwrote the caller's frame:
    # memory-passed arguments (notes/patches/c14s_spill_region_aliases_caller_frame.diff)
    ("""
@internal
def f4(p0: uint256, p1: uint256, p2: uint256, p3: uint256, p4: uint256, p5: uint256, p6: uint256, p7: uint256, p8: uint256, p9: uint256, p10: uint256, p11: uint256, p12: uint256, p13: uint256, p14: uint256, p15: uint256, p16: uint256, p17: uint256, p18: uint256, p19: uint256) -> uint256:
    t: uint256 = unsafe_add(unsafe_add(unsafe_add(unsafe_add(unsafe_add(unsafe_add(unsafe_add(unsafe_add(unsafe_add(unsafe_add(unsafe_add(unsafe_add(unsafe_add(unsafe_add(unsafe_add(unsafe_add(0, unsafe_mul(p1, 5)), unsafe_mul(p2, 8)), unsafe_mul(p3, 11)), unsafe_mul(p4, 14)), unsafe_mul(p5, 17)), unsafe_mul(p6, 20)), unsafe_mul(p7, 23)), unsafe_mul(p8, 26)), unsafe_mul(p9, 29)), unsafe_mul(p10, 32)), unsafe_mul(p13, 41)), unsafe_mul(p14, 44)), unsafe_mul(p15, 47)), unsafe_mul(p16, 50)), unsafe_mul(p17, 53)), unsafe_mul(p19, 59))
    return t

@external
def w4(x: uint256) -> uint256:
    base: uint256 = unsafe_mul(x, 7)
    r: uint256 = self.f4(unsafe_add(x, 0), unsafe_add(x, 1), unsafe_add(x, 2), unsafe_add(x, 3), unsafe_add(x, 4), unsafe_add(x, 5), unsafe_add(x, 6), unsafe_add(x, 7), unsafe_add(x, 8), unsafe_add(x, 9), unsafe_add(x, 10), unsafe_add(x, 11), unsafe_add(x, 12), unsafe_add(x, 13), unsafe_add(x, 14), unsafe_add(x, 15), unsafe_add(x, 16), unsafe_add(x, 17), unsafe_add(x, 18), unsafe_add(x, 19))
    r2: uint256 = self.f4(unsafe_add(x, 100), unsafe_add(x, 1), unsafe_add(x, 2), unsafe_add(x, 3), unsafe_add(x, 4), unsafe_add(x, 5), unsafe_add(x, 6), unsafe_add(x, 7), unsafe_add(x, 8), unsafe_add(x, 9), unsafe_add(x, 10), unsafe_add(x, 11), unsafe_add(x, 12), unsafe_add(x, 13), unsafe_add(x, 14), unsafe_add(x, 15), unsafe_add(x, 16), unsafe_add(x, 17), unsafe_add(x, 18), unsafe_add(x, 19))
    return unsafe_add(base, unsafe_add(r, unsafe_mul(r2, 3)))
""", [("w4(uint256)", [0]), ("w4(uint256)", [3])], "c14s:spill-region-aliases-caller-frame"),
    # same defect, no memory-passed argument: a caller memory array live across the call to a spilling callee
    ("""
@internal
def deep(p0: uint256, p1: uint256, p2: uint256, p3: uint256, p4: uint256, p5: uint256) -> uint256:
    a0: uint256 = unsafe_add(p0, 1)
    a1: uint256 = unsafe_add(p1, 2)
    a2: uint256 = unsafe_add(p2, 3)
    a3: uint256 = unsafe_add(p3, 4)
    a4: uint256 = unsafe_add(p4, 5)
    a5: uint256 = unsafe_add(p5, 6)
    a6: uint256 = unsafe_mul(p0, 7)
    a7: uint256 = unsafe_mul(p1, 8)
    a8: uint256 = unsafe_mul(p2, 9)
    a9: uint256 = unsafe_mul(p3, 10)
    a10: uint256 = unsafe_mul(p4, 11)
    a11: uint256 = unsafe_mul(p5, 12)
    a12: uint256 = unsafe_sub(p0, 13)
    a13: uint256 = unsafe_sub(p1, 14)
    a14: uint256 = unsafe_sub(p2, 15)
    a15: uint256 = unsafe_sub(p3, 16)
    a16: uint256 = unsafe_sub(p4, 17)
    a17: uint256 = unsafe_sub(p5, 18)
    r: uint256 = 0
    for i: uint256 in range(2):
        r = unsafe_add(r, unsafe_add(unsafe_add(unsafe_add(unsafe_add(unsafe_add(unsafe_add(unsafe_add(unsafe_add(unsafe_add(unsafe_add(unsafe_add(unsafe_add(unsafe_add(unsafe_add(unsafe_add(unsafe_add(unsafe_add(a0, a1), a2), a3), a4), a5), a6), a7), a8), a9), a10), a11), a12), a13), a14), a15), a16), a17))
    return r

@external
def w(x: uint256) -> uint256:
    arr: uint256[8] = [x, unsafe_add(x, 1), unsafe_add(x, 2), unsafe_add(x, 3), unsafe_add(x, 4), unsafe_add(x, 5), unsafe_add(x, 6), unsafe_add(x, 7)]
    r: uint256 = self.deep(arr[0], arr[1], arr[2], arr[3], arr[4], arr[5])
    r2: uint256 = self.deep(arr[7], arr[6], arr[5], arr[4], arr[3], arr[2])
    s: uint256 = 0
    for i: uint256 in range(8):
        s = unsafe_add(unsafe_mul(s, 3), arr[i])
    return unsafe_add(unsafe_add(r, unsafe_mul(r2, 5)), s)
""", [("w(uint256)", [0]), ("w(uint256)", [11])], "c14s:spill-region-aliases-caller-frame"),
]


# ------------------------------------------------------------------ internal-call convention: signature family
def gen_call_family(rnd, nfun=6):
    """contract with internal functions of varied signatures (0..20 word arguments, struct / array arguments passed through
    memory in between, 0..6 return values: none, word, tuples, struct, array) and external wrappers w<k>(x) that build the
    arguments from x, call and fold every returned value with position-dependent weights (so any permutation of
    arguments or return values changes the result)."""
    L = ["struct S:", "    a: uint256", "    b: uint256", ""]
    wrappers = []
    for k in range(nfun):
        nword = rnd.choice([0, 1, 2, 3, 4, 5, 6, 7, 9, 12, 16, 20])
        params = [("w", i) for i in range(nword)]
        for _ in range(rnd.choice([0, 0, 1, 2])):
            params.insert(rnd.randrange(len(params) + 1), (rnd.choice(["s", "arr"]), len(params)))
        params = [(kind, i) for i, (kind, _j) in enumerate(params)]
        ret = rnd.choice(["none", "word", "t2", "t3", "t6", "struct", "arr3"])
        if not params and ret == "none":
            ret = "word"
        decl = ", ".join({"w": f"p{i}: uint256", "s": f"p{i}: S", "arr": f"p{i}: uint256[2]"}[kind] for kind, i in params)
        terms = []
        for kind, i in params:
            wgt = 3 * i + 2
            if rnd.random() < 0.2:
                continue            # an unused parameter (dead at function entry: the prologue must pop it)
            if kind == "w":
                terms.append(f"unsafe_mul(p{i}, {wgt})")
            elif kind == "s":
                terms.append(f"unsafe_mul(p{i}.a, {wgt})")
                terms.append(f"unsafe_mul(p{i}.b, {wgt + 1})")
            else:
                terms.append(f"unsafe_mul(p{i}[0], {wgt})")
                terms.append(f"unsafe_mul(p{i}[1], {wgt + 1})")
        acc = "0"
        for tm in terms:
            acc = f"unsafe_add({acc}, {tm})"
        rett = {"none": "", "word": " -> uint256", "t2": " -> (uint256, uint256)", "t3": " -> (uint256, uint256, uint256)",
                "t6": " -> (uint256, uint256, uint256, uint256, uint256, uint256)", "struct": " -> S", "arr3": " -> uint256[3]"}[ret]
        nret = {"none": 0, "word": 1, "t2": 2, "t3": 3, "t6": 6, "struct": 2, "arr3": 3}[ret]
        L += ["@internal", f"def f{k}({decl}){rett}:", f"    t: uint256 = {acc}"]
        if ret == "none":
            L += ["    self.sink = t"]
        elif ret == "word":
            L += ["    return t"]
        elif ret == "struct":
            L += ["    return S(a=t, b=unsafe_add(t, 1))"]
        elif ret == "arr3":
            L += ["    return [t, unsafe_add(t, 1), unsafe_add(t, 2)]"]
        else:
            L += ["    return " + ", ".join(f"unsafe_add(t, {j})" for j in range(nret))]
        L.append("")
        # wrapper
        argx = ", ".join({"w": f"unsafe_add(x, {i})", "s": f"S(a=unsafe_add(x, {i}), b={i + 100})",
                          "arr": f"[unsafe_add(x, {i}), {i + 200}]"}[kind] for kind, i in params)
        W = ["@external", f"def w{k}(x: uint256) -> uint256:", "    base: uint256 = unsafe_mul(x, 7)"]
        call = f"self.f{k}({argx})"
        if ret == "none":
            W += [f"    {call}", "    return unsafe_add(base, self.sink)"]
        elif ret == "word":
            W += [f"    r: uint256 = {call}", "    return unsafe_add(base, r)"]
        elif ret == "struct":
            W += [f"    r: S = {call}", "    return unsafe_add(base, unsafe_add(unsafe_mul(r.a, 3), unsafe_mul(r.b, 5)))"]
        elif ret == "arr3":
            W += [f"    r: uint256[3] = {call}",
                  "    return unsafe_add(base, unsafe_add(unsafe_mul(r[0], 3), unsafe_add(unsafe_mul(r[1], 5), unsafe_mul(r[2], 7))))"]
        else:
            names = [f"r{j}" for j in range(nret)]
            for nme in names:
                W.append(f"    {nme}: uint256 = 0")
            W.append("    " + ", ".join(names) + f" = {call}")
            fold = "base"
            for j, nme in enumerate(names):
                fold = f"unsafe_add({fold}, unsafe_mul({nme}, {2 * j + 3}))"
            W.append(f"    return {fold}")
        W.append("")
        wrappers += W
    src = "\n".join(L[:4] + ["sink: uint256", ""] + L[4:] + wrappers) + "\n"
    return src, [f"w{k}(uint256)" for k in range(nfun)]


def arity_disagreements(ctx):
    """on the final venom IR: every `invoke` passes as many operands as the callee has `param`s (the return pc is the
    callee's last param and is not an operand) and binds as many outputs as every `ret` of the callee returns"""
    from vyper.venom.basicblock import IRLabel
    bad, n = [], 0
    fns = {fn.name.value: fn for fn in ctx.functions.values()}
    for fn in ctx.functions.values():
        for bb in fn.get_basic_blocks():
            for inst in bb.instructions:
                if inst.opcode != "invoke":
                    continue
                n += 1
                target = inst.operands[0]
                assert isinstance(target, IRLabel)
                callee = fns.get(target.value)
                if callee is None:
                    bad.append({"caller": fn.name.value, "invoke": str(inst), "problem": "unknown callee"})
                    continue
                nparams = sum(1 for i in callee.entry.instructions if i.is_param)
                nops = len(list(inst.get_non_label_operands()))
                if nparams != nops + 1:
                    bad.append({"caller": fn.name.value, "invoke": str(inst), "problem": f"{nops} operands for {nparams} params (incl. return pc)"})
                for cbb in callee.get_basic_blocks():
                    for ci in cbb.instructions:
                        if ci.opcode == "ret" and len(ci.operands) - 1 != len(inst.get_outputs()):
                            bad.append({"caller": fn.name.value, "invoke": str(inst), "ret": str(ci),
                                        "problem": f"{len(inst.get_outputs())} outputs bound, callee returns {len(ci.operands) - 1}"})
    return n, bad
