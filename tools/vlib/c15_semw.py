"""C15 extension (session 3): semantics tie for coq/C15/SemW.v (`evalW`: with / set / repeat / break / continue with a fixed
environment-binding meaning) against the real compile_ir lowering (no optimiser) executed on pyrevm.

Seeded random IR programs over literals, with-variables, arithmetic, mload / mstore / sload / sstore / calldataload at aligned
addresses, seq, if, assert, with (incl. shadowing and valued bodies), set (incl. inside operands, branches and loops), repeat
(literal and run-time round counts, rounds > bound reverting, rounds = 0), break (also from inside `with` scopes) and
continue.  Each program ends by copying four storage slots to memory and returning twelve memory words; the Coq side runs
`WInst.runW_obs` (vm_compute) on the same tree and the same calldata words."""
from vlib import coqrun
from vlib.c15_ir import HALF, W

LITS = [0, 0, 1, 1, 2, 3, 5, 7, 31, 32, 33, 255, 256, 2**128, HALF - 1, HALF, W - 2, W - 1, -1]
BIN = ["add", "sub", "mul", "and", "or", "xor", "lt", "gt", "eq", "ne", "le", "ge", "slt", "sgt", "div", "mod", "shl", "shr"]


class Gen:
    def __init__(self, rnd):
        self.rnd = rnd
        self.n = 0

    def fresh(self, p):
        self.n += 1
        return f"{p}{self.n}"

    def addr(self, sc, d):
        r = self.rnd
        if d <= 0 or r.random() < 0.6:
            return 32 * r.randrange(0, 8)
        return ["mul", 32, ["and", self.val(sc, d - 1), 7]]

    def key(self, sc, d):
        r = self.rnd
        if d <= 0 or r.random() < 0.6:
            return r.randrange(0, 4)
        return ["and", self.val(sc, d - 1), 3]

    def val(self, sc, d):
        """valency-1 tree; sc = {'vars': visible names, 'set': assignable names, 'loops': depth, 'clean': no `with` opened
        since the innermost loop started}"""
        r = self.rnd
        k = r.random()
        if d <= 0 or k < 0.22:
            if sc["vars"] and r.random() < 0.6:
                return r.choice(sc["vars"])
            return r.choice(LITS)
        if k < 0.50:
            return [r.choice(BIN), self.val(sc, d - 1), self.val(sc, d - 1)]
        if k < 0.56:
            return [r.choice(["iszero", "not"]), self.val(sc, d - 1)]
        if k < 0.64:
            return ["calldataload", r.choice([0, 32, 64])]
        if k < 0.72:
            return ["mload", self.addr(sc, d - 1)]
        if k < 0.78:
            return ["sload", self.key(sc, d - 1)]
        if k < 0.88:
            x = r.choice(["x", "y", self.fresh("v")])       # re-used names: shadowing
            inner = dict(sc, vars=sc["vars"] + [x], set=sc["set"] + [x], clean=False)
            return ["with", x, self.val(sc, d - 1), self.val(inner, d - 1)]
        if k < 0.95:
            pre = [self.stmt(sc, d - 1) for _ in range(r.randrange(1, 3))]
            return ["seq"] + pre + [self.val(sc, d - 1)]
        return ["if", self.val(sc, d - 1), self.val(sc, d - 1), self.val(sc, d - 1)]

    def stmt(self, sc, d):
        r = self.rnd
        k = r.random()
        if d <= 0 or k < 0.12:
            j = r.random()
            if sc["loops"] and j < 0.25:
                return ["if", self.val(sc, 1), "break"]
            if sc["loops"] and sc["clean"] and j < 0.45:
                return ["if", self.val(sc, 1), "continue"]
            if sc["set"] and j < 0.75:
                return ["set", r.choice(sc["set"]), self.val(sc, 1)]
            return ["mstore", 32 * r.randrange(0, 8), self.val(sc, 1)]
        if k < 0.26:
            return ["mstore", self.addr(sc, d - 1), self.val(sc, d - 1)]
        if k < 0.34:
            return ["sstore", self.key(sc, d - 1), self.val(sc, d - 1)]
        if k < 0.48 and sc["set"]:
            return ["set", r.choice(sc["set"]), self.val(sc, d - 1)]
        if k < 0.58:
            if r.random() < 0.5:
                return ["if", self.val(sc, d - 1), self.stmt(sc, d - 1)]
            return ["if", self.val(sc, d - 1), self.stmt(sc, d - 1), self.stmt(sc, d - 1)]
        if k < 0.72:
            # a statement has valency 0 (branches of an `if` must agree): a value is never the last element
            return ["seq"] + [self.stmt(sc, d - 1) if r.random() < 0.85 else self.val(sc, d - 1)
                              for _ in range(r.randrange(0, 4))] + ["pass"]
        if k < 0.84:
            x = r.choice(["x", "y", self.fresh("v")])
            inner = dict(sc, vars=sc["vars"] + [x], set=sc["set"] + [x], clean=False)
            return ["with", x, self.val(sc, d - 1), self.stmt(inner, d - 1)]
        if k < 0.97 and sc["loops"] < 2:
            i = self.fresh("i")
            bound = r.choice([1, 2, 3, 5])
            j = r.random()
            if j < 0.4:
                rounds = bound
            elif j < 0.6:
                rounds = r.randrange(0, bound + 3)       # a literal above the bound reverts at run time
            else:
                rounds = ["and", self.val(sc, 1), 7]        # run time: 0 skips the loop, > bound reverts
            start = r.choice([0, 0, 3, W - 2, self.val(sc, 1)])
            # the loop variable is visible but not assignable (the front end never assigns it; evalW's fuel is exact then)
            inner = dict(sc, vars=sc["vars"] + [i], loops=sc["loops"] + 1, clean=True)
            body = ["seq"] + [self.stmt(inner, d - 1) for _ in range(r.randrange(1, 4))]
            if r.random() < 0.15:
                body.append(self.val(inner, 1))     # a valued body
            return ["repeat", i, start, rounds, bound, body]
        return ["assert", self.val(sc, d - 1)]


EPILOGUE = [["mstore", 256 + 32 * k, ["sload", k]] for k in range(4)] + [["return", 0, 384]]

# directed programs: each feature in isolation
DIRECTED = [
    ["with", "x", 5, ["seq", ["set", "x", ["add", "x", 1]], ["mstore", 0, "x"]]],
    ["with", "x", 1, ["with", "x", 2, ["seq", ["set", "x", 7], ["mstore", 0, "x"]]]],
    ["with", "x", 1, ["seq", ["with", "x", 2, ["set", "x", 7]], ["mstore", 0, "x"]]],
    ["with", "x", 1, ["with", "y", 2, ["seq", ["set", "x", 9], ["mstore", 0, "x"], ["mstore", 32, "y"]]]],
    ["with", "x", 3, ["mstore", 0, ["add", "x", ["seq", ["set", "x", 10], "x"]]]],
    ["with", "x", 3, ["mstore", 0, ["sub", ["seq", ["set", "x", 10], "x"], "x"]]],
    ["with", "x", 3, ["mstore", ["seq", ["set", "x", 64], 32], "x"]],
    ["with", "x", ["calldataload", 0], ["if", "x", ["set", "x", 0], ["set", "x", 77]], ],
    ["mstore", 0, ["with", "a", 4, ["with", "b", ["mul", "a", "a"], ["add", "a", "b"]]]],
    ["repeat", "i", 0, 3, 3, ["mstore", ["mul", 32, "i"], ["add", "i", 100]]],
    ["repeat", "i", 2, 3, 3, ["mstore", ["mul", 32, "i"], ["add", "i", 100]]],
    ["repeat", "i", W - 1, 3, 3, ["sstore", ["and", "i", 3], ["add", "i", 100]]],
    ["repeat", "i", 0, ["calldataload", 0], 5, ["mstore", ["mul", 32, "i"], 9]],
    ["repeat", "i", 1, ["calldataload", 32], 2, ["mstore", ["mul", 32, "i"], 9]],
    ["with", "s", 0, ["seq", ["repeat", "i", 0, 5, 5, ["seq", ["if", ["eq", "i", 3], "break"], ["set", "s", ["add", "s", "i"]]]],
                      ["mstore", 0, "s"]]],
    ["with", "s", 0, ["seq", ["repeat", "i", 0, 5, 5, ["seq", ["if", ["eq", "i", 3], "continue"], ["set", "s", ["add", "s", "i"]]]],
                      ["mstore", 0, "s"]]],
    ["with", "s", 0, ["seq", ["repeat", "i", 0, 5, 5, ["with", "t", ["mul", "i", 2],
                                                       ["seq", ["if", ["gt", "t", 4], "break"], ["set", "s", ["add", "s", "t"]]]]],
                      ["mstore", 0, "s"]]],
    ["with", "s", 0, ["seq", ["repeat", "i", 0, 3, 3, ["repeat", "j", "i", 2, 2,
                                                       ["seq", ["if", ["eq", "j", 2], "break"], ["set", "s", ["add", ["mul", "s", 10], "j"]]]]],
                      ["mstore", 0, "s"]]],
    ["repeat", "i", 0, 2, 2, ["seq", ["mstore", 0, "i"], ["add", "i", 1]]],
    ["seq", ["assert", ["calldataload", 0]], ["mstore", 0, 1]],
    # a literal round count different from the bound keeps its run-time checks: 7 > 5 reverts, 0 skips the loop
    ["seq", ["mstore", 32, 1], ["repeat", "i", 0, 7, 5, ["mstore", ["mul", 32, ["and", "i", 7]], 9]]],
    ["seq", ["mstore", 32, 1], ["repeat", "i", 4, 0, 5, ["mstore", ["mul", 32, ["and", "i", 7]], 9]]],
    ["seq", ["mstore", 32, 1], ["repeat", "i", 4, 2, 5, ["mstore", ["mul", 32, ["and", "i", 7]], 9]]],
]


def programs(rnd, want):
    out = [["seq", p] + EPILOGUE for p in DIRECTED]
    g = Gen(rnd)
    while len(out) < want:
        sc = {"vars": [], "set": [], "loops": 0, "clean": True}
        body = ["seq"] + [g.stmt(sc, rnd.choice([2, 3, 4])) for _ in range(rnd.randrange(1, 4))]
        if rnd.random() < 0.5:
            body = ["with", "x", ["calldataload", 0], ["with", "y", ["calldataload", 32], body]]
            sc = None
        out.append(["seq", body] + EPILOGUE)
    return out


def run(ctx):
    """returns the number of (program, calldata) cases compared; reports a mismatch per the README protocol"""
    from vyper.codegen.ir_node import IRnode
    from vyper.compiler.settings import OptimizationLevel, Settings, anchor_settings
    from vyper.evm.assembler import assembly_to_evm
    from vyper.ir import compile_ir
    from vlib import c15_tree
    from vlib.evm import Chain
    rnd = ctx.rng("semw")
    want = 110 if ctx.tier != "thorough" else 900
    inputs = [[0, 0, 0], [1, 2, 3], [rnd.randrange(8), rnd.randrange(W), rnd.randrange(8)], [W - 1, 5, HALF]]
    chain = Chain("cancun")
    cases, exprs, excs, feats = [], [], [], {"with": 0, "set": 0, "repeat": 0, "break": 0, "continue": 0}
    with anchor_settings(Settings(evm_version="cancun")):
        for prog in programs(rnd, want):
            try:
                node = IRnode.from_list(prog)
                c = c15_tree.coq_of_node(node)
            except Exception:  # noqa  (rejected by the IRnode constructor: not a case)
                continue
            try:
                asm = compile_ir.compile_to_assembly(node, OptimizationLevel.NONE)
                code = assembly_to_evm(asm)[0]
            except Exception as e:  # noqa
                if "too deep" in str(e):        # DUP17 / SWAP17: a limit of the lowerer, not a case
                    continue
                # the generated programs are well-scoped: evalW gives them a meaning, so the lowerer must accept them
                cases.append((c15_tree.show_node(node), [], [99, len(cases)]))
                exprs.append(f"runW_obs {c} []")
                excs.append(f"{type(e).__name__}: {e}"[:300])
                continue
            txt = repr(prog)
            for f in feats:
                feats[f] += int(f"'{f}'" in txt)
            ins = inputs[:2] + [rnd.choice(inputs[2:])]
            for cd in ins:
                addr = chain.set_code(None, code)           # fresh storage for every run
                r = chain.call(addr, b"".join(v.to_bytes(32, "big") for v in cd))
                if r.ok and len(r.out) == 384:
                    got = [1] + [int.from_bytes(r.out[32 * k:32 * k + 32], "big") for k in range(12)]
                elif r.ok:
                    got = [3]
                else:
                    got = [2]
                cases.append((c15_tree.show_node(node), cd, got))
                exprs.append(f"runW_obs {c} {coqrun.zlist(cd)}")
    imports = ("From Verif Require Import Base.Word256 Base.PyInt C15.Syntax C15.GenUtils C15.Peephole C15.Lower C15.SemW C15.WInst.\n"
               "Open Scope string_scope.\n")
    outs = coqrun.eval_zlists(imports, exprs, "c15semw", shard=(len(exprs) + 2) // 3)
    bad, nontrivial = None, 0
    for (s0, cd, got), e in zip(cases, outs):
        nontrivial += int(got[0] == 1 and any(got[1:]))
        if list(e) != got and bad is None:
            bad = {"ir": s0[:1800], "calldata_words": [hex(v) for v in cd],
                   "coq_evalW": [hex(v) for v in e], "compile_ir+evm": [hex(v) for v in got],
                   "legend": "status 1=RETURN(12 words) 2=REVERT/INVALID 3=STOP 12=fuel 13=stuck 99=the real lowerer raised",
                   "lowerer_exceptions": excs[:2]}
    ctx.corr["semw_cases"] = len(cases)
    ctx.corr["semw_returning_nonzero"] = nontrivial
    ctx.corr["semw_features"] = feats
    if bad is not None:
        ctx.violation("correspondence-broken",
                      "C15/SemW.v meaning of with/set/repeat/break/continue != real compile_ir lowering executed on the EVM", bad)
    return len(cases)


# ---- property oracle on loops whose round count the optimiser folds (optimised vs unoptimised on the EVM) ----
FOLDABLE_ROUNDS = [["add", ["mul", "callvalue", 0], 7], ["sub", 3, -4], ["add", 3, 4], ["and", 15, 7], ["add", 2, 1],
                   ["sub", 5, 5], ["mul", "callvalue", 0], ["div", W - 1, 2**253], ["add", 4, 1], ["shr", 1, 12]]


def opt_loop_probe(differ):
    """`(repeat i start R 5 body)` with R an expression the IR optimiser folds to a literal (above the bound, equal to it,
    below it, zero): the run-time bound check / zero-round skip must survive the fold.  Returns the differences found by
    c15_evm.Differ (unoptimised vs optimizer.optimize vs + optimize_assembly); each one is a failing input of C15."""
    found = []
    for r in FOLDABLE_ROUNDS:
        for start in (0, 2):
            prog = ["seq", ["mstore", 0, 77],
                    ["repeat", "i", start, r, 5, ["mstore", ["mul", 32, ["and", "i", 7]], ["add", "i", 1]]],
                    ["return", 0, 256]]
            d = differ.run_program(prog, [(0,), (3,)])
            if d is not None:
                found.append(d)
    return found
