"""Compiler configurations (DESIGN I.7) and a compile helper."""
import itertools

DISABLE_FLAGS = [
    "disable_inlining", "disable_cse", "disable_sccp", "disable_load_elimination",
    "disable_dead_store_elimination", "disable_algebraic_optimization", "disable_branch_optimization",
    "disable_assert_elimination", "disable_mem2var", "disable_simplify_cfg", "disable_remove_unused_variables",
]
# disable_simplify_cfg makes every pipeline fail pass-order validation with CompilerPanic on the
# unchanged tree (asserted by tests/unit/compiler/venom/test_pass_ordering.py); it is a C20 known
# finding and is excluded from behavioural comparisons because nothing compiles under it.
UNUSABLE_FLAGS = ["disable_simplify_cfg"]
USABLE_FLAGS = [f for f in DISABLE_FLAGS if f not in UNUSABLE_FLAGS]
EVMS = ["london", "paris", "shanghai", "cancun", "prague"]
LEVELS = ["none", "gas", "codesize", "O3"]


class Config:
    def __init__(self, venom, level, evm="prague", debug=False, flags=(), inline_threshold=None, decimals=True):
        self.venom, self.level, self.evm, self.debug = venom, level, evm, debug
        self.flags, self.inline_threshold, self.decimals = tuple(flags), inline_threshold, decimals

    @property
    def name(self):
        s = f"{'venom' if self.venom else 'legacy'}-{self.level}-{self.evm}"
        if self.debug:
            s += "-debug"
        for f in self.flags:
            s += "-" + f.replace("disable_", "no_")
        if self.inline_threshold is not None:
            s += f"-inl{self.inline_threshold}"
        return s

    def settings(self):
        from vyper.compiler.settings import OptimizationLevel, Settings, VenomOptimizationFlags
        lvl = {"none": OptimizationLevel.NONE, "gas": OptimizationLevel.GAS, "codesize": OptimizationLevel.CODESIZE,
               "O3": OptimizationLevel.O3, "O2": OptimizationLevel.O2, "Os": OptimizationLevel.Os}[self.level]
        vf = None
        if self.venom and (self.flags or self.inline_threshold is not None):
            vf = VenomOptimizationFlags(level=lvl, inline_threshold=self.inline_threshold,
                                        **{f: True for f in self.flags})
        return Settings(optimize=lvl, evm_version=self.evm, experimental_codegen=self.venom,
                        debug=self.debug or None, enable_decimals=self.decimals, venom_flags=vf)

    def __repr__(self):
        return self.name


def quick_configs():
    """Covering set: both pipelines at every level, every evm once, debug once, each disable flag once."""
    c = [
        Config(False, "gas", "prague"), Config(True, "gas", "prague"),
        Config(False, "none", "cancun"), Config(True, "none", "shanghai"),
        Config(False, "codesize", "london"), Config(True, "codesize", "cancun"),
        Config(True, "O3", "prague"), Config(False, "gas", "paris", debug=True),
        Config(True, "gas", "paris", flags=USABLE_FLAGS[:5]),
        Config(True, "O3", "london", flags=USABLE_FLAGS[5:], inline_threshold=0),
    ]
    return c


def core_configs():
    """The four most different pipelines (cheap checks)."""
    return [Config(False, "gas", "prague"), Config(True, "gas", "prague"),
            Config(False, "none", "london"), Config(True, "O3", "cancun")]


def thorough_configs():
    out = []
    for venom, lvl, evm in itertools.product([False, True], LEVELS, EVMS):
        out.append(Config(venom, lvl, evm))
    for f in USABLE_FLAGS:
        out.append(Config(True, "gas", "prague", flags=[f]))
        out.append(Config(True, "O3", "cancun", flags=[f]))
    for f, g in itertools.combinations(USABLE_FLAGS, 2):
        out.append(Config(True, "gas", "prague", flags=[f, g]))
    out.append(Config(False, "gas", "prague", debug=True))
    out.append(Config(True, "gas", "prague", debug=True))
    for t in (0, 5, 100):
        out.append(Config(True, "gas", "prague", inline_threshold=t))
    return out


def configs(tier):
    return thorough_configs() if tier == "thorough" else quick_configs()


def compile_src(src, cfg, formats=("bytecode", "bytecode_runtime", "abi", "layout"), **kw):
    """Compile with the real compiler (current /repo tree).  Raises whatever the compiler raises."""
    from vyper.compiler import compile_code
    return compile_code(src, output_formats=list(formats), settings=cfg.settings(), **kw)
