"""C04 O-tie exporter (session 3): the BUFFER ARITHMETIC of the legacy `slice()` generator.

Runs the real `Slice.build_IR` (vyper/builtins/functions.py) on symbolic operands with a REAL `Context` and a real
`MemoryAllocator`, for the whole family  source location x source type (Bytes / String of many capacities, bytes32) x
length (symbolic / literal), and records for every member

  * buf, alloc    : the address returned by `context.new_internal_variable` and the number of bytes the allocator handed out
                    (growth of `next_mem`), i.e. the region [buf, buf+alloc) that belongs to the builtin,
  * dst_maxlen    : the bound of the returned type,
  * the copy      : `repeat ix 0 COUNT BOUND (mstore ADDR (sload|tload ..))`  -> CLoop COUNT BOUND ADDR   (word-addressed sources)
                    `mcopy|calldatacopy|dloadbytes DST SRC LEN`, identity staticcall -> CBulk DST LEN
                    `mstore DST (load SRC)`                                       -> CWord DST
    with the enclosing `with` bindings that the exported expression depends on kept as LWith (no substitution),
  * the final `mstore PTR length` and the returned pointer.

Fails closed (ExportError) on any other shape.  coq/C04/SliceBufModel.v states what the copy writes and proves that it
stays inside [buf, buf+alloc) when the observed record is an instance of the template and passes `alloc_ok`."""
from .c03_export import ExportError, lir_term, settings_ctx

BULK_OPS = {"mcopy": (0, 2), "calldatacopy": (0, 2), "dloadbytes": (0, 2), "codecopy": (0, 2)}
ADHOC_LITS = [1, 5, 31, 32, 33, 37, 63, 64, 65, 100, 1000]


def _free_vars(node, bound=frozenset()):
    v, args = node.value, node.args
    if v == "with":
        return _free_vars(args[1], bound) | _free_vars(args[2], bound | {args[0].value})
    if isinstance(v, str) and not args:
        return set() if (v in bound or v in ("pass", "gas")) else {v}
    out = set()
    for a in args:
        out |= _free_vars(a, bound)
    return out


def _wrap(bindings, node):
    """LWith nest of the bindings `node` depends on (innermost last), in their original order"""
    from vyper.codegen.ir_node import IRnode
    need = _free_vars(node)
    keep = []
    for name, val in reversed(bindings):
        if name in need:
            keep.append((name, val))
            need = (need - {name}) | _free_vars(val)
    t = lir_term(node)
    for name, val in keep:
        t = f'(LWith "{name}" {lir_term(val)} {t})'
    return t


def _rename(node, old, new):
    from vyper.codegen.ir_node import IRnode
    if node.value == old and not node.args:
        return IRnode.from_list(new)
    if not node.args:
        return node
    return IRnode.from_list([node.value] + [_rename(a, old, new) for a in node.args])


def _copy_record(node):
    """-> coq `cpy` term for the copy statement emitted by copy_bytes"""
    bindings = []
    while node.value == "with":
        if len(node.args) != 3 or node.args[0].args or not isinstance(node.args[0].value, str):
            raise ExportError(f"slice copy: bad with {node!r}")
        bindings.append((node.args[0].value, node.args[1]))
        node = node.args[2]
    v, a = node.value, node.args
    if v == "repeat" and len(a) == 5:
        ix, lo, count, bound, body = a
        if lo.value != 0 or lo.args or not isinstance(bound.value, int) or bound.args or ix.args:
            raise ExportError(f"slice copy: unexpected repeat header {node!r}")
        if body.value != "mstore" or len(body.args) != 2 or body.args[1].value not in ("sload", "tload", "mload", "calldataload", "dload", "iload"):
            raise ExportError(f"slice copy: loop body is not `mstore addr (load ..)`: {body!r}")
        if ix.value in _free_vars(count):
            raise ExportError("slice copy: loop count depends on the loop index")
        addr = _rename(body.args[0], ix.value, "ix")
        if any(n == "ix" for n, _ in bindings):
            raise ExportError("slice copy: a binding is called ix")
        return f"(CLoop {_wrap(bindings, count)} {hex(bound.value)} {_wrap(bindings, addr)})"
    if v in BULK_OPS and len(a) == 3:
        return f"(CBulk {_wrap(bindings, a[0])} {_wrap(bindings, a[2])})"
    if v == "assert" and len(a) == 1 and a[0].value == "staticcall" and len(a[0].args) == 6 and a[0].args[1].value == 4:
        sc = a[0].args        # gas, 4 (identity), src, len, dst, len
        if lir_term(sc[3]) != lir_term(sc[5]):
            raise ExportError("slice copy: identity call with different in/out sizes")
        return f"(CBulk {_wrap(bindings, sc[4])} {_wrap(bindings, sc[5])})"
    if v == "extcodecopy" and len(a) == 4:
        return f"(CBulk {_wrap(bindings, a[1])} {_wrap(bindings, a[3])})"
    if v == "mstore" and len(a) == 2 and a[1].value in ("mload", "calldataload", "dload", "iload", "sload", "tload"):
        return f"(CWord {_wrap(bindings, a[0])})"
    if v == "seq" and not a:
        return "CNone"
    raise ExportError(f"slice copy: statement outside the modelled shapes: {node!r}")


CAPS = [1, 5, 31, 32, 33, 40, 63, 64, 65, 95, 96, 97, 100, 1000]
LITS = [1, 5, 31, 32, 33, 63, 64, 65, 96, 97]


def slice_buffer_records():
    """-> list of (coq record, description)"""
    from vyper.builtins.functions import Slice
    from vyper.codegen.context import Context
    from vyper.codegen.ir_node import IRnode
    from vyper.codegen.memory_allocator import MemoryAllocator
    from vyper.evm import address_space as A
    from vyper.semantics.types import BytesT, IntegerT, StringT
    from vyper.semantics.types.shortcuts import BYTES32_T
    U = IntegerT(False, 256)
    out = []
    types_ = [BytesT(n) for n in CAPS] + [StringT(n) for n in (5, 33, 64, 100)] + [BYTES32_T]
    with settings_ctx():
        for loc in (A.MEMORY, A.STORAGE, A.TRANSIENT, A.CALLDATA, A.DATA, A.IMMUTABLES):
            for T in types_:
                cap = 32 if T == BYTES32_T else T.maxlen
                for L in [None] + [x for x in LITS if x <= cap] + ([cap] if cap not in LITS else []):
                    alloc = MemoryAllocator()
                    cx = Context(module_ctx=None, memory_allocator=alloc)
                    m0 = alloc.next_mem
                    src = IRnode.from_list("arr", typ=T, location=loc)
                    ln = IRnode.from_list("length", typ=U) if L is None else IRnode.from_list(L, typ=U)
                    r = IRnode.from_list(Slice.build_IR.__wrapped__(Slice(), None, [src, IRnode.from_list("start", typ=U), ln], {}, cx))
                    desc = f"{loc.name}:{T}:len={L}"
                    if len(cx.vars) != 1:
                        raise ExportError(f"slice {desc}: expected exactly one internal variable, got {len(cx.vars)}")
                    rec = next(iter(cx.vars.values()))
                    buf, size = rec.pos, alloc.next_mem - m0
                    if not isinstance(buf, int) or buf != m0 or alloc.deallocated_mem:
                        raise ExportError(f"slice {desc}: unexpected allocation {buf!r}")
                    if r.value != "seq" or len(r.args) != 4:
                        raise ExportError(f"slice {desc}: not `seq check copy set-length ptr`: {r!r}")
                    chk, cp, setlen, ret = r.args
                    if chk.value != "with" or chk.args[0].value != "end":
                        raise ExportError(f"slice {desc}: first statement is not the bounds check")
                    if setlen.value != "mstore" or len(setlen.args) != 2 or not isinstance(setlen.args[0].value, int) or setlen.args[0].args \
                            or lir_term(setlen.args[1]) != lir_term(ln):
                        raise ExportError(f"slice {desc}: third statement is not `mstore <ptr> length`")
                    if not isinstance(ret.value, int) or ret.args:
                        raise ExportError(f"slice {desc}: result is not a literal pointer")
                    dm = r.typ.maxlen
                    word = "true" if loc.word_addressable else "false"
                    cpy = _copy_record(cp)
                    # python mirror of SliceBufModel.alloc_ok, used only to DIRECT the search when the Coq statement breaks
                    if cpy.startswith("(CLoop"):
                        b = cp
                        while b.value == "with":
                            b = b.args[2]
                        need = 32 * b.args[3].value + 32
                    elif cpy.startswith("(CBulk"):
                        need = 32 + dm
                    else:
                        need = 64
                    info = {"loc": loc.name, "typ": "String" if isinstance(T, StringT) else ("bytes32" if T == BYTES32_T else "Bytes"),
                            "cap": cap, "len": L, "alloc": size, "needed": need, "dst_maxlen": dm}
                    out.append((f"(mkS {word} {hex(buf)} {hex(size)} {hex(dm)} {lir_term(ln)} {cpy} "
                                f"{hex(setlen.args[0].value)} {hex(ret.value)})", desc, info))
        # ---- ad hoc slices: msg.data / self.code / <address>.code (length is always a literal)
        from vyper.builtins.functions import _build_adhoc_slice_node
        for sub in ("~calldata", "~selfcode", ["~extcode", "addr"]):
            for L in ADHOC_LITS:
                alloc = MemoryAllocator()
                cx = Context(module_ctx=None, memory_allocator=alloc)
                m0 = alloc.next_mem
                ln = IRnode.from_list(L, typ=U)
                r = IRnode.from_list(_build_adhoc_slice_node(IRnode.from_list(sub), IRnode.from_list("start", typ=U), ln, cx))
                desc = f"adhoc:{sub if isinstance(sub, str) else sub[0]}:len={L}"
                if r.value == "with" and r.args[0].value == "_extcode_address":
                    r2 = r.args[2]
                else:
                    r2 = r
                if len(cx.vars) != 1 or r2.value != "seq" or len(r2.args) != 4:
                    raise ExportError(f"slice {desc}: unexpected shape {r!r}")
                rec = next(iter(cx.vars.values()))
                buf, size = rec.pos, alloc.next_mem - m0
                chk, setlen, cp, ret = r2.args
                if not isinstance(buf, int) or buf != m0 or chk.value != "with" or chk.args[0].value != "end":
                    raise ExportError(f"slice {desc}: unexpected allocation / first statement")
                if setlen.value != "mstore" or len(setlen.args) != 2 or not isinstance(setlen.args[0].value, int) or setlen.args[0].args \
                        or lir_term(setlen.args[1]) != lir_term(ln) or not isinstance(ret.value, int) or ret.args:
                    raise ExportError(f"slice {desc}: no `mstore <ptr> length` / literal result pointer")
                cpy = _copy_record(cp)
                if not cpy.startswith("(CBulk"):
                    raise ExportError(f"slice {desc}: copy is not a bulk copy")
                dm = r.typ.maxlen
                info = {"loc": desc, "typ": "adhoc", "cap": None, "len": L, "alloc": size, "needed": 32 + dm, "dst_maxlen": dm}
                out.append((f"(mkS false {hex(buf)} {hex(size)} {hex(dm)} {lir_term(ln)} {cpy} {hex(setlen.args[0].value)} {hex(ret.value)})",
                            desc, info))
    return out


def gen_slice_buf():
    rows = slice_buffer_records()
    seen = {}
    for t, d, _ in rows:
        seen.setdefault(t, []).append(d)
    lines = ["(* GENERATED by tools/vlib/c04_slicebuf.py from vyper/builtins/functions.py Slice.build_IR + vyper/codegen/core.py copy_bytes",
             "   (real Context + MemoryAllocator) -- do not edit *)",
             "From Coq Require Import ZArith List String.", "From Verif Require Import C03.LIR C04.SliceBufModel.",
             "Import ListNotations.", "Open Scope Z_scope.", "Open Scope string_scope.", "",
             "Definition slice_copy_observed : list sobs := ["]
    lines.append(";\n".join("  " + t for t in seen))
    lines.append("].")
    short = [i for _, _, i in rows if i["alloc"] < i["needed"]]
    return "\n".join(lines) + "\n", {"family_size": len(rows), "distinct_shapes": len(seen), "under_allocated": short}
