"""C04 canaries, part 4: nested call frames that survive inlining.

Generated contracts have a chain of internal functions  f0 -> f1 -> .. -> fd  (depth 2..4); every fk is called from at
least two sites (so the venom inliner keeps it), holds one or two local memory objects (uint256[N], sometimes a
DynArray or a memory-passed array argument) that are filled BEFORE the nested calls and read back AFTER them with
run-time indices; the leaf only writes its own array.  Frame sizes are drawn so that deeper frames are often larger than
the frames in between (a gap below a live-across object is where a buggy allocator would put an outer object).
Oracle (model-free): the external result equals a python model of the source -- i.e. a write to an element of one frame's
array changes no object of a suspended frame."""
import warnings

SIZES = [1, 2, 3, 5, 8, 13]


class Frame:
    def __init__(self, rnd, k, depth, shape):
        self.k = k
        self.leaf = k == depth
        if shape == "growing":
            self.n = SIZES[min(len(SIZES) - 1, max(0, k - 1 + rnd.randrange(2)))] if not self.leaf else rnd.choice([8, 13])
        elif shape == "dip":      # small frames between an outer object and a large leaf
            self.n = rnd.choice([8, 13]) if self.leaf else rnd.choice([1, 2])
        else:
            self.n = rnd.choice(SIZES)
        self.c = rnd.randrange(1, 200)
        self.dyn = (not self.leaf) and rnd.random() < 0.3          # an additional DynArray local, live across the calls
        self.dn = rnd.randint(1, 4)
        self.arg = (k >= 1) and rnd.random() < 0.3                  # a memory-passed array argument, read after the calls
        self.an = rnd.randint(1, 3)
        self.first = rnd.random() < 0.5                             # read the arrays also between the two nested calls

    def sig(self):
        return "x: uint256, k: uint256" + (f", p: uint256[{self.an}]" if self.arg else "")


class Chain:
    def __init__(self, rnd, idx):
        self.depth = rnd.randint(2, 4)
        shape = ["dip", "growing", "random"][idx % 3]
        self.shape = shape
        self.frames = [Frame(rnd, k, self.depth, shape) for k in range(self.depth + 1)]

    def source(self):
        L = ["acc: uint256"]
        for f in reversed(self.frames[1:]):
            L.append(f"@internal\ndef f{f.k}({f.sig()}):")
            L += self.body(f, "    ")
        f0 = self.frames[0]
        L.append("@external\ndef a(x: uint256, k: uint256) -> uint256:")
        L.append("    self.acc = 0")
        L += self.body(f0, "    ")
        L.append("    return self.acc")
        # a second entry point that calls every internal function once more (call sites >= 2 for all of them)
        L.append("@external\ndef a2(x: uint256, k: uint256) -> uint256:")
        L.append("    self.acc = 0")
        for f in self.frames[1:]:
            L.append("    " + self.call(f, "x", "k"))
        L.append("    return self.acc")
        return "\n".join(L) + "\n"

    def call(self, g, x, k):
        arg = ""
        if g.arg:
            arg = ", [" + ", ".join(f"{x} + {700 + j}" for j in range(g.an)) + "]"
        return f"self.f{g.k}({x}, {k}{arg})"

    def body(self, f, ind):
        n = f.n
        L = [f"{ind}w: uint256[{n}] = empty(uint256[{n}])", f"{ind}for i: uint256 in range({n}):", f"{ind}    w[i] = x + {f.c} * (i + 1)"]
        if f.dyn:
            L += [f"{ind}d: DynArray[uint256, {f.dn}] = []", f"{ind}for i: uint256 in range({f.dn}):", f"{ind}    d.append(k + {f.c} + i)"]
        if f.leaf:
            L.append(f"{ind}self.acc += w[x % {n}] + 3 * w[k % {n}]")
            return L
        g = self.frames[f.k + 1]
        L.append(ind + self.call(g, "x", "k"))
        if f.first:
            L.append(f"{ind}self.acc += 5 * w[k % {n}]")
        L.append(ind + self.call(g, "k", "x + 1"))
        L.append(f"{ind}self.acc += w[x % {n}] + 7 * w[k % {n}]")
        if f.dyn:
            L.append(f"{ind}self.acc += 11 * d[x % {f.dn}] + len(d)")
        if f.arg:
            L.append(f"{ind}self.acc += 13 * p[k % {f.an}]")
        return L

    # ---- python model
    def run_frame(self, st, f, x, k, p=None):
        n = f.n
        w = [x + f.c * (i + 1) for i in range(n)]
        d = [k + f.c + i for i in range(f.dn)] if f.dyn else None
        if f.leaf:
            st["acc"] += w[x % n] + 3 * w[k % n]
            return
        g = self.frames[f.k + 1]
        self.run_frame(st, g, x, k, [x + 700 + j for j in range(g.an)] if g.arg else None)
        if f.first:
            st["acc"] += 5 * w[k % n]
        self.run_frame(st, g, k, x + 1, [k + 700 + j for j in range(g.an)] if g.arg else None)
        st["acc"] += w[x % n] + 7 * w[k % n]
        if f.dyn:
            st["acc"] += 11 * d[x % f.dn] + len(d)
        if f.arg:
            st["acc"] += 13 * p[k % f.an]

    def model(self, fn, x, k):
        st = {"acc": 0}
        if fn == "a":
            self.run_frame(st, self.frames[0], x, k)
        else:
            for f in self.frames[1:]:
                self.run_frame(st, f, x, k, [x + 700 + j for j in range(f.an)] if f.arg else None)
        return st["acc"]


def run(ctx, cfgs, n):
    from vyper.utils import method_id
    from .configs import compile_src
    from .evm import Chain as EVMChain
    rnd = ctx.rng("frames")
    chains = [Chain(rnd, i) for i in range(n)]
    n_cases = 0
    stats = {"contracts": n, "depths": [c.depth for c in chains], "shapes": [c.shape for c in chains], "calls": 0, "configs": [c.name for c in cfgs]}
    for c in chains:
        src = c.source()
        inputs = [(0, 0), (1, 0), (0, 1)] + [(rnd.randrange(50), rnd.randrange(50)) for _ in range(3)]
        for cfg in cfgs:
            with warnings.catch_warnings():
                warnings.simplefilter("ignore")
                out = compile_src(src, cfg, formats=("bytecode",))
            ch = EVMChain(cfg.evm)
            addr = ch.deploy(bytes.fromhex(out["bytecode"][2:]))
            if addr is None:
                ctx.violation("correspondence-broken", "nested-frames canary contract failed to deploy", {"source": src, "config": cfg.name})
                return n_cases, True
            for fn in ("a", "a2"):
                for x, k in inputs:
                    want = c.model(fn, x, k)
                    r = ch.call(addr, method_id(f"{fn}(uint256,uint256)") + x.to_bytes(32, "big") + k.to_bytes(32, "big"))
                    n_cases += 1
                    if not r.ok or int.from_bytes(r.out, "big") != want:
                        ctx.violation("failing-input", "nested call frames: a memory object of a suspended frame does not hold its value after the "
                                      "nested calls return (result differs from the source-level model)",
                                      {"source": src, "config": cfg.name, "call": f"{fn}({x}, {k})", "expected": want,
                                       "observed": int.from_bytes(r.out, "big") if r.ok else "revert",
                                       "frame_sizes": [f.n for f in c.frames]})
                        return n_cases, True
    stats["calls"] = n_cases
    ctx.corr["nested_frames"] = stats
    return n_cases, False
