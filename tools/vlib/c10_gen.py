"""C10/C04 helper: py2coq subclass that turns small classes with integer state into
state-passing functions (T-tie for SimpleAllocator.allocate_slot, storage_size_in_words, ceil32)."""
import ast
import copy
import importlib
import inspect

from .py2coq import E, Translator, Ty, Unsupported, cname, zlit


class MethodTranslator(Translator):
    """Adds: (1) IfExp whose branches contain partial operations (-> monadic if);
    (2) `add_method(module, Class, method, state=[...], ro=[...])`: the method body is rewritten
    so that `self.<f>` becomes a parameter `<f>`; mutated fields (`state`) are returned in a
    tuple after the method's own return value."""

    def expr(self, node, env):
        if isinstance(node, ast.IfExp):
            c = self.as_b(self.expr(node.test, env))
            a = self.expr(node.body, env)
            b = self.expr(node.orelse, env)
            if a.pre or b.pre:
                if a.ty != b.ty:
                    a, b = self.as_z(a), self.as_z(b)
                v = self.fresh()
                m = (f"(if {c.text} then ({self.wrap_pre(a.pre, 'Ok ' + a.text)}) "
                     f"else ({self.wrap_pre(b.pre, 'Ok ' + b.text)}))")
                return E(v, a.ty, c.pre + [(v, m)])
        return super().expr(node, env)

    def add_method(self, module_name, cls_name, meth_name, state=(), ro=(), drop_args=(), as_name=None,
                   is_property=False):
        mod = importlib.import_module(module_name)
        tree = ast.parse(inspect.getsource(mod))
        cls = [n for n in tree.body if isinstance(n, ast.ClassDef) and n.name == cls_name]
        if not cls:
            raise Unsupported(f"class {cls_name} not found in {module_name}")
        meths = [n for n in cls[0].body if isinstance(n, ast.FunctionDef) and n.name == meth_name]
        if not meths:
            raise Unsupported(f"method {cls_name}.{meth_name} not found")
        fdef = copy.deepcopy(meths[0])
        fields = list(state) + list(ro)
        seen = set()

        class RW(ast.NodeTransformer):
            def visit_Attribute(s, node):
                if isinstance(node.value, ast.Name) and node.value.id == "self":
                    if node.attr not in fields:
                        raise Unsupported(f"{cls_name}.{meth_name} uses self.{node.attr} (not declared as state/ro)")
                    if isinstance(node.ctx, ast.Store) and node.attr not in state:
                        raise Unsupported(f"{cls_name}.{meth_name} assigns read-only self.{node.attr}")
                    seen.add(node.attr)
                    return ast.copy_location(ast.Name(id="self_" + node.attr, ctx=node.ctx), node)
                return s.generic_visit(node)

            def visit_Return(s, node):
                s.generic_visit(node)
                if not state:
                    return node
                if node.value is None:
                    raise Unsupported("bare return in state-passing method")
                elts = [node.value] + [ast.Name(id="self_" + f, ctx=ast.Load()) for f in state]
                return ast.copy_location(ast.Return(value=ast.Tuple(elts=elts, ctx=ast.Load())), node)

            def visit_Raise(s, node):
                return ast.copy_location(ast.Raise(exc=None, cause=None), node)

        fdef = RW().visit(fdef)
        args = [a for a in fdef.args.args if a.arg != "self" and a.arg not in drop_args]
        # fields are renamed self_<f> so that they cannot collide with the method's own arguments / locals
        fdef.args.args = [ast.arg(arg="self_" + f, annotation=ast.Name(id="int", ctx=ast.Load())) for f in fields] + args
        fdef.args.defaults = []
        fdef.decorator_list = []
        name = as_name or meth_name
        fdef.name = name
        ast.fix_missing_locations(fdef)
        self.funcs[name] = fdef
        self.func_mod[name] = mod
        self.translate_function(name)
        return name


def gen_alloc_model():
    """GenAlloc.v: allocate_slot / words_of_bytes / ceil32 + the live allocator limits."""
    tr = MethodTranslator("vyper.semantics.analysis.data_positions", extra_modules=["vyper.utils"])
    tr.add_method("vyper.semantics.analysis.data_positions", "SimpleAllocator", "allocate_slot",
                  state=["_slot"], ro=["_max_slot"], drop_args=["node"])
    tr.add_method("vyper.semantics.types.base", "VyperType", "storage_size_in_words",
                  ro=["memory_bytes_required"], as_name="words_of_bytes")
    tr.translate_function("ceil32")
    from vyper.semantics.analysis import data_positions as dp
    al = dp.Allocators()
    consts = {
        "MAX_STORAGE": al.storage_allocator._max_slot,
        "MAX_TRANSIENT": al.transient_storage_allocator._max_slot,
        "MAX_CODE": al.immutables_allocator._max_slot,
        "START_STORAGE": al.storage_allocator._starting_slot,
        "START_TRANSIENT": al.transient_storage_allocator._starting_slot,
        "START_CODE": al.immutables_allocator._starting_slot,
        "KEY_SIZE": dp.NONREENTRANT_KEY_SIZE,
    }
    for k, v in consts.items():
        if not isinstance(v, int) or isinstance(v, bool):
            raise Unsupported(f"allocator constant {k} is not an int: {v!r}")
    text = tr.render()
    text += "\n" + "\n".join(f"Definition {k} : Z := {hex(v) if v >= 0 else '(' + str(v) + ')'}." for k, v in consts.items()) + "\n"
    return text, consts


class LoopTranslator(MethodTranslator):
    """Adds `for <target> in <list>:` with `continue` / `break` (-> PyInt-style fold with a break flag, helper
    [for_res] emitted in the header) and `add_loop_of_method`: the first for-loop of a method, wrapped as a function of
    the variables it reads, returning the loop-carried variables."""

    FOR_RES = (
        "Fixpoint for_res {A S : Type} (l : list A) (s : S) (f : S -> A -> res (S * bool)) : res S :=\n"
        "  match l with\n  | [] => Ok s\n  | a :: l' => r <- f s a ;; if snd r then Ok (fst r) else for_res l' (fst r) f\n  end."
    )

    def __init__(self, *a, **kw):
        super().__init__(*a, **kw)
        self._loops = []

    def contains_return(self, stmts):
        if super().contains_return(stmts):
            return True
        if self._loops:
            for s in stmts:
                for n in ast.walk(s):
                    if isinstance(n, (ast.Continue, ast.Break)):
                        return True
        return False

    def _state_tuple(self):
        carried = self._loops[-1]
        return carried[0] if len(carried) == 1 else "(" + ", ".join(cname(v) for v in carried) + ")"

    def block(self, stmts, env, ret_ty_box, tail=None):
        if stmts:
            s, rest = stmts[0], stmts[1:]
            if isinstance(s, (ast.Continue, ast.Break)):
                if not self._loops:
                    raise Unsupported("continue/break outside a translated loop")
                return f"Ok ({self._state_tuple()}, {'true' if isinstance(s, ast.Break) else 'false'})"
            if isinstance(s, ast.Return) and self._loops:
                raise Unsupported("return inside a translated loop")
            if isinstance(s, ast.For):
                it = self.expr(s.iter, env)
                if it.pre or not (isinstance(it.ty, tuple) and it.ty[0] == "list"):
                    raise Unsupported("for-loop over a non-list")
                elem_ty = it.ty[1]
                if s.orelse:
                    raise Unsupported("for-else")
                carried = [v for v in self.assigned_vars(s.body) if v in env]
                if not carried:
                    raise Unsupported("for-loop without loop-carried variables")
                env_b = dict(env)
                if isinstance(s.target, ast.Name):
                    env_b[s.target.id] = elem_ty
                    epat = cname(s.target.id)
                elif isinstance(s.target, ast.Tuple) and all(isinstance(t, ast.Name) for t in s.target.elts) and \
                        isinstance(elem_ty, tuple) and elem_ty[0] == "tuple" and len(elem_ty[1]) == len(s.target.elts):
                    for t, ty in zip(s.target.elts, elem_ty[1]):
                        env_b[t.id] = ty
                    epat = "'(" + ", ".join(cname(t.id) for t in s.target.elts) + ")"
                else:
                    raise Unsupported("for-loop target")
                self._loops.append(carried)
                try:
                    body = self.block(list(s.body), env_b, {"ty": None}, lambda e_: f"Ok ({self._state_tuple()}, false)")
                finally:
                    self._loops.pop()
                spat = cname(carried[0]) if len(carried) == 1 else "'(" + ", ".join(cname(v) for v in carried) + ")"
                stup = cname(carried[0]) if len(carried) == 1 else "(" + ", ".join(cname(v) for v in carried) + ")"
                fun = f"(fun st__ el__ => let {spat} := st__ in let {epat} := el__ in\n{body})"
                cont = self.block(rest, env, ret_ty_box, tail)
                bind = spat if len(carried) > 1 else cname(carried[0])
                return f"{bind} <- for_res {it.text} {stup} {fun} ;;\n{cont}"
        return super().block(stmts, env, ret_ty_box, tail)

    def add_loop_of_method(self, module_name, cls_name, meth_name, params, as_name):
        """params: [(name, Ty)] the variables the loop reads; returns the loop-carried variables"""
        mod = importlib.import_module(module_name)
        tree = ast.parse(inspect.getsource(mod))
        cls = [n for n in tree.body if isinstance(n, ast.ClassDef) and n.name == cls_name]
        meths = [n for n in cls[0].body if isinstance(n, ast.FunctionDef) and n.name == meth_name] if cls else []
        if not meths:
            raise Unsupported(f"method {cls_name}.{meth_name} not found")
        loops = [n for n in ast.walk(meths[0]) if isinstance(n, ast.For)]
        if len(loops) != 1:
            raise Unsupported(f"{cls_name}.{meth_name}: expected exactly one for-loop, found {len(loops)}")
        loop = copy.deepcopy(loops[0])
        names = {p for p, _ in params}
        used = {n.id for n in ast.walk(loop) if isinstance(n, ast.Name)}
        assigned = set(self.assigned_vars([loop]))
        tgt = {n.id for n in ast.walk(loop.target) if isinstance(n, ast.Name)}
        free = used - assigned - tgt - names
        if free:
            raise Unsupported(f"{cls_name}.{meth_name}: loop reads {sorted(free)} which are not declared parameters")
        carried = [v for v in self.assigned_vars(loop.body) if v in names]
        ret = ast.Return(value=ast.Name(id=carried[0], ctx=ast.Load()) if len(carried) == 1 else
                         ast.Tuple(elts=[ast.Name(id=v, ctx=ast.Load()) for v in carried], ctx=ast.Load()))
        fdef = ast.FunctionDef(name=as_name, args=ast.arguments(posonlyargs=[], args=[ast.arg(arg=p) for p, _ in params], kwonlyargs=[],
                                                                 kw_defaults=[], defaults=[]), body=[loop, ret], decorator_list=[])
        ast.fix_missing_locations(fdef)
        for p, ty in params:
            self.arg_types_hint[(as_name, p)] = ty
        self.funcs[as_name] = fdef
        self.func_mod[as_name] = mod
        self.translate_function(as_name)
        return carried
