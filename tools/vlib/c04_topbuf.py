"""C04 canaries, session 3: every builtin that materialises a byte string in an INTERNAL buffer, executed as the TOPMOST
allocation of an internal function whose callers keep locals alive across the call.

Why: the legacy allocator is a stack (temporaries are released at the end of the statement), so the only live memory above a
builtin's internal buffer is the frame of the CALLER.  A store past the end of such a buffer leaves the builtin's own
result intact and is invisible to every result-only oracle; it shows only in the caller's variables.

For every spec k the generated contract has
    f_k(args) -> RT            `return <builtin expression>`          (the buffer is the last allocation of f_k's frame)
    m_k(x, args)               internal; x is its FIRST argument, i.e. the word directly above f_k's frame; returns (x, f_k(..), x)
    p_k(c, v, args)            external; locals: the memory copy of the byte-string argument v (the first variable of the frame),
                               x = c, r = f_k(..), y = ~c; returns (x, r, y, v) -- every local of the caller is compared
    q_k(c, v, args)            external; returns m_k(c, args)
(f_k has two call sites, so it survives inlining.)  The sources live in storage / transient storage / memory / calldata
(msg.data) / code; bounds are deliberately not multiples of 32 and run-time starts have start % 32 in {0, 1, 7, 31}.
Oracle: the source-level meaning: (c, <python model of the builtin>, ~c / c), or revert when the model says out of bounds."""
import warnings

M256 = 2**256 - 1
CHUNK = 8


class Spec:
    def __init__(self, name, decls, setup, iargs, expr, rt, abi_rt, model, calls, cap, vtyp="Bytes", needs_transient=False, pre=""):
        self.name, self.decls, self.setup, self.iargs, self.expr, self.rt, self.abi_rt = name, decls, setup, iargs, expr, rt, abi_rt
        self.model, self.calls, self.cap, self.vtyp, self.needs_transient, self.pre = model, calls, cap, vtyp, needs_transient, pre

    def source(self, k):
        ia = ", ".join(f"{n}: {t}" for n, t, _ in self.iargs)
        names = ", ".join(n for n, _, _ in self.iargs)
        ea = ", ".join([f"c: uint256", f"v: {self.vtyp}[{self.cap}]"] + [f"{n}: {t}" for n, t, _ in self.iargs if n != "b"])
        # the memory operand `b` (if any) is the calldata blob v itself
        call_names = ", ".join(("v" if n == "b" else n) for n, _, _ in self.iargs)
        setup = "".join(f"    {s}\n" for s in self.setup)
        pre = "".join(f"    {s}\n" for s in self.pre.splitlines())
        m_args = ", ".join(["x: uint256"] + [f"{n}: {t}" for n, t, _ in self.iargs])
        return f"""
{self.decls.format(k=k)}
@internal
def f_{k}({ia}) -> {self.rt}:
{pre.format(k=k)}    return {self.expr.format(k=k)}

@internal
def m_{k}({m_args}) -> (uint256, {self.rt}, uint256):
    r: {self.rt} = self.f_{k}({names})
    return x, r, x

@external
def p_{k}({ea}) -> (uint256, {self.rt}, uint256, {self.vtyp}[{self.cap}]):
{setup.format(k=k)}    x: uint256 = c
    r: {self.rt} = self.f_{k}({call_names})
    y: uint256 = ~c
    return x, r, y, v

@external
def q_{k}({ea}) -> (uint256, {self.rt}, uint256):
{setup.format(k=k)}    return self.m_{k}({', '.join(['c'] + ([call_names] if call_names else []))})
"""

    def sig(self, fn, k):
        tys = ["uint256", "bytes" if self.vtyp == "Bytes" else "string"] + [a for n, _, a in self.iargs if n != "b"]
        return f"{fn}_{k}({','.join(tys)})", tys


def _starts(maxstart):
    """run-time starts with start % 32 in {0, 1, 7, 31}, boundary biased"""
    out = []
    for base in (0, 32, 64):
        for r in (0, 1, 7, 31):
            if base + r <= maxstart:
                out.append(base + r)
    return out


def build_specs(rnd, transient, n_extra, directed=()):
    """-> list of Spec.  A fixed core (every source location x aligned / unaligned bound) + n_extra random slice shapes."""
    specs = []

    def slice_model(start_lit, len_lit, srclen_of=None):
        def model(v, a):
            s = a.get("s", start_lit)
            ln = a.get("l", len_lit)
            src = v if srclen_of is None else srclen_of(v)
            if s + ln > len(src):
                return None
            return src[s:s + ln]
        return model

    def add_slice(loc, cap, len_lit, start_lit=None, typ="Bytes"):
        """slice(<loc source of capacity cap>, start, length); literal or run-time start / length"""
        T = f"{typ}[{cap}]"
        iargs = []
        if loc == "memory":
            iargs.append(("b", T, "bytes" if typ == "Bytes" else "string"))
        if start_lit is None:
            iargs.append(("s", "uint256", "uint256"))
        if len_lit is None:
            iargs.append(("l", "uint256", "uint256"))
        src = {"storage": "self.s_{k}", "transient": "self.t_{k}", "memory": "b"}[loc]
        decl = {"storage": f"s_{{k}}: {T}", "transient": f"t_{{k}}: transient({T})", "memory": ""}[loc]
        setup = {"storage": ["self.s_{k} = v"], "transient": ["self.t_{k} = v"], "memory": []}[loc]
        dm = cap if len_lit is None else len_lit
        expr = f"slice({src}, {'s' if start_lit is None else start_lit}, {'l' if len_lit is None else len_lit})"
        calls = []
        for vlen in sorted({cap, max(cap - 1, 0), dm}):
            if len_lit is not None and vlen < len_lit:
                continue
            starts = [start_lit] if start_lit is not None else _starts(vlen)
            for s in starts:
                if len_lit is None:
                    lens = sorted({0, 1, vlen - s, max(vlen - s - 1, 0), min(vlen - s, 33), vlen - s + 1})
                else:
                    lens = [len_lit]
                for ln in lens:
                    a = {}
                    if start_lit is None:
                        a["s"] = s
                    if len_lit is None:
                        a["l"] = ln
                    calls.append((vlen, a))
            if start_lit is None:      # one start that is out of bounds for this length
                a = {"s": vlen + 1}
                if len_lit is None:
                    a["l"] = 1
                calls.append((vlen, a))
        specs.append(Spec(f"slice:{loc}:{T}:start={start_lit}:len={len_lit}", decl, setup, iargs, expr, f"{typ}[{dm}]",
                          "bytes" if typ == "Bytes" else "string", slice_model(start_lit, len_lit), calls, cap, vtyp=typ,
                          needs_transient=(loc == "transient")))

    word_locs = ["storage"] + (["transient"] if transient else [])
    # ---- directed: family members for which the Coq buffer-size statement failed (see c04_slicebuf / SliceBufModel.alloc_ok)
    for (loc, typ, cap, ll) in directed:
        if loc in word_locs + ["memory"] and typ in ("Bytes", "String"):
            add_slice(loc, cap, ll, typ=typ)
    # ---- core: word-addressed sources, output bound not a multiple of 32 / a multiple of 32, literal and run-time length
    for loc in word_locs:
        add_slice(loc, 96, 33)
        add_slice(loc, 96, 64)
        add_slice(loc, 40, None)
        add_slice(loc, 64, None)
    add_slice("storage", 96, 1)
    add_slice("storage", 70, 40, typ="String")
    add_slice("storage", 65, 5, start_lit=31)
    add_slice("memory", 96, 33)
    add_slice("memory", 40, None)
    add_slice("memory", 70, 40, typ="String")
    for _ in range(n_extra):
        loc = rnd.choice(word_locs + ["memory"])
        cap = rnd.choice([33, 34, 63, 65, 95, 97, 100, 127, 129])
        ll = rnd.choice([None, rnd.randint(1, cap), rnd.choice([31, 33, 63, 65])])
        if ll is not None and ll > cap:
            ll = cap
        add_slice(loc, cap, ll, typ=rnd.choice(["Bytes", "Bytes", "String"]))

    # ---- bytes32 sources (storage word / memory value)
    def b32_model(v, a):
        w_ = (v + b"\0" * 32)[:32]
        if a["s"] + a["l"] > 32:
            return None
        return w_[a["s"]:a["s"] + a["l"]]
    b32_calls = [(32, {"s": s, "l": ln}) for s in (0, 1, 7, 31) for ln in (0, 1, 32 - s, 33 - s)]
    specs.append(Spec("slice:storage:bytes32", "w_{k}: bytes32", ["self.w_{k} = convert(slice(v, 0, 32), bytes32)"],
                      [("s", "uint256", "uint256"), ("l", "uint256", "uint256")], "slice(self.w_{k}, s, l)", "Bytes[32]", "bytes",
                      b32_model, b32_calls, 32))
    specs.append(Spec("slice:memory:bytes32", "", [], [("b", "Bytes[32]", "bytes"), ("s", "uint256", "uint256"), ("l", "uint256", "uint256")],
                      "slice(convert(b, bytes32), s, l)", "Bytes[32]", "bytes", b32_model, b32_calls, 32))

    # ---- msg.data / self.code (ad hoc slices: the buffer is filled by calldatacopy / codecopy)
    def msgdata_model(v, a, calldata=None):
        s = a["s"]
        if s + 37 > len(calldata):
            return None
        return calldata[s:s + 37]
    sp = Spec("slice:msg.data", "", [], [("s", "uint256", "uint256")], "slice(msg.data, s, 37)", "Bytes[37]", "bytes", msgdata_model,
              [(40, {"s": s}) for s in (0, 1, 4, 7, 31, 36, 100, 10**6)], 40)
    sp.wants_calldata = True
    specs.append(sp)

    # ---- concat
    def cat_model(f):
        return lambda v, a: f(v, a)
    specs.append(Spec("concat:storage+memory", "s_{k}: Bytes[40]", ["self.s_{k} = v"], [("b", "Bytes[40]", "bytes")], "concat(self.s_{k}, b)",
                      "Bytes[80]", "bytes", lambda v, a: v + v, [(n, {}) for n in (0, 1, 31, 32, 33, 39, 40)], 40))
    specs.append(Spec("concat:bytes31+storage+bytes1", "s_{k}: Bytes[33]", ["self.s_{k} = v"], [("h", "bytes31", "bytes31"), ("t", "bytes1", "bytes1")],
                      "concat(h, self.s_{k}, t)", "Bytes[65]", "bytes", lambda v, a: a["h"] + v + a["t"],
                      [(n, {"h": bytes(range(1, 32)), "t": b"\x7f"}) for n in (0, 1, 31, 32, 33)], 33))
    if transient:
        specs.append(Spec("concat:transient+transient", "t_{k}: transient(Bytes[33])", ["self.t_{k} = v"], [], "concat(self.t_{k}, self.t_{k})",
                          "Bytes[66]", "bytes", lambda v, a: v + v, [(n, {}) for n in (0, 1, 31, 32, 33)], 33, needs_transient=True))
    # ---- whole-value copies out of storage / transient storage
    specs.append(Spec("copy:storage", "s_{k}: Bytes[33]", ["self.s_{k} = v"], [], "self.s_{k}", "Bytes[33]", "bytes", lambda v, a: v,
                      [(n, {}) for n in (0, 1, 32, 33)], 33))
    specs.append(Spec("copy:storage:String", "s_{k}: String[65]", ["self.s_{k} = v"], [], "self.s_{k}", "String[65]", "string", lambda v, a: v,
                      [(n, {}) for n in (0, 31, 64, 65)], 65, vtyp="String"))
    # ---- abi_encode / uint2str / convert / hashes of a storage byte string / extract32
    from eth_abi import encode as _enc
    specs.append(Spec("abi_encode:storage", "s_{k}: Bytes[33]", ["self.s_{k} = v"], [("n", "uint256", "uint256")], "abi_encode(n, self.s_{k})",
                      "Bytes[160]", "bytes", lambda v, a: _enc(["uint256", "bytes"], [a["n"], v]),
                      [(n, {"n": x}) for n in (0, 1, 32, 33) for x in (0, M256)], 33))
    specs.append(Spec("abi_encode:memory", "", [], [("b", "Bytes[33]", "bytes"), ("n", "uint256", "uint256")], "abi_encode(b, n, b)",
                      "Bytes[288]", "bytes", lambda v, a: _enc(["bytes", "uint256", "bytes"], [v, a["n"], v]),
                      [(n, {"n": x}) for n in (0, 1, 32, 33) for x in (7, M256)], 33))
    specs.append(Spec("uint2str", "", [], [("n", "uint256", "uint256")], "uint2str(n)", "String[78]", "string",
                      lambda v, a: str(a["n"]).encode(), [(1, {"n": x}) for x in (0, 9, 10, 10**31, 10**32, 2**255, M256)], 1))
    specs.append(Spec("convert:Bytes->String", "s_{k}: Bytes[33]", ["self.s_{k} = v"], [], "convert(self.s_{k}, String[33])", "String[33]", "string",
                      lambda v, a: v, [(n, {}) for n in (0, 1, 32, 33)], 33))
    from vyper.utils import keccak256 as _k
    import hashlib
    specs.append(Spec("keccak256:slice:storage", "s_{k}: Bytes[70]", ["self.s_{k} = v"], [("s", "uint256", "uint256")],
                      "keccak256(slice(self.s_{k}, s, 33))", "bytes32", "bytes32", lambda v, a: _k(v[a["s"]:a["s"] + 33]) if a["s"] + 33 <= len(v) else None,
                      [(n, {"s": s}) for n in (70, 40) for s in (0, 1, 7, 31, 37, 38)], 70))
    specs.append(Spec("sha256:storage", "s_{k}: Bytes[33]", ["self.s_{k} = v"], [], "sha256(self.s_{k})", "bytes32", "bytes32",
                      lambda v, a: hashlib.sha256(v).digest(), [(n, {}) for n in (0, 1, 32, 33)], 33))
    specs.append(Spec("extract32:storage", "s_{k}: Bytes[65]", ["self.s_{k} = v"], [("s", "uint256", "uint256")], "extract32(self.s_{k}, s)",
                      "bytes32", "bytes32", lambda v, a: v[a["s"]:a["s"] + 32] if a["s"] + 32 <= len(v) else None,
                      [(n, {"s": s}) for n in (65, 40) for s in (0, 1, 7, 31, 33, 34)], 65))
    return specs


def run(ctx, cfgs, n_extra, directed=()):
    from eth_abi import decode, encode
    from vyper.utils import method_id
    from .configs import compile_src
    from .evm import Chain
    rnd = ctx.rng("topbuf")
    n_cases = 0
    stats = {"configs": [c.name for c in cfgs], "specs": 0, "calls": 0, "reverts": 0, "unaligned_word_source_calls": 0}
    seed_state = rnd.getstate()
    for cfg in cfgs:
        transient = cfg.evm in ("cancun", "prague")
        rnd.setstate(seed_state)           # the same shapes under every configuration
        specs = build_specs(rnd, transient, n_extra, directed)
        stats["specs"] = max(stats["specs"], len(specs))
        allk = list(enumerate(specs))
        for c0 in range(0, len(allk), CHUNK):      # several small contracts: stay far below the EIP-170 code size limit
            chunk = allk[c0:c0 + CHUNK]
            src = "".join(sp.source(k) for k, sp in chunk)
            with warnings.catch_warnings():
                warnings.simplefilter("ignore")
                try:
                    out = compile_src(src, cfg, formats=("bytecode",))
                except Exception as e:
                    ctx.violation("correspondence-broken", f"compiler raised {type(e).__name__} on the top-of-frame buffer canary contract",
                                  {"source": src, "config": cfg.name, "error": str(e)[:400]})
                    return n_cases, True
            ch = Chain(cfg.evm)
            addr = ch.deploy(bytes.fromhex(out["bytecode"][2:]))
            if addr is None:
                ctx.violation("correspondence-broken", "top-of-frame buffer canary contract failed to deploy", {"source": src, "config": cfg.name})
                return n_cases, True
            for k, sp in chunk:
                for (vlen, a) in sp.calls:
                    v = bytes(rnd.randrange(0x21, 0x7f) for _ in range(vlen))
                    c = rnd.randrange(2**255, 2**256) | int.from_bytes(b"\x81" * 32, "big")   # every byte of c and of ~c... c has no zero byte
                    for fn in ("p", "q"):
                        sig, tys = sp.sig(fn, k)
                        vals = [c, v if sp.vtyp == "Bytes" else v.decode()] + [a[n] for n, _, _ in sp.iargs if n != "b"]
                        data = method_id(sig) + encode(tys, vals)
                        if getattr(sp, "wants_calldata", False):
                            want = sp.model(v, a, calldata=data)
                        else:
                            want = sp.model(v, a)
                        r = ch.call(addr, data)
                        n_cases += 1
                        if want is None:
                            stats["reverts"] += 1
                            got, exp = ("revert" if not r.ok else "ok"), "revert"
                        else:
                            exp = (c, want if sp.abi_rt != "string" else want.decode(), (c ^ M256) if fn == "p" else c)
                            rts = ["uint256", sp.abi_rt, "uint256"]
                            if fn == "p":
                                exp += (vals[1],)
                                rts.append(tys[1])
                            try:
                                got = decode(rts, r.out) if r.ok else "revert"
                            except Exception as e:   # undecodable output: report as observed
                                got = f"undecodable output 0x{r.out.hex()}"
                        if "s" in a and a["s"] % 32 and ("storage" in sp.name or "transient" in sp.name):
                            stats["unaligned_word_source_calls"] += 1
                        if got != exp:
                            what = "a live local of the CALLER changed across the call (store outside the builtin's own buffer)"
                            if isinstance(got, tuple) and isinstance(exp, tuple) and got[1] != exp[1]:
                                what = "wrong result"
                            elif got == "revert":
                                what = "the call reverts although the source-level model returns (a caller local was corrupted, or a spurious bounds failure)"
                            elif exp == "revert":
                                what = "out-of-bounds access did not revert"
                            ctx.violation("failing-input", f"builtin buffer at the top of an internal function's frame ({sp.name}): {what}",
                                          {"source": sp.source(k), "config": cfg.name, "call": f"{sig} with {vals!r}", "calldata": "0x" + data.hex(),
                                           "expected": str(exp)[:600], "observed": str(got)[:600],
                                           "replay": "compile `source` with the named configuration, deploy, send `calldata`; the first and third "
                                                     "returned words are locals of the caller that are never assigned after initialisation"},
                                          key=None)
                            return n_cases, True
    stats["calls"] = n_cases
    ctx.corr["top_of_frame_buffers"] = stats
    return n_cases, False
