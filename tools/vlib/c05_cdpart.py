"""C05 extension part: CALLDATA-source and CODE-source decoding (external-function arguments, keyword-argument entry
points, constructor arguments) of BOTH code generators.
  * O-tie: real generators run over the shape family (c05_cdtpl.py) -> GenTplDecCL/V.v; TieDecC.v proves by vm_compute
    that the emitted IR is exactly the output of the Coq template generators TplDecC.v.
  * the OBSERVED templates are executed inside Coq (CxEval.v: EVM calldataload/calldatacopy/codecopy semantics) on
    canonical and corrupted regions and compared with the acceptance model dec_follow and with the implementation-level
    models cdec Legacy / cdec Venom (CdImpl.v), for which PropsC05Cd.v proves cdec = dec_follow.
  * Search after a broken tie / disagreement: an EVM differential on echo contracts (calldata) and constructor
    arguments for the offending shapes; a reproduced difference is reported as failing-input."""
import time

from . import c05_cdglue as G
from . import c05_cdtpl as X
from . import c06_abi as A
from . import coqrun
from .common import COQ

STATIC = ["C05/TplDecC.v", "C05/TplGlueC.v", "C05/CxEval.v", "C05/CdRun.v", "C05/CdImpl.v", "C05/CdImplProofs.v", "C05/PropsC05Cd.v"]
# every file the static ones import outside Base (content keys for .vo reuse)
DEPS = ["C06/Abi.v", "C06/AbiLemmas.v", "C06/Roundtrip.v", "C06/ZeroPad.v", "C06/Sexp.v", "C06/TplEncL.v", "C06/TplEncV.v",
        "C06/SxEval.v", "C06/Widen.v", "C06/VxEval.v", "C05/Dec.v", "C05/DecProofs.v", "C05/ReadsInside.v", "C05/DecImpl.v",
        "C05/DecImplProofs.v", "C05/TplDecL.v", "C05/TplDecV.v", "C05/Harness.v"]
GEN = ["C05/GenTplDecCL.v", "C05/GenTplDecCV.v", "C05/GenGlueC.v"]
TIES = ["C05/TieDecC.v", "C05/TieGlueC.v"]
INITCODE_LEN = 37


def _drop_keys(files):
    for f in files:
        k = COQ / (f[:-2] + ".vo.key")
        if k.exists():
            k.unlink()


def build(ctx):
    """returns dict(static=build record, gen=..., tie=..., err=str|None)"""
    out = {"static": {"ok": False}, "gen": {"ok": False}, "tie": {"ok": False}, "err": None}
    out["static"] = ctx.coq_build_cached(STATIC, deps=DEPS)
    if not out["static"]["ok"] and "inconsistent assumptions" in str(out["static"].get("out")):
        # a dependency's .vo was rebuilt (not byte-identically) after ours: drop the reuse keys and compile again
        _drop_keys(STATIC + TIES + GEN)
        out["static"] = ctx.coq_build_cached(STATIC, deps=DEPS)
    try:
        X.write_gen(COQ)
        _, skipped = G.write_gen(COQ)
        ctx.corr["cd_glue_shapes_skipped"] = len(skipped)
    except Exception as e:  # noqa
        out["err"] = f"calldata/code template export failed: {type(e).__name__}: {e}"[:500]
        return out
    out["gen"] = ctx.coq_build_parallel(GEN, deps=["C06/Abi.v", "C06/Sexp.v"], workers=3)
    if not out["gen"]["ok"]:
        out["err"] = "observed calldata/code template tables do not compile: " + str(out["gen"].get("out"))[-300:]
        return out
    if out["static"]["ok"] or "TplDecC" not in str(out["static"].get("file", "")):
        out["tie"] = ctx.coq_build_parallel(TIES, deps=DEPS + ["C05/TplDecC.v", "C05/TplGlueC.v"] + GEN, workers=2)
        if not out["tie"]["ok"] and "inconsistent assumptions" in str(out["tie"].get("out")):
            _drop_keys(TIES + GEN)
            ctx.coq_build_parallel(GEN, deps=["C06/Abi.v", "C06/Sexp.v"], workers=3)
            out["tie"] = ctx.coq_build_parallel(TIES, deps=DEPS + ["C05/TplDecC.v", "C05/TplGlueC.v"] + GEN, workers=2)
    return out


def corruption_terms(r, base):
    nw = len(base) // 32
    cs = ["CX []", f"CT {len(base) - 1}", f"CT {max(len(base) - 32, 0)}", "CX (repeat 255 32)"]
    for wi in sorted(set([0, nw - 1, r.randrange(nw)])):
        w = int.from_bytes(base[32 * wi:32 * wi + 32], "big")
        for x in (len(base), len(base) - 32, 2 ** 256 - 4, 2 ** 256 - 32, 2 ** 256 - 64, (w + 1) % 2 ** 256, 2 ** 256 - 1, 2 ** 255):
            cs.append(f"CW {wi} {hex(x % 2 ** 256)}")
    return cs


def run_templates(ctx):
    """observed templates executed in Coq vs dec_follow and vs cdec (both implementations).  Returns #executions."""
    fam = X.family()
    r = ctx.rng("cdtpl")
    quick = ctx.tier == "quick"
    step = 4 if quick else 1
    sub = 8 if quick else 4       # shapes run at the second argument position (tables hold every 4th shape)
    off = r.randrange(step)
    exprs, meta = [], []
    for i, t in enumerate(fam):
        if i % step != off and i % sub:
            continue
        v = A.gen_value(r, t, r.choice(["max", "rand"]))
        ct, cv = A.coq_ty(t), A.coq_val(t, v)
        for loc, code in (("cd", "false"), ("code", "true")):
            for k in X.POS:
                full = (loc, k) in (("cd", 0), ("code", 1))
                if (full and i % step != off) or (not full and i % sub):
                    continue
                idx = i if full else i // 4
                tt = ("tuple", (("uint", 256),) * k + (t,))
                base = A.py_enc(tt, [7] * k + [v], 0)
                cs = corruption_terms(r, base)
                if quick:
                    cs = cs[:4] + r.sample(cs[4:], min(len(cs) - 4, 12))
                cl = "[" + "; ".join(cs) + "]"
                pre = "[112; 160; 130; 49]" if loc == "cd" else f"(repeat 91 {INITCODE_LEN})"
                b0 = 4 if loc == "cd" else INITCODE_LEN
                tup = f"(TTuple [{'TUInt 256; ' * k}{ct}])"
                vv = f"(VList [{'VInt 7; ' * k}{cv}])"
                exprs.append(
                    f"let t := {ct} in let base := enc {tup} {vv} in "
                    f"let tl := snd (nth {idx} obs_cd_l_{loc}{k} (TBool, SI 0)) in "
                    f"let tv := snd (nth {idx} obs_cd_v_{loc}{k} (TBool, SI 0)) in "
                    f"flat_map (fun c => let d := ({pre} ++ apply_c c base)%list in "
                    f"[run_cd_l tl {code} {k} t d {b0}; run_cd_v tv {code} {k} t d {b0}; "
                    f"cd_agree {code} {k} t d {b0}]) {cl}")
                meta.append((t, v, loc, k, cs))
    imp = ("From Verif Require Import C06.Abi C06.Sexp C05.Dec C05.Harness C05.CxEval C05.CdRun C05.CdImpl "
           "C05.GenTplDecCL C05.GenTplDecCV.\n")
    outs = coqrun.eval_zlists(imp, exprs, "c05cdrun", shard=6, timeout=900)
    n = 0
    bad_shapes = []
    for (t, v, loc, k, cs), o in zip(meta, outs):
        n += len(o)
        if len(o) != 3 * len(cs) or any(x != 1 for x in o):
            who = ("legacy template vs dec_follow", "venom template vs dec_follow", "cdec Legacy/Venom vs dec_follow")
            bad = [(who[j % 3], cs[j // 3], x) for j, x in enumerate(o) if x != 1]
            bad_shapes.append({"shape": A.eth_ty(t), "py_type": t, "coq_type": A.coq_ty(t), "value": repr(v), "source": loc,
                               "arg_index": k, "disagreements": bad[:8], "n_outputs": len(o)})
    ctx.corr["cd_template_family"] = len(fam)
    ctx.corr["cd_template_executions_in_coq"] = n
    return n, bad_shapes


# ---------------------------------------------------------------- Search: EVM differential for offending shapes
def search_evm(ctx, shapes, budget=6):
    """Compile echo contracts for the given python type shapes under the core configurations and run canonical +
    corrupted calldata / constructor arguments against the Coq acceptance model (accept_call / accept_ctor).
    Returns a list of failing-input details (possibly empty)."""
    from . import c05_harness as H
    from . import configs as C
    from .c06_exits import selector, sig
    found = []
    r = ctx.rng("cdsearch")
    imports = "From Verif Require Import C06.Abi C05.Dec C05.Harness.\n"
    for t in shapes[:budget]:
        try:
            v = A.gen_value(r, t, "max")
            tt = ("tuple", (t,))
            base = A.py_enc(tt, [v], 0)
            cs = [("CX []", lambda b: b)] + H.corruptions(r, base, True, cap=40)
            ct = f"(TTuple [{A.coq_ty(t)}])"
            zs = "[" + ";".join(str(x) for x in selector(sig("echo", [t]))) + "]"
            cl = "[" + "; ".join(c for c, _ in cs) + "]"
            pre = f"let t := {ct} in let base := enc t (VList [{A.coq_val(t, v)}]) in "
            exp = A.coq_strings([pre + f"join (expect_call t {zs} base {cl})"], "c05cds", imports=imports, shard=1)[0].split(",")
            src, _ = H.build_source(t)
            kwt = ("tuple", (t, ("uint", 8), ("bytes", 4)))
            kwbase = A.py_enc(kwt, [v, 200, bytes([170, 187, 204])], 0)
            kwsel = [selector(sig("kw", [t])), selector(sig("kw", [t, ("uint", 8)])), selector(sig("kw", [t, ("uint", 8), ("bytes", 4)]))]
            for cfg in C.core_configs():
                ins = [("call", fn(base)) for _, fn in cs] + [("kw2", kwbase)]
                res = H.run_job((src, cfg, [base], [ins], kwsel, t, [b""]))
                if res.get("skipped"):
                    continue
                rec = {"source": src, "config": cfg.name, "type": A.eth_ty(t), "value": repr(v), "corruption": "CX []",
                       "model": "=", "canonical_base": base.hex(), "ctor_base": base.hex(), "kwsel": [x.hex() for x in kwsel]}
                if res.get("error") == "deploy with canonical constructor args failed":
                    found.append(dict(rec, entry="ctorx", input_hex=base.hex(), observed_ok=False, observed_out="",
                                      text="canonical encoding of an in-type value was rejected (constructor arguments: deploy reverts)"))
                    break
                if res.get("error"):
                    continue
                obs = res["obs"][0]
                okk, outk = obs[len(cs)]
                if okk is not True or outk != kwbase:
                    found.append(dict(rec, entry="kw2", input_hex=kwbase.hex(), observed_ok=okk, canonical_base=kwbase.hex(),
                                      observed_out=outk.hex() if isinstance(outk, bytes) else outk,
                                      text="kw(x,b,c) entry point: canonical encoding rejected or echoed value differs from the decoding of the bytes"))
                    break
                for (cterm, fn), e, (ok, out) in zip(cs, exp, obs[:len(cs)]):
                    okm = e != "R"
                    if ok is True and not okm:
                        txt = "accepted an input that has no in-type decoding (model rejects)"
                    elif ok is False and cterm == "CX []":
                        txt = "canonical encoding of an in-type value was rejected"
                    elif ok is True and e == "=" and out != base:
                        txt = "accepted, but the observed (echoed) value differs from the decoding of the bytes"
                    else:
                        continue
                    found.append({"source": src, "config": cfg.name, "entry": "call", "type": A.eth_ty(t), "value": repr(v),
                                  "corruption": cterm, "input_hex": fn(base).hex(), "model": e[:200], "observed_ok": ok,
                                  "observed_out": out.hex() if isinstance(out, bytes) else out, "canonical_base": base.hex(),
                                  "ctor_base": base.hex(), "kwsel": [], "text": txt})
                    break
                if found:
                    break
        except Exception as e:  # noqa
            ctx.log(f"cd search: {A.eth_ty(t)}: {type(e).__name__}: {e}"[:300])
        if found:
            break
    return found


KW_SRC = """
@external
def f(a: uint256, b: uint256[3] = [7, 8, 9], c: int128[2][2] = [[1, 2], [3, 4]], d: uint8 = 5) -> (uint256, uint256[3], int128[2][2], uint8):
    return a, b, c, d
"""


def kw_entry_sizes(ctx):
    """The calldatasize check of cd_entry, per keyword-argument entry point, for MULTI-WORD static keyword arguments
    (the echo harness of the base check only has one-word and dynamic ones): every entry point f(prefix) must accept the
    canonical encoding of its prefix tuple (echo = prefix values + defaults) and must revert on every input shorter than
    4 + static_size(prefix tuple) -- by cd_sound_lv an accepted input has at least that size.  EVM, core configurations.
    Returns (#executions, list of failing-input details)."""
    from . import configs as C
    from .evm import Chain
    heads = [1, 3, 4, 1]                     # words of a, b, c, d
    canon = [11, 21, 22, 23, 31, 32, 33, 34, 41]
    dflt = [0, 7, 8, 9, 1, 2, 3, 4, 5]
    sigs = ["f(uint256)", "f(uint256,uint256[3])", "f(uint256,uint256[3],int128[2][2])", "f(uint256,uint256[3],int128[2][2],uint8)"]
    n, bad = 0, []
    for cfg in C.core_configs():
        try:
            c = C.compile_src(KW_SRC, cfg, formats=("bytecode", "method_identifiers"))
        except Exception as e:  # noqa
            ctx.log(f"kw entry sizes: {cfg.name}: {type(e).__name__}: {e}"[:200])
            continue
        ch = Chain(cfg.evm)
        addr = ch.deploy(bytes.fromhex(c["bytecode"][2:]))
        for j, sg in enumerate(sigs):
            sel = int(c["method_identifiers"][sg], 16).to_bytes(4, "big")
            nw = sum(heads[:j + 1])
            args = b"".join(x.to_bytes(32, "big") for x in canon[:nw])
            want = b"".join(x.to_bytes(32, "big") for x in canon[:nw] + dflt[nw:])
            cuts = sorted({k for w in range(nw + 1) for k in (32 * w - 1, 32 * w, 32 * w + 1) if 0 <= k < len(args)})
            for cut in [None] + cuts:
                data = args if cut is None else args[:cut]
                r = ch.call(addr, sel + data)
                n += 1
                if cut is None and (not r.ok or r.out != want):
                    txt = "canonical encoding of in-type keyword arguments was rejected or decoded to other values"
                elif cut is not None and r.ok:
                    txt = (f"calldata of {4 + len(data)} bytes accepted by an entry point whose static argument tuple needs "
                           f"{4 + 32 * nw}: the program observed values that are not the decoding of the bytes")
                else:
                    continue
                if len(bad) < 3:
                    bad.append({"source": KW_SRC, "config": cfg.name, "entry": sg, "how": "call selector(entry) ++ input",
                                "input_hex": data.hex(), "observed_ok": r.ok, "observed_out": r.out.hex(),
                                "model": "R" if cut is not None else "=", "expected_out": want.hex() if cut is None else None,
                                "text": txt})
    return n, bad


IFACE_SRC = """
interface Foo:
    def bar(): nonpayable

struct S:
    a: uint256
    b: Foo

@external
def f0(x: Foo) -> address:
    return x.address

@external
def f1(x: DynArray[Foo, 3]) -> address:
    return x[0].address

@external
def f2(x: Foo[2]) -> address:
    return x[1].address

@external
def f3(x: S) -> address:
    return x.b.address

@external
def f4(b: Bytes[100]) -> address:
    y: Foo = abi_decode(b, Foo)
    return y.address

@external
def f5(x: Foo, k: Foo = empty(Foo)) -> address:
    return k.address
"""


def iface_checks(ctx):
    """Interface-typed values (ABI address, 160 bits): (a) the needs_clamp model vs BOTH real copies on the real argument
    types the front end builds for the glue family (interfaces at top level, in arrays, DynArrays, structs); (b) EVM, core
    configurations: arguments of interface type at top level / in a DynArray / static array / struct / keyword argument
    and abi_decode(b, Foo): the canonical word is accepted and observed, a word with any bit >= 160 set must revert
    (dec_follow TAddress rejects it).  Returns (#evaluations, nc mismatches, failing inputs)."""
    from . import configs as C
    from .evm import Chain
    rows = G.real_needs_clamp()
    model = coqrun.eval_zlists("From Verif Require Import C06.Abi C05.Dec.\n", ["[" + "; ".join(
        f"(if needs_clamp {A.coq_ty(G.strip(t))} then 1 else 0)" for t, _, _, _ in rows) + "]"], "c05ifnc", shard=1)[0]
    mism = [{"type": A.eth_ty(G.strip(t)), "vyper_type": vs, "model": m, "legacy": l, "venom": v}
            for (t, vs, l, v), m in zip(rows, model) if (l, v) != (m, m)]
    n = 2 * len(rows)
    a = 0x00112233445566778899AABBCCDDEEFF00112233
    w = lambda x: x.to_bytes(32, "big")   # noqa
    dirty = [a | (1 << 160), a | (1 << 255), 1 << 160, (1 << 256) - 1]
    shapes = {
        "f0(address)": lambda x: w(x),
        "f1(address[])": lambda x: w(32) + w(1) + w(x),
        "f2(address[2])": lambda x: w(a) + w(x),
        "f3((uint256,address))": lambda x: w(7) + w(x),
        "f4(bytes)": lambda x: w(32) + w(32) + w(x),
        "f5(address,address)": lambda x: w(a) + w(x),
    }
    bad = []
    for cfg in C.core_configs():
        try:
            c = C.compile_src(IFACE_SRC, cfg, formats=("bytecode", "method_identifiers"))
        except Exception as e:  # noqa
            ctx.log(f"iface check: {cfg.name}: {type(e).__name__}: {e}"[:200])
            continue
        ch = Chain(cfg.evm)
        addr = ch.deploy(bytes.fromhex(c["bytecode"][2:]))
        for sg, mk in shapes.items():
            sel = int(c["method_identifiers"][sg], 16).to_bytes(4, "big")
            for x in [a] + dirty:
                r = ch.call(addr, sel + mk(x))
                n += 1
                if x == a and (not r.ok or r.out != w(a)):
                    txt = "canonical interface-typed (address) value rejected or observed differently"
                elif x != a and r.ok:
                    txt = ("a word with bits >= 160 set was accepted as an interface-typed (address) value: the observed "
                           "value is outside its declared type")
                else:
                    continue
                if len(bad) < 3:
                    bad.append({"source": IFACE_SRC, "config": cfg.name, "entry": sg, "how": "call selector(entry) ++ input",
                                "input_hex": mk(x).hex(), "observed_ok": r.ok, "observed_out": r.out.hex(),
                                "model": "=" if x == a else "R", "text": txt})
    return n, mism, bad


def run(ctx):
    """the whole part; returns the number of evaluations"""
    t0 = time.time()
    b = build(ctx)
    ctx.log(f"calldata/code part: build + tie {time.time() - t0:.1f}s")
    n, bad = 0, []
    can_run = b["err"] is None and (b["static"]["ok"] or "Props" in str(b["static"].get("file", "")) or
                                    "Proofs" in str(b["static"].get("file", "")))
    if can_run:
        t1 = time.time()
        n, bad = run_templates(ctx)
        ctx.log(f"calldata/code templates run in Coq: {n} verdicts in {time.time() - t1:.1f}s")
    diff = {}
    if b["err"] is None and not b["tie"]["ok"]:
        try:
            diff = X.differing_shapes()
            for k, v in G.differing_shapes().items():
                if v:
                    diff["obs_glue_" + k] = v
        except Exception as e:  # noqa
            diff = {"(could not localise)": [str(e)[:200]]}
    problems = bool(bad) or b["err"] is not None or not b["static"]["ok"] or not b["tie"]["ok"]
    found = []
    if problems:
        fam = X.family()
        names = {A.eth_ty(t): t for t in fam}
        shapes = [x["py_type"] for x in bad] + [names[s] for v in diff.values() for s in v if s in names]
        shapes = list(dict.fromkeys(shapes)) or [("darr", ("bytes", 5), 3), ("bytes", 5), ("uint", 8)]
        t1 = time.time()
        found = search_evm(ctx, shapes)
        ctx.log(f"calldata/code search on the EVM: {len(found)} failing inputs in {time.time() - t1:.1f}s")
        for d in found[:3]:
            ctx.violation("failing-input", d["entry"] + ": " + d.pop("text") + " (calldata/code-source decoder)", d)
    try:
        nk, kbad = kw_entry_sizes(ctx)
        n += nk
        ctx.corr["kw_entry_size_executions"] = nk
        for d in kbad:
            ctx.violation("failing-input", "kw entry point: " + d.pop("text"), d)
    except Exception as e:  # noqa
        ctx.violation("correspondence-broken", "keyword-argument entry size check could not run", {"error": f"{type(e).__name__}: {e}"[:400]})
    try:
        ni, mism, ibad = iface_checks(ctx)
        n += ni
        ctx.corr["iface_evaluations"] = ni
        for d in ibad:
            ctx.violation("failing-input", "interface-typed value: " + d.pop("text"), d)
        if mism:
            ctx.violation("correspondence-broken", "needs_clamp model differs from a real copy on a real front-end type "
                          "(theorem needs_clamp_complete no longer speaks about the code)",
                          {"mismatches": mism[:10], "search": "interface-typed arguments ran on the EVM" +
                           ("; failing input reported" if ibad else "; no failing input")})
    except Exception as e:  # noqa
        ctx.violation("correspondence-broken", "interface-typed value check could not run", {"error": f"{type(e).__name__}: {e}"[:400]})
    srch = "EVM differential on the offending shapes ran" + ("; failing input reported" if found else "; no failing input")
    if b["err"] is not None:
        ctx.violation("translator-rejected", b["err"], {"error": b["err"], "search": srch})
    if not b["static"]["ok"]:
        s = b["static"]
        ctx.violation("theorem-broken", f"{s.get('failed_lemma')} in {s.get('file')}",
                      {"theorem": s.get("failed_lemma"), "file": s.get("file"), "coq_output": (s.get("out") or "")[-1500:], "search": srch})
    if b["err"] is None and not b["tie"]["ok"]:
        ctx.violation("correspondence-broken",
                      f"{b['tie'].get('failed_lemma') or 'TieDecC/TieGlueC'}: emitted calldata/code-source decoder IR differs from the "
                      f"template / entry-glue model (TplDecC.v, TplGlueC.v) in {len(diff)} of 10 tables",
                      {"theorem": b["tie"].get("failed_lemma"), "differing": {k: v[:10] for k, v in diff.items()},
                       "replay": "tools/vlib/c05_cdtpl.py export_legacy / export_venom, c05_cdglue.py legacy_glue / venom_glue on the listed shapes", "search": srch})
    for x in bad[:3]:
        x = dict(x)
        x.pop("py_type")
        ctx.violation("correspondence-broken", "an OBSERVED calldata/code-source decoder template, executed in Coq, disagrees "
                      "with the acceptance model dec_follow (theorems cd_sound_* no longer speak about the emitted code)",
                      dict(x, search=srch))
    ctx.extra["cd_part_seconds"] = round(time.time() - t0, 1)
    ctx.trusted.append("coq/C05/CxEval.v: evaluator for the observed calldata/code decoder templates (EVM semantics of "
                       "calldataload / calldatacopy / codecopy as modelled there)")
    ctx.assumptions += ["cd_sound_lv / code_sound_lv / cd_impl_refines_model: byte region shorter than 2^64, argument types with "
                        "bound * element head < 2^64 (fits)",
                        "calldata/code decoder templates: tied syntactically (whole shape family, both generators, -O gas and "
                        "legacy -O codesize, cancun) and by execution in Coq; template generator = cdec is not proved"]
    return n


def prebuild(ctx):
    build(ctx)
