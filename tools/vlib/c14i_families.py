"""C14I: hand-written Venom IR families (text, through parse_venom) for FunctionInlinerPass and Mem2Var.

Every generator returns a list of {"name", "text", "inputs"}; `inputs` are calldata for the differential search
(only used when the validator rejects).  Instructions are written with their *internal* operand order (the order of
IRInstruction.operands) through T(), which prints the text form the parser expects."""


def T(op, outs=(), *ops):
    """text of one instruction from internal operand order"""
    ops = list(ops)
    if op == "invoke":
        ops = [ops[0]] + list(reversed(ops[1:]))
    elif op not in ("jmp", "jnz", "djmp", "phi", "dret", "retfmp"):
        ops = list(reversed(ops))
    lhs = (", ".join(outs) + " = ") if outs else ""
    if op == "assign":
        return f"    {lhs}{ops[0]}"
    return (f"    {lhs}{op} " + ", ".join(str(o) for o in ops)).rstrip()


def fn(name, blocks):
    out = [f"function {name} {{"]
    for lab, insts in blocks:
        out.append(f"{lab}:")
        out += insts
    out.append("}")
    return "\n".join(out)


def _inputs(rnd, nwords=3, n=4):
    res = []
    for k in range(n):
        words = [rnd.choice([0, 1, 2, 7, 2**255, 2**256 - 1, rnd.randrange(2**256), rnd.randrange(100)]) for _ in range(nwords)]
        if k == 0:
            words = [0] * nwords
        res.append({"data": "".join("%064x" % w for w in words), "value": 0, "sender": "0x" + "11" * 20})
    return res


def _main_tail(res_vars):
    """store every result under its own key, mix them asymmetrically and return the mix"""
    insts = []
    acc = None
    for i, v in enumerate(res_vars):
        insts.append(T("sstore", [], v, str(10 + i)))
        if acc is None:
            acc = v
        else:
            insts.append(T("mul", [f"%mx{i}"], acc, "31"))
            insts.append(T("add", [f"%acc{i}"], f"%mx{i}", v))
            acc = f"%acc{i}"
    if acc is None:
        acc = "7"
    insts += [T("sstore", [], acc, "1"), T("mstore", [], acc, "0"), T("return", [], "32", "0")]
    return insts


def fam_multi_ret(rnd):
    """callee with k params and several rets (each returning nret values) selected by a jnz chain"""
    k = rnd.randint(0, 4)
    nret = rnd.randint(0, 3)
    nsites = rnd.randint(2, 4)
    params = [f"%p{i}" for i in range(k)]
    blocks = []
    entry = [T("param", [p]) for p in params] + [T("param", ["%pc"])]
    cond = params[0] if params else "%pc"
    entry.append(T("jnz", [], cond, "@r0", "@c1" if nsites > 1 else "@r1"))
    blocks.append(("f_entry", entry))
    for j in range(1, nsites):
        last = j == nsites - 1
        c = [T(rnd.choice(["add", "mul", "xor", "sub"]), [f"%c{j}"], params[j % k] if params else str(j), str(rnd.randrange(5)))]
        c.append(T("jnz", [], f"%c{j}", f"@r{j}", f"@c{j + 1}" if not last else f"@r{j + 1}"))
        blocks.append((f"c{j}", c))
    for j in range(nsites + 1):
        body, vals = [], []
        for q in range(nret):
            src = rnd.choice(params + [str(rnd.randrange(1000))])
            body.append(T(rnd.choice(["add", "mul", "or"]), [f"%v{j}_{q}"], src, str(rnd.randrange(1, 50))))
            vals.append(f"%v{j}_{q}")
        rnd.shuffle(vals)
        body.append(T("ret", [], *vals, "%pc"))
        blocks.append((f"r{j}", body))
    outs = [f"%r{q}" for q in range(nret)]
    main = [T("calldataload", [f"%a{i}"], str(32 * i)) for i in range(max(k, 1))]
    main.append(T("invoke", outs, "@f", *[f"%a{i}" for i in range(k)]))
    main += _main_tail(outs + ["%a0"])
    return {"name": f"multi_ret(k={k},nret={nret},sites={nsites})", "text": fn("main", [("main", main)]) + "\n\n" + fn("f", blocks),
            "inputs": _inputs(rnd, max(k, 1))}


def fam_nested(rnd):
    """main -> f -> g (g has two call sites in f, or one), names reused across the three functions"""
    two = rnd.random() < 0.5
    g = [("g_entry", [T("param", ["%x"]), T("param", ["%pc"]), T("jnz", [], "%x", "@a", "@b")]),
         ("a", [T("add", ["%y"], "%x", str(rnd.randrange(1, 9))), T("ret", [], "%y", "%pc")]),
         ("b", [T("mul", ["%y"], "%x", "%x"), T("sload", ["%z"], "%y"), T("ret", [], "%z", "%pc")])]
    fb = [T("param", ["%x"]), T("param", ["%y"]), T("param", ["%pc"]), T("invoke", ["%u"], "@g", "%x")]
    if two:
        fb += [T("invoke", ["%w"], "@g", "%y"), T("add", ["%t"], "%u", "%w")]
    else:
        fb += [T("add", ["%t"], "%u", "%y")]
    fb += [T("ret", [], "%t", "%x", "%pc")]
    main = [T("calldataload", ["%x"], "0"), T("calldataload", ["%y"], "32"), T("invoke", ["%u", "%t"], "@f", "%x", "%y")]
    main += _main_tail(["%u", "%t", "%x"])
    return {"name": f"nested(two_sites={two})", "text": "\n\n".join([fn("main", [("main", main)]), fn("f", [("f_entry", fb)]), fn("g", g)]),
            "inputs": _inputs(rnd, 2)}


def fam_loop_phi(rnd):
    """callee with a loop and phis (also a phi whose predecessor is the callee's entry block); the call site itself sits in
    a loop of the caller whose header has phis, and the code after the call jumps back (so _fix_phi has work to do)"""
    step = rnd.randrange(1, 5)
    f = [("f_entry", [T("param", ["%n"]), T("param", ["%pc"]), T("assign", ["%i0"], "0"), T("assign", ["%s0"], str(rnd.randrange(9))),
                      T("jmp", [], "@head")]),
         ("head", [T("phi", ["%i"], "@f_entry", "%i0", "@body", "%i2"), T("phi", ["%s"], "@f_entry", "%s0", "@body", "%s2"),
                   T("lt", ["%c"], "%n", "%i"), T("jnz", [], "%c", "@body", "@exit")]),
         ("body", [T("add", ["%s2"], "%s", "%i"), T("add", ["%i2"], "%i", str(step)), T("jmp", [], "@head")]),
         ("exit", [T("ret", [], "%s", "%pc")])]
    in_loop = rnd.random() < 0.6
    if in_loop:
        main = [("main", [T("calldataload", ["%m"], "0"), T("and", ["%m1"], "%m", "7"), T("assign", ["%k0"], "0"), T("assign", ["%t0"], "0"),
                          T("jmp", [], "@loop")]),
                ("loop", [T("phi", ["%k"], "@main", "%k0", "@loop", "%k1"), T("phi", ["%t"], "@main", "%t0", "@loop", "%t1"),
                          T("invoke", ["%r"], "@f", "%k"), T("add", ["%t1"], "%t", "%r"), T("add", ["%k1"], "%k", "1"),
                          T("lt", ["%c"], "%m1", "%k1"), T("jnz", [], "%c", "@loop", "@done")]),
                ("done", _main_tail(["%t1", "%k1"]))]
    else:
        main = [("main", [T("calldataload", ["%m"], "0"), T("and", ["%m1"], "%m", "15"), T("invoke", ["%r"], "@f", "%m1"), T("jmp", [], "@next")]),
                ("next", [T("phi", ["%q"], "@main", "%r"), *_main_tail(["%q", "%m1"])])]
    return {"name": f"loop_phi(call_in_loop={in_loop})", "text": fn("main", main) + "\n\n" + fn("f", f), "inputs": _inputs(rnd, 1)}


def fam_params(rnd):
    """zero / one / many parameters, also pointers to caller memory (alloca passed by address) and no return value"""
    kind = rnd.choice(["zero", "one", "many", "memory", "noret"])
    if kind == "zero":
        f = [("f_entry", [T("param", ["%pc"]), T("sload", ["%v"], "3"), T("ret", [], "%v", "%pc")])]
        call = [T("invoke", ["%r"], "@f")]
        res = ["%r"]
    elif kind == "one":
        f = [("f_entry", [T("param", ["%a"]), T("param", ["%pc"]), T("iszero", ["%v"], "%a"), T("ret", [], "%v", "%pc")])]
        call = [T("invoke", ["%r"], "@f", "%x0")]
        res = ["%r"]
    elif kind == "many":
        k = rnd.randint(3, 6)
        ps = [f"%a{i}" for i in range(k)]
        body = [T("param", [p]) for p in ps] + [T("param", ["%pc"])]
        acc = ps[0]
        for i in range(1, k):
            body.append(T(rnd.choice(["sub", "add", "xor", "div"]), [f"%t{i}"], acc, ps[i]))
            acc = f"%t{i}"
        body.append(T("ret", [], acc, ps[-1], "%pc"))
        f = [("f_entry", body)]
        call = [T("calldataload", [f"%y{i}"], str(32 * (i % 3))) for i in range(k)] + [T("invoke", ["%r", "%r2"], "@f", *[f"%y{i}" for i in range(k)])]
        res = ["%r", "%r2"]
    elif kind == "memory":
        f = [("f_entry", [T("param", ["%src"]), T("param", ["%dst"]), T("param", ["%pc"]), T("mload", ["%v"], "%src"),
                          T("add", ["%v2"], "%v", "1"), T("mstore", [], "%v2", "%dst"), T("add", ["%d2"], "%dst", "32"),
                          T("mstore", [], "%v", "%d2"), T("ret", [], "%pc")])]
        call = [T("alloca", ["%buf"], "32"), T("alloca", ["%out"], "64"), T("mstore", [], "%x0", "%buf"), T("invoke", [], "@f", "%buf", "%out"),
                T("mload", ["%r"], "%out"), T("add", ["%o2"], "%out", "32"), T("mload", ["%r2"], "%o2")]
        res = ["%r", "%r2"]
    else:
        f = [("f_entry", [T("param", ["%a"]), T("param", ["%pc"]), T("sstore", [], "%a", "5"), T("ret", [], "%pc")])]
        call = [T("invoke", [], "@f", "%x0")]
        res = ["%x0"]
    main = [T("calldataload", ["%x0"], "0")] + call + _main_tail(res)
    return {"name": f"params({kind})", "text": fn("main", [("main", main)]) + "\n\n" + fn("f", f), "inputs": _inputs(rnd, 3)}


def fam_two_sites(rnd):
    """a small callee called from two sites of the same caller (inlined twice with different prefixes) in different blocks"""
    f = [("f_entry", [T("param", ["%a"]), T("param", ["%b"]), T("param", ["%pc"]), T("jnz", [], "%a", "@t", "@e")]),
         ("t", [T("sub", ["%d"], "%a", "%b"), T("ret", [], "%d", "%pc")]),
         ("e", [T("ret", [], "%b", "%pc")])]
    main = [("main", [T("calldataload", ["%x"], "0"), T("calldataload", ["%y"], "32"), T("invoke", ["%r"], "@f", "%x", "%y"), T("jnz", [], "%r", "@l", "@r")]),
            ("l", [T("invoke", ["%s"], "@f", "%y", "%r"), T("jmp", [], "@join")]),
            ("r", [T("add", ["%s2"], "%r", "9"), T("jmp", [], "@join")]),
            ("join", [T("phi", ["%z"], "@l", "%s", "@r", "%s2"), *_main_tail(["%z", "%r"])])]
    return {"name": "two_sites", "text": fn("main", main) + "\n\n" + fn("f", f), "inputs": _inputs(rnd, 2), "threshold": 1000}


INLINE_FAMILIES = [fam_multi_ret, fam_nested, fam_loop_phi, fam_params, fam_two_sites]


def inline_programs(rnd, n):
    out = []
    for k in range(n):
        g = INLINE_FAMILIES[k % len(INLINE_FAMILIES)]
        out.append(g(rnd))
    return out


# ------------------------------------------------------------------ mem2var
def fam_m2v(rnd):
    """functions with allocas: promoted in straight-line code, in a loop, read back by `return`; not promotable because the
    address is passed to a call / stored / offset"""
    kind = rnd.choice(["straight", "loop", "return", "escape_call", "escape_store", "escape_retsize", "offset", "two", "size64"])
    c = str(rnd.randrange(1, 1000))
    if kind == "straight":
        b = [("main", [T("calldataload", ["%x"], "0"), T("alloca", ["%p"], "32"), T("mstore", [], "%x", "%p"), T("mload", ["%y"], "%p"),
                       T("add", ["%z"], "%y", c), T("mstore", [], "%z", "%p"), T("mload", ["%w"], "%p"), T("sstore", [], "%w", "0"), T("stop", [])])]
    elif kind == "loop":
        b = [("main", [T("calldataload", ["%n0"], "0"), T("and", ["%n"], "%n0", "7"), T("alloca", ["%p"], "32"), T("mstore", [], "0", "%p"),
                       T("assign", ["%i0"], "0"), T("jmp", [], "@head")]),
             ("head", [T("phi", ["%i"], "@main", "%i0", "@body", "%i1"), T("lt", ["%c"], "%n", "%i"), T("jnz", [], "%c", "@body", "@exit")]),
             ("body", [T("mload", ["%s"], "%p"), T("add", ["%s1"], "%s", "%i"), T("mstore", [], "%s1", "%p"), T("add", ["%i1"], "%i", "1"), T("jmp", [], "@head")]),
             ("exit", [T("mload", ["%r"], "%p"), T("sstore", [], "%r", "1"), T("stop", [])])]
    elif kind == "return":
        b = [("main", [T("calldataload", ["%x"], "0"), T("alloca", ["%p"], "32"), T("mul", ["%y"], "%x", c), T("mstore", [], "%y", "%p"),
                       T("return", [], "32", "%p")])]
    elif kind == "escape_call":
        b = [("main", [T("calldataload", ["%x"], "0"), T("alloca", ["%p"], "32"), T("mstore", [], "%x", "%p"), T("invoke", ["%r"], "@f", "%p"),
                       T("mload", ["%y"], "%p"), T("add", ["%z"], "%y", "%r"), T("sstore", [], "%z", "0"), T("stop", [])])]
        return {"name": "m2v(escape_call)", "text": fn("main", b) + "\n\n" + fn("f", [("f_entry", [T("param", ["%q"]), T("param", ["%pc"]), T("mload", ["%v"], "%q"),
                                                                                               T("add", ["%v1"], "%v", "1"), T("mstore", [], "%v1", "%q"), T("ret", [], "%v", "%pc")])]),
                "inputs": _inputs(rnd, 1), "kind": kind}
    elif kind == "escape_store":
        b = [("main", [T("calldataload", ["%x"], "0"), T("alloca", ["%p"], "32"), T("alloca", ["%q"], "32"), T("mstore", [], "%x", "%p"),
                       T("mstore", [], "%p", "%q"), T("mload", ["%a"], "%q"), T("mload", ["%y"], "%a"), T("sstore", [], "%y", "0"), T("stop", [])])]
    elif kind == "escape_retsize":
        # the pointer is the SIZE operand of a return (regression for C14I:mem2var-pointer-stored-as-value)
        b = [("main", [T("calldataload", ["%x"], "0"), T("alloca", ["%p"], "32"), T("mstore", [], "%x", "%p"), T("mload", ["%y"], "%p"),
                       T("sstore", [], "%y", "0"), T("return", [], "%p", "0")])]
    elif kind == "offset":
        b = [("main", [T("calldataload", ["%x"], "0"), T("alloca", ["%p"], "64"), T("mstore", [], "%x", "%p"), T("add", ["%p2"], "%p", "32"),
                       T("mstore", [], c, "%p2"), T("mload", ["%y"], "%p"), T("mload", ["%z"], "%p2"), T("add", ["%w"], "%y", "%z"),
                       T("sstore", [], "%w", "0"), T("stop", [])])]
    elif kind == "two":
        b = [("main", [T("calldataload", ["%x"], "0"), T("alloca", ["%p"], "32"), T("alloca", ["%q"], "32"), T("mstore", [], "%x", "%p"),
                       T("mstore", [], c, "%q"), T("mload", ["%a"], "%p"), T("mload", ["%b"], "%q"), T("jnz", [], "%a", "@t", "@e")]),
             ("t", [T("mstore", [], "%b", "%p"), T("jmp", [], "@e")]),
             ("e", [T("mload", ["%r"], "%p"), T("mload", ["%s"], "%q"), T("add", ["%w"], "%r", "%s"), T("sstore", [], "%w", "0"), T("stop", [])])]
    else:
        b = [("main", [T("calldataload", ["%x"], "0"), T("alloca", ["%p"], "64"), T("mstore", [], "%x", "%p"), T("mload", ["%y"], "%p"),
                       T("sstore", [], "%y", "0"), T("stop", [])])]
    return {"name": f"m2v({kind})", "text": fn("main", b), "inputs": _inputs(rnd, 1), "kind": kind}


def m2v_programs(rnd, n):
    return [fam_m2v(rnd) for _ in range(n)]
