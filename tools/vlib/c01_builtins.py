"""C01, pure value-level builtins: programs `def f(args) -> T: return <builtin expression>` are generated with
boundary-biased runtime arguments, compiled by the real compiler under every configuration, executed on pyrevm, and the
status / return data of every call is compared with the prediction of coq/C01/VyBuiltin.v (vm_compute).  The meaning in
VyBuiltin.v is written from docs/built-in-functions.rst, independently of both code generators, so a change made
identically to both generators (invisible to a configuration-against-configuration differential) is still caught."""
import hashlib
import multiprocessing as mp
import time

from eth_utils import keccak

from vlib import coqrun
from vlib.configs import compile_src, configs
from vlib.evm import Chain, DEPLOYER

W = 2 ** 256
DEC = 10 ** 10
IMPORTS = "From Verif Require Import C01.VyCore C01.VyBuiltin.\n"
COQ_FILES = ["C01/VyBuiltin.v", "C01/VyBuiltinLaws.v", "C01/PropsBuiltin.v"]
COQ_DEPS = ["C01/VyCore.v"]

U256, I256 = ("int", 256, False), ("int", 256, True)
DECT = ("dec",)
INT_TYPES = [("int", b, s) for b in (8, 16, 24, 64, 96, 128, 160, 200, 248, 256) for s in (False, True)]
DENOMS = {
    "wei": 1, "femtoether": 10 ** 3, "kwei": 10 ** 3, "babbage": 10 ** 3, "picoether": 10 ** 6, "mwei": 10 ** 6,
    "lovelace": 10 ** 6, "nanoether": 10 ** 9, "gwei": 10 ** 9, "shannon": 10 ** 9, "microether": 10 ** 12,
    "szabo": 10 ** 12, "milliether": 10 ** 15, "finney": 10 ** 15, "ether": 10 ** 18, "kether": 10 ** 21,
    "grand": 10 ** 21,
}


# ---------------------------------------------------------------- types
def is_prim(t):
    return t[0] in ("int", "dec", "bool", "addr", "bytesm")


def ty_vy(t):
    k = t[0]
    if k == "int":
        return f"{'int' if t[2] else 'uint'}{t[1]}"
    return {"dec": "decimal", "bool": "bool", "addr": "address"}.get(k) or \
        (f"bytes{t[1]}" if k == "bytesm" else f"Bytes[{t[1]}]" if k == "bytes" else f"String[{t[1]}]")


def ty_sig(t):
    k = t[0]
    if k == "dec":
        return "int168"
    if k == "bytes":
        return "bytes"
    if k == "string":
        return "string"
    return ty_vy(t)


def ty_coq(t):
    k = t[0]
    if k == "int":
        return f"(TInt {t[1]} {'true' if t[2] else 'false'})"
    if k == "dec":
        return "(TInt 168 true)"
    if k == "bool":
        return "TBool"
    if k == "addr":
        return "TAddr"
    if k == "bytesm":
        return f"(TInt {8 * t[1]} false)"
    return f"(TBytes {t[1]})"


def rng_of(t):
    """(lo, hi) of the mathematical values of a primitive type"""
    k = t[0]
    if k == "int":
        return (-(2 ** (t[1] - 1)), 2 ** (t[1] - 1) - 1) if t[2] else (0, 2 ** t[1] - 1)
    if k == "dec":
        return -(2 ** 167), 2 ** 167 - 1
    if k == "bool":
        return 0, 1
    if k == "addr":
        return 0, 2 ** 160 - 1
    if k == "bytesm":
        return 0, 2 ** (8 * t[1]) - 1
    raise ValueError(t)


def val_coq(v, t):
    if t[0] in ("bytes", "string"):
        return "(VBytes [" + "; ".join(str(b) for b in v) + "])"
    if t[0] == "bool" and v in (0, 1):
        return f"(VBool {'true' if v else 'false'})"
    return f"(VInt {coqrun.hexlit(int(v))})"


def enc_word(v, t):
    if t[0] == "bytesm":
        lo, hi = rng_of(t)
        if 0 <= v <= hi:
            return (v << (8 * (32 - t[1]))).to_bytes(32, "big")
        return (W - 1).to_bytes(32, "big")          # a dirty word (model value hi+1 fails has_type as well)
    return (int(v) % W).to_bytes(32, "big")


def enc_bytes(v):
    v = bytes(v)
    return len(v).to_bytes(32, "big") + v + b"\0" * (-len(v) % 32)


def enc_args(vals, tys):
    head, tail = [], []
    hl = 32 * len(tys)
    for v, t in zip(vals, tys):
        if is_prim(t):
            head.append(enc_word(v, t))
        else:
            head.append((hl + sum(len(x) for x in tail)).to_bytes(32, "big"))
            tail.append(enc_bytes(v))
    return b"".join(head) + b"".join(tail)


def expected_return(v, t):
    if is_prim(t):
        if t[0] == "bool":
            return int(bool(v)).to_bytes(32, "big")
        return enc_word(v, t)
    return (32).to_bytes(32, "big") + enc_bytes(v)


# ---------------------------------------------------------------- boundary values
def bvals(t, rng, extra=()):
    """boundary-biased mathematical values of a primitive type (plus one word just outside the type: ABI validation)"""
    lo, hi = rng_of(t)
    c = {lo, lo + 1, 0, 1, 2, hi - 1, hi, hi // 2, hi // 2 + 1}
    if lo < 0:
        c |= {-1, -2, lo // 2}
    for e in extra:
        c.add(e)
    for p in (7, 8, 64, 127, 128, 255):
        for d in (-1, 0, 1):
            c.add(2 ** p + d)
            c.add(-(2 ** p) + d)
    c = {x for x in c if lo <= x <= hi}
    c.add(rng.randint(lo, hi))
    c.add(rng.randint(max(lo, -1000), min(hi, 1000)))
    out = sorted(c)
    if t[0] in ("int", "dec") and (hi - lo + 1) < W:       # one out-of-range ABI word each side
        out.append(hi + 1)
        if lo < 0:
            out.append(lo - 1)
    return out


def pick(rng, xs, n):
    xs = list(xs)
    if len(xs) <= n:
        return xs
    return rng.sample(xs, n)


def pairs(rng, t, n, extra=()):
    """boundary-biased argument pairs"""
    v = bvals(t, rng, extra)
    lo, hi = rng_of(t)
    core = [(lo, lo), (lo, hi), (hi, lo), (hi, hi), (0, 0), (hi, 1), (1, hi), (lo, 1), (hi, 2), (hi // 2 + 1, 2), (lo, 2)]
    if lo < 0:
        core += [(lo, -1), (-1, lo), (-1, -1), (hi, -1), (lo // 2, 2), (lo // 2 - 1, 2), (-1, 1), (1, -1)]
    core = [(a, b) for a, b in core if lo <= a <= hi and lo <= b <= hi]
    more = [(rng.choice(v), rng.choice(v)) for _ in range(n)]
    return core + more


# ---------------------------------------------------------------- probes
class Probe:
    """one external function `return <vy>`; coq = its bexpr; args = list of argument tuples (mathematical values / bytes);
    hashes(args) -> [(kind, preimage bytes)] needed by the oracle table for a call with these arguments"""
    def __init__(self, family, params, ret, vy, coq, args, hashes=None, pre=""):
        self.family, self.params, self.ret, self.vy, self.coq = family, params, ret, vy, coq
        self.args, self.hashes, self.pre = args, hashes, pre
        self.name = None

    def source(self, name=None):
        ps = ", ".join(f"a{i}: {ty_vy(t)}" for i, t in enumerate(self.params))
        return f"@external\ndef {name or self.name}({ps}) -> {ty_vy(self.ret)}:\n    return {self.vy}\n"

    def sig(self, name=None):
        return f"{name or self.name}(" + ",".join(ty_sig(t) for t in self.params) + ")"

    def coq_fun(self):
        return f"(mkBFun [{'; '.join(ty_coq(t) for t in self.params)}] {self.coq})"


def A(i):
    return f"(BCore (EVar {i}))"


def app(b, *args):
    return f"(BApp {b} [{'; '.join(args)}])"


def b2c(b):
    return "true" if b else "false"


def fam_as_wei(rng, n):
    out = []
    units = sorted(DENOMS)
    big = [u for u in units if DENOMS[u] >= 10 ** 3]
    combos = [(I256, rng.choice(big)), (I256, rng.choice(big)), (("int", rng.choice([200, 208, 232, 248]), True), rng.choice(["ether", "kether", "grand"])),
              (U256, rng.choice(big)), (U256, rng.choice(units)), (DECT, rng.choice(units)), (DECT, rng.choice(big))]
    while len(combos) < n:
        combos.append((rng.choice(INT_TYPES + [DECT]), rng.choice(units)))
    for t, u in combos[:n]:
        d = DENOMS[u]
        dec = t == DECT
        extra = set()
        for bound in (2 ** 255, 2 ** 256, 2 ** 255 + 2 ** 254, 2 ** 128):
            q = (bound * DEC // d) if dec else bound // d
            for k in (-2, -1, 0, 1, 2):
                extra.add(q + k)
        extra |= {DEC, DEC - 1, DEC + 1, d, d - 1, d + 1}
        vals = bvals(t, rng, extra)
        out.append(Probe("as_wei_value", [t], U256, f'as_wei_value(a0, "{u}")',
                         app(f"(BiAsWei {coqrun.hexlit(d)} {b2c(dec)})", A(0)), [(v,) for v in vals]))
    return out


def fam_minmax(rng, n):
    out = []
    for t in pick(rng, INT_TYPES, n - 1) + [DECT]:
        for f, b in (("min", "BiMin"), ("max", "BiMax")):
            out.append(Probe(f, [t, t], t, f"{f}(a0, a1)", app(b, A(0), A(1)), pick(rng, pairs(rng, t, 6), 16)))
    return out


def fam_abs(rng, n):
    return [Probe("abs", [I256], I256, "abs(a0)", app("BiAbs", A(0)), [(v,) for v in bvals(I256, rng)])]


def fam_floor_ceil(rng, n):
    lo, hi = rng_of(DECT)
    ex = set()
    for k in (0, 1, 2, 3, 2 ** 100, hi // DEC, hi // DEC - 1):
        for d in (-1, 0, 1):
            ex |= {k * DEC + d, -k * DEC + d}
    ex |= {DEC // 2, -DEC // 2, DEC - 1, 1 - DEC}
    vals = [(v,) for v in bvals(DECT, rng, ex)]
    return [Probe("floor", [DECT], I256, "floor(a0)", app("BiFloor", A(0)), vals),
            Probe("ceil", [DECT], I256, "ceil(a0)", app("BiCeil", A(0)), vals)]


def fam_isqrt(rng, n):
    ex = set()
    for r in (2, 3, 10, 2 ** 64, 2 ** 127, 2 ** 128 - 1, 2 ** 128 - 2, rng.randint(0, 2 ** 128 - 1), rng.randint(0, 2 ** 64)):
        ex |= {r * r - 1, r * r, r * r + 1, r * r + 2 * r, r * r + 2 * r + 1}
    return [Probe("isqrt", [U256], U256, "math.isqrt(a0)", app("BiIsqrt", A(0)), [(v,) for v in bvals(U256, rng, ex)],
                  pre="import math\n")]


def fam_addmulmod(rng, n):
    v = bvals(U256, rng)
    M = W - 1
    core = [(M, M, M), (M, M, M - 1), (M, 1, M), (M, 1, 0), (0, 0, 0), (0, 0, 1), (M, M, 1), (M, M, 2), (M, 2, 3), (2 ** 255, 2 ** 255, M),
            (2 ** 255, 2, 7), (M, M, 2 ** 255), (M - 1, M, 2 ** 255 + 1), (5, 7, 3), (1, M, 2 ** 128)]
    more = [(rng.choice(v), rng.choice(v), rng.choice(v + [0, 1, 2, 3])) for _ in range(8)]
    return [Probe("uint256_addmod", [U256] * 3, U256, "uint256_addmod(a0, a1, a2)", app("BiAddmod", A(0), A(1), A(2)), core + more),
            Probe("uint256_mulmod", [U256] * 3, U256, "uint256_mulmod(a0, a1, a2)", app("BiMulmod", A(0), A(1), A(2)), core + more)]


def fam_powmod(rng, n):
    M = W - 1
    core = [(0, 0), (0, 1), (1, 0), (1, M), (2, 255), (2, 256), (2, 257), (3, M), (M, M), (M, 2), (M, 3), (M, 0), (2 ** 128, 2), (2 ** 128, 1),
            (2 ** 255, 1), (2 ** 255, 2), (10, 77), (10, 78), (7, 2 ** 255), (rng.randint(0, M), rng.randint(0, M)), (rng.randint(0, 100), rng.randint(0, 300))]
    return [Probe("pow_mod256", [U256, U256], U256, "pow_mod256(a0, a1)", app("BiPowMod", A(0), A(1)), core)]


def fam_unsafe(rng, n):
    out = []
    tys = [U256, I256, ("int", 8, True), ("int", 8, False), ("int", 128, True)] + pick(rng, INT_TYPES, 3)
    ops = [("add", "UAdd"), ("sub", "USub"), ("mul", "UMul"), ("div", "UDiv")]
    k = 0
    for t in tys:
        for o, c in (ops if k < 2 else pick(rng, ops, 2)):
            ps = pairs(rng, t, 5)
            lo, hi = rng_of(t)
            ps += [(hi, 0), (lo, 0), (0, 0), (1, 0)]
            out.append(Probe(f"unsafe_{o}", [t, t], t, f"unsafe_{o}(a0, a1)",
                             app(f"(BiUnsafe {c} {t[1]} {b2c(t[2])})", A(0), A(1)), pick(rng, ps, 20)))
        k += 1
    return out[:n] if n < len(out) else out


def fam_shift(rng, n):
    out = []
    for t in (U256, I256):
        nt = rng.choice([("int", 128, True), I256, ("int", 16, True)])
        xs = pick(rng, bvals(t, rng), 6) + [rng_of(t)[1], rng_of(t)[0], 1]
        lo, hi = rng_of(nt)
        ns = [n_ for n_ in (0, 1, -1, 2, 8, -8, 255, 256, 257, -255, -256, -257, lo, hi, 1000, -1000) if lo <= n_ <= hi]
        args = [(x, rng.choice(ns)) for x in xs] + [(rng.choice(xs), n_) for n_ in ns]
        out.append(Probe("shift", [t, nt], t, "shift(a0, a1)", app(f"(BiShift {b2c(t[2])})", A(0), A(1)), args))
    return out


def fam_uint2str(rng, n):
    out = []
    import math
    for t in pick(rng, [x for x in INT_TYPES if not x[2]], 2) + [U256]:
        ln = math.ceil(t[1] * math.log(2) / math.log(10))
        ex = {9, 10, 11, 99, 100, 101, 10 ** 18, 10 ** 18 - 1, 10 ** 77, 10 ** 77 - 1, 10 ** 38}
        out.append(Probe("uint2str", [t], ("string", ln), "uint2str(a0)", app("BiUint2Str", A(0)), [(v,) for v in bvals(t, rng, ex)]))
    return out


def rbytes(rng, n):
    return bytes(rng.randrange(256) for _ in range(n))


def rstr(rng, n):
    return bytes(rng.choice(b"abcXYZ 019!~") for _ in range(n))


def blens(cap):
    return sorted({x for x in (0, 1, 2, 31, 32, 33, 63, 64, 65, cap - 1, cap) if 0 <= x <= cap})


def fam_len(rng, n):
    out = []
    for kind in ("bytes", "string"):
        cap = rng.choice([1, 5, 32, 33, 70])
        gen = rbytes if kind == "bytes" else rstr
        out.append(Probe("len", [(kind, cap)], U256, "len(a0)", app("BiLen", A(0)), [(gen(rng, k),) for k in blens(cap)]))
    return out


def fam_empty(rng, n):
    out = []
    for t in pick(rng, INT_TYPES + [DECT, ("bool",), ("addr",), ("bytesm", 4), ("bytesm", 32)], 2) + [("bytes", 9), ("string", 40)]:
        out.append(Probe("empty", [U256], t, f"empty({ty_vy(t)})", app(f"(BiEmpty {ty_coq(t)})"), [(0,), (W - 1,)]))
    return out


def fam_extract32(rng, n):
    out = []
    outs = [(("bytesm", 32), "XB32", None), (("addr",), "XAddr", "address")]
    for t in [I256, U256, ("int", 128, True)] + pick(rng, INT_TYPES, 2):
        outs.append((t, f"(XInt {t[1]} {b2c(t[2])})", ty_vy(t)))
    for rt, xo, kw in pick(rng, outs, n):
        cap = rng.choice([32, 33, 64, 100])
        lo, hi = rng_of(rt)
        words = {0, 1, W - 1, 2 ** 255, 2 ** 255 - 1, hi % W, (hi + 1) % W, lo % W, (lo - 1) % W, rng.randrange(W), 2 ** 160, 2 ** 160 - 1}
        args = []
        for w in sorted(words):
            ln = rng.choice([x for x in (32, 33, 40, 64, cap) if x <= cap])
            st = rng.randint(0, ln - 32)
            b = bytearray(rbytes(rng, ln))
            b[st:st + 32] = w.to_bytes(32, "big")
            args.append((bytes(b), st))
        for ln in blens(cap):
            b = rbytes(rng, ln)
            for st in (0, 1, ln - 32, ln - 31, ln, 31, 32, 2 ** 255, W - 1, W - 32, W - 31):
                if 0 <= st < W and rng.random() < 0.5:
                    args.append((b, st))
        vy = "extract32(a0, a1)" if kw is None else f"extract32(a0, a1, output_type={kw})"
        out.append(Probe("extract32", [("bytes", cap), U256], rt, vy, app(f"(BiExtract32 {xo})", A(0), A(1)), args))
    return out


def slice_args(rng, data_of, cap):
    args = []
    for ln in blens(cap):
        d = data_of(ln)
        for st, l in ((0, ln), (0, 0), (ln, 0), (ln, 1), (0, ln + 1), (1, ln - 1), (1, ln), (ln - 1, 1), (ln - 1, 2), (W - 1, 1), (W - 1, 2),
                      (1, W - 1), (2 ** 255, 2 ** 255), (0, 1), (ln // 2, ln - ln // 2), (ln // 2, ln - ln // 2 + 1), (31, 1), (32, 1), (0, 32), (0, 33)):
            if 0 <= st < W and 0 <= l < W and rng.random() < 0.45:
                args.append((d, st, l))
    return args


def fam_slice(rng, n):
    out = []
    for kind in ("bytes", "string"):
        cap = rng.choice([5, 32, 33, 64, 70])
        gen = rbytes if kind == "bytes" else rstr
        out.append(Probe("slice", [(kind, cap), U256, U256], (kind, cap), "slice(a0, a1, a2)", app("BiSlice", A(0), A(1), A(2)),
                         slice_args(rng, lambda k: gen(rng, k), cap)))
    args = []
    for _ in range(3):
        w = rng.randrange(W)
        args += [(w, st, l) for (_, st, l) in slice_args(rng, lambda k: b"", 32)][:14]
    args += [(W - 1, 0, 32), (1, 31, 1), (1, 32, 0), (1, 32, 1), (1, 0, 33), (2 ** 255, 0, 1)]
    out.append(Probe("slice", [("bytesm", 32), U256, U256], ("bytes", 32), "slice(a0, a1, a2)", app("BiSliceB32", A(0), A(1), A(2)), args))
    return out


def fam_concat(rng, n):
    out = []
    c1, c2 = rng.choice([1, 31, 32, 33]), rng.choice([1, 32, 40])
    for kind, gen in (("bytes", rbytes), ("string", rstr)):
        args = [(gen(rng, x), gen(rng, y)) for x in blens(c1) for y in blens(c2) if rng.random() < 0.6]
        out.append(Probe("concat", [(kind, c1), (kind, c2)], (kind, c1 + c2), "concat(a0, a1)", app("BiConcat", A(0), A(1)), args))
    m = rng.choice([1, 4, 20, 31, 32])
    args = [(rbytes(rng, x), v) for x in blens(c1) for v in (0, 1, 2 ** (8 * m) - 1, rng.randrange(2 ** (8 * m)))]
    out.append(Probe("concat", [("bytes", c1), ("bytesm", m)], ("bytes", c1 + m), "concat(a0, a1)", app(f"(BiConcatM {m})", A(0), A(1)), args))
    return out


def fam_hash(rng, n):
    out = []
    B32 = ("bytesm", 32)
    for f, k in (("keccak256", "HKeccak"), ("sha256", "HSha")):
        cap = rng.choice([1, 32, 33, 64, 100])
        kind = rng.choice(["bytes", "string"])
        gen = rbytes if kind == "bytes" else rstr
        out.append(Probe(f, [(kind, cap)], B32, f"{f}(a0)", app(f"(BiHash {k} false)", A(0)), [(gen(rng, x),) for x in blens(cap)],
                         hashes=lambda a, k=k: [(k, a[0])]))
        out.append(Probe(f, [B32], B32, f"{f}(a0)", app(f"(BiHash {k} true)", A(0)), [(v,) for v in (0, 1, W - 1, 2 ** 255, rng.randrange(W))],
                         hashes=lambda a, k=k: [(k, int(a[0]).to_bytes(32, "big"))]))
        c1, c2 = rng.choice([1, 31, 32]), rng.choice([2, 32, 33])
        out.append(Probe(f, [("bytes", c1), ("bytes", c2)], B32, f"{f}(concat(a0, a1))",
                         app(f"(BiHash {k} false)", app("BiConcat", A(0), A(1))),
                         [(rbytes(rng, x), rbytes(rng, y)) for x in blens(c1) for y in blens(c2) if rng.random() < 0.5] + [(b"", b"")],
                         hashes=lambda a, k=k: [(k, bytes(a[0]) + bytes(a[1]))]))
    return out


def fam_method_id(rng, n):
    out = []
    sigs = ["transfer(address,uint256)", "f()", "balanceOf(address)", f"g{rng.randint(0, 999)}(uint256,bytes)"]
    for s in pick(rng, sigs, 2):
        lit = "[" + "; ".join(str(b) for b in s.encode()) + "]"
        hs = lambda a, s=s: [("HKeccak", s.encode())]
        out.append(Probe("method_id", [U256], ("bytes", 4), f'method_id("{s}")', app(f"(BiMethodId {lit} false)"), [(0,), (5,)], hashes=hs))
        out.append(Probe("method_id", [U256], ("bytesm", 4), f'method_id("{s}", output_type=bytes4)', app(f"(BiMethodId {lit} true)"), [(0,)], hashes=hs))
    return out


def fam_compose(rng, n):
    """builtins applied to builtins and to checked arithmetic on the arguments"""
    out = []
    u = rng.choice(["gwei", "finney", "ether", "kether"])
    d = DENOMS[u]
    ex = {2 ** 255 // d, 2 ** 255 // d + 1, 2 ** 256 // d, 2 ** 256 // d + 1, 2 ** 255 // d - 1}
    out.append(Probe("as_wei_value", [I256, I256], U256, f'as_wei_value(max(a0, a1), "{u}")',
                     app(f"(BiAsWei {coqrun.hexlit(d)} false)", app("BiMax", A(0), A(1))), pick(rng, pairs(rng, I256, 10, ex), 20)))
    out.append(Probe("as_wei_value", [I256, I256], U256, f'as_wei_value(a0 + a1, "{u}")',
                     app(f"(BiAsWei {coqrun.hexlit(d)} false)", "(BCore (EBin Add (TInt 256 true) (EVar 0) (EVar 1)))"),
                     [(x, k) for x in sorted(ex) for k in (0, 1, -1)] + [(2 ** 255 - 1, 1), (-(2 ** 255), -1), (-1, 1), (-1, 0)]))
    t = rng.choice([("int", 128, True), ("int", 64, True), I256])
    out.append(Probe("unsafe_add", [t, t], t, "unsafe_add(min(a0, a1), unsafe_mul(a0, a1))",
                     app(f"(BiUnsafe UAdd {t[1]} true)", app("BiMin", A(0), A(1)), app(f"(BiUnsafe UMul {t[1]} true)", A(0), A(1))),
                     pick(rng, pairs(rng, t, 8), 16)))
    out.append(Probe("abs", [I256, I256], I256, "abs(unsafe_sub(a0, a1))", app("BiAbs", app("(BiUnsafe USub 256 true)", A(0), A(1))),
                     pick(rng, pairs(rng, I256, 8), 18)))
    out.append(Probe("isqrt", [U256, U256], U256, "math.isqrt(uint256_mulmod(a0, a0, a1))",
                     app("BiIsqrt", app("BiMulmod", A(0), A(0), A(1))), pick(rng, pairs(rng, U256, 8), 14), pre="import math\n"))
    out.append(Probe("floor", [DECT, DECT], I256, "floor(min(a0, a1)) + ceil(max(a0, a1))",
                     "(BCore (EBin Add (TInt 256 true) (EDec Floor (TInt 256 true) (EMin (EVar 0) (EVar 1))) (EDec Ceil (TInt 256 true) (EMax (EVar 0) (EVar 1)))))",
                     pick(rng, pairs(rng, DECT, 8, {DEC, -DEC, DEC + 1, -DEC - 1, 1, -1}), 16)))
    out.append(Probe("as_wei_value", [I256], U256, f'as_wei_value(convert(a0, uint256), "{u}")',
                     app(f"(BiAsWei {coqrun.hexlit(d)} false)", "(BCore (EConv (TInt 256 false) (EVar 0)))"), [(v,) for v in bvals(I256, rng, ex)]))
    i128 = ("int", 128, True)
    out.append(Probe("as_wei_value", [i128], U256, f'as_wei_value(convert(a0, decimal), "{u}")',
                     app(f"(BiAsWei {coqrun.hexlit(d)} true)", "(BCore (EDec ToDec (TInt 168 true) (EVar 0)))"), [(v,) for v in bvals(i128, rng)]))
    out.append(Probe("unsafe_sub", [I256, i128], i128, "unsafe_sub(convert(a0, int128), a1)",
                     app("(BiUnsafe USub 128 true)", "(BCore (EConv (TInt 128 true) (EVar 0)))", A(1)),
                     [(x, y) for x in (2 ** 127 - 1, 2 ** 127, -(2 ** 127), -(2 ** 127) - 1, 0, -1) for y in (1, -1, 2 ** 127 - 1, -(2 ** 127))]))
    return pick(rng, out, n)


FAMILIES = [
    # (generator, quick count, thorough count)
    (fam_as_wei, 9, 40), (fam_minmax, 3, 10), (fam_abs, 1, 1), (fam_floor_ceil, 1, 1), (fam_isqrt, 1, 1), (fam_addmulmod, 1, 1),
    (fam_powmod, 1, 1), (fam_unsafe, 14, 60), (fam_shift, 1, 1), (fam_uint2str, 1, 1), (fam_len, 1, 1), (fam_empty, 1, 1),
    (fam_extract32, 4, 9), (fam_slice, 1, 1), (fam_concat, 1, 1), (fam_hash, 1, 1), (fam_method_id, 1, 1), (fam_compose, 7, 9),
]


def gen_probes(rng, tier):
    out = []
    rounds = 1 if tier == "quick" else 3
    for _ in range(rounds):
        for fam, nq, nt in FAMILIES:
            out += fam(rng, nq if tier == "quick" else nt)
    for i, p in enumerate(out):
        p.name = f"f{i}"
    return out


# ---------------------------------------------------------------- model
def hash_table(probes):
    tab = {}
    for p in probes:
        if p.hashes is None:
            continue
        for a in p.args:
            for k, pre in p.hashes(a):
                pre = bytes(pre)
                d = keccak(pre) if k == "HKeccak" else hashlib.sha256(pre).digest()
                tab[(k, pre)] = int.from_bytes(d, "big")
    return "[" + "; ".join(f"({k}, [{'; '.join(str(b) for b in pre)}], {coqrun.hexlit(d)})" for (k, pre), d in sorted(tab.items())) + "]"


def parse_results(zs, n):
    out, i = [], 0

    def val():
        nonlocal i
        tag = zs[i]
        i += 1
        if tag == 0:
            i += 1
            return zs[i - 1]
        if tag == 1:
            i += 1
            return bool(zs[i - 1])
        if tag == 4:
            ln = zs[i]
            i += 1 + ln
            return bytes(zs[i - ln:i])
        if tag == 2:
            ln = zs[i]
            i += 1
            return [val() for _ in range(ln)]
        raise ValueError(f"bad value tag {tag}")
    for _ in range(n):
        st = zs[i]
        i += 1
        if st == 1:
            out.append(("ok", val()))
        elif st == 0:
            out.append(("revert",))
        else:
            i += 1
            out.append(("error", {1: "out-of-fuel", 2: "stuck"}[zs[i - 1]]))
    assert i == len(zs), "trailing model output"
    return out


def model_eval(probes, name):
    """-> per probe: list of results, one per argument tuple"""
    tab = hash_table(probes)
    chunks = [probes[i:i + 12] for i in range(0, len(probes), 12)]
    exprs = []
    for ch in chunks:
        fs = "[" + "; ".join(p.coq_fun() for p in ch) + "]"
        calls = []
        for k, p in enumerate(ch):
            for a in p.args:
                calls.append(f"({k}%nat, [{'; '.join(val_coq(v, t) for v, t in zip(a, p.params))}])")
        exprs.append(f"(show_b {tab} {fs} [{'; '.join(calls)}])")
    outs = coqrun.eval_zlists(IMPORTS, exprs, name, shard=max(1, (len(exprs) + 2) // 3), timeout=300)
    res = []
    for ch, zs in zip(chunks, outs):
        flat = parse_results(zs, sum(len(p.args) for p in ch))
        k = 0
        for p in ch:
            res.append(flat[k:k + len(p.args)])
            k += len(p.args)
    return res


# ---------------------------------------------------------------- real compiler + EVM
def contract_source(probes):
    pre = "".join(sorted({p.pre for p in probes}))
    return pre + "\n" + "\n".join(p.source() for p in probes)


def observe_contract(probes, cfg):
    """-> per probe: list of (ok, returndata)"""
    import warnings
    warnings.filterwarnings("ignore")
    out = compile_src(contract_source(probes), cfg, formats=("bytecode",))
    ch = Chain(cfg.evm)
    addr = ch.deploy(bytes.fromhex(out["bytecode"][2:]))
    if addr is None:
        raise RuntimeError("deployment reverted")
    res = []
    for p in probes:
        sel = keccak(p.sig().encode())[:4]
        rs = []
        for a in p.args:
            r = ch.call(addr, sel + enc_args(a, p.params))
            rs.append((r.ok, r.out))
        res.append(rs)
    return res


_WORK = None


def _job(ij):
    i, j = ij
    probes, cfg = _WORK[0][i], _WORK[1][j]
    try:
        return i, j, "ok", observe_contract(probes, cfg)
    except Exception as e:
        return i, j, "exc", (type(e).__name__, str(e)[:300])


def diff_call(p, a, m, o):
    ok, data = o
    if m[0] == "error":
        return {"what": "model-error", "model": m[1]}
    if m[0] == "revert":
        if ok:
            return {"what": "status", "expected": "revert", "observed": "success", "returndata": data.hex()}
        if data != b"":
            return {"what": "revert-data", "expected": "", "observed": data.hex()}
        return None
    if not ok:
        return {"what": "status", "expected": "success", "observed": "revert", "expected_value": show_val(m[1]), "revert_data": data.hex()}
    exp = expected_return(m[1], p.ret)
    if exp != data:
        return {"what": "return-data", "expected": exp.hex(), "observed": data.hex(), "expected_value": show_val(m[1])}
    return None


def show_val(v):
    return "0x" + v.hex() if isinstance(v, (bytes, bytearray)) else str(v)


def confirm_single(p, a, m, cfg):
    """re-run the failing call against a contract that contains only this function (the report's replay)"""
    q = Probe(p.family, p.params, p.ret, p.vy, p.coq, [a], p.hashes, p.pre)
    q.name = "foo"
    try:
        o = observe_contract([q], cfg)[0][0]
    except Exception as e:
        return None, q, f"{type(e).__name__}: {e}"[:200]
    return diff_call(q, a, m, o), q, None


def part_builtins(ctx):
    """returns the number of (call, configuration) comparisons"""
    global _WORK
    t0 = time.time()
    b = ctx.coq_build_cached(COQ_FILES, deps=COQ_DEPS)
    if not b["ok"]:
        ctx.violation("theorem-broken", f"{b.get('failed_lemma')} in {b['file']}",
                      {"theorem": b.get("failed_lemma"), "file": b["file"], "coq_output": b["out"][-1500:]})
        if "VyBuiltin.v" in b["file"]:
            return 0
    rng = ctx.rng("builtins")
    probes = gen_probes(rng, ctx.tier)
    model = model_eval(probes, f"{ctx.pid}bi")
    t_model = time.time() - t0
    cfgs = configs(ctx.tier)
    if ctx.tier != "quick":
        cfgs = [c for k, c in enumerate(cfgs) if k < 40 or k % 3 == ctx.seed % 3]
    per = 24
    groups = [list(range(i, min(i + per, len(probes)))) for i in range(0, len(probes), per)]
    _WORK = ([[probes[k] for k in g] for g in groups], cfgs)
    work = [(i, j) for i in range(len(groups)) for j in range(len(cfgs))]
    results = {}
    with mp.get_context("fork").Pool(3) as pool:
        for i, j, st, o in pool.imap_unordered(_job, work, chunksize=1):
            results[(i, j)] = (st, o)
    n_cmp, n_calls, rejected, reported, fams = 0, 0, {}, set(), {}
    model_errors = 0
    for (i, j), (st, o) in sorted(results.items()):
        cfg = cfgs[j]
        if st == "exc":
            rejected[f"{cfg.name}:{o[0]}"] = rejected.get(f"{cfg.name}:{o[0]}", 0) + 1
            ctx.corr.setdefault("builtin_compile_failures", []).append({"config": cfg.name, "exception": o[0], "message": o[1]})
            continue
        for k, rs in zip(groups[i], o):
            p = probes[k]
            for a, m, ob in zip(p.args, model[k], rs):
                n_cmp += 1
                d = diff_call(p, a, m, ob)
                if d is None:
                    continue
                pipe = "venom" if cfg.venom else "legacy"
                if d["what"] == "model-error":
                    model_errors += 1
                    if model_errors <= 2:
                        ctx.violation("correspondence-broken", "VyBuiltin got stuck on a generated builtin probe",
                                      {"source": p.source(), "coq": p.coq, "args": [show_val(x) for x in a], "model": m[1]})
                    continue
                key = f"C01:builtin:{p.family}:{pipe}"
                if key in reported or len(reported) >= 4:
                    ctx.corr["builtin_further_failures"] = ctx.corr.get("builtin_further_failures", 0) + 1
                    continue
                reported.add(key)
                d1, q, err = confirm_single(p, a, m, cfg)
                also = sorted({cfgs[j2].name for (i2, j2), (st2, o2) in results.items() if i2 == i and st2 == "ok" and j2 != j
                               and any(diff_call(p, a2, m2, ob2) is not None
                                       for a2, m2, ob2 in zip(p.args, model[k], o2[groups[i].index(k)]))})
                detail = {"config": cfg.name, "builtin": p.family,
                          "source": (q.pre + q.source()) if d1 is not None else contract_source([probes[x] for x in groups[i]]),
                          "function": q.sig() if d1 is not None else p.sig(),
                          "args": [show_val(x) for x in a],
                          "calldata": (keccak((q if d1 is not None else p).sig().encode())[:4] + enc_args(a, p.params)).hex(),
                          "calls": [{"calldata": (keccak((q if d1 is not None else p).sig().encode())[:4] + enc_args(a, p.params)).hex()}],
                          "difference": d1 if d1 is not None else d,
                          "single_function_replay": "reproduced" if d1 is not None else (err or "not reproduced alone: whole contract given"),
                          "also_failing_under": also,
                          "rule": "coq/C01/VyBuiltin.v (meaning of the builtin per docs/built-in-functions.rst): expected = model "
                                  "prediction (vm_compute), observed = EVM execution of the compiled bytecode under this configuration"}
                ctx.violation("failing-input", f"builtin {p.family}: compiled bytecode disagrees with the source meaning "
                              f"({d['what']}) under {cfg.name}", detail, key=key)
        n_calls += 1
    for p, ms in zip(probes, model):
        f = fams.setdefault(p.family, {"functions": 0, "calls": 0, "reverting": 0})
        f["functions"] += 1
        f["calls"] += len(ms)
        f["reverting"] += sum(1 for m in ms if m[0] == "revert")
    ctx.corr["builtins"] = {"functions": len(probes), "calls_per_config": sum(len(p.args) for p in probes), "configs": len(cfgs),
                            "comparisons": n_cmp, "families": fams, "compile_failures": rejected,
                            "seconds": {"coq+model": round(t_model, 1), "total": round(time.time() - t0, 1)}}
    if probes:
        p = probes[0]
        ctx.samples.append({"builtin_probe": p.source(), "args": [show_val(x) for x in p.args[0]], "model": str(model[0][0])})
    return n_cmp


def prebuild(ctx):
    ctx.coq_build_cached(COQ_FILES, deps=COQ_DEPS)
