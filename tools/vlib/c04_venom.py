"""C04 helper: observe the real ConcretizeMemLocPass (alloca sizes, livesets, resulting offsets, pinned/global
allocations) while compiling corpus contracts with the Venom pipeline; judge the result with the property's own
oracle, with the verified Coq checker `no_overlap_if_interfere` and against the model of the greedy loop."""
import warnings
from contextlib import contextmanager

from . import coqrun


@contextmanager
def observe_concretize(records):
    from vyper.venom.analysis import MemLivenessAnalysis
    from vyper.venom.passes.concretize_mem_loc import ConcretizeMemLocPass
    orig = ConcretizeMemLocPass.run_pass

    def wrapped(self):
        alloc = self.function.ctx.mem_allocator
        ml = self.analyses_cache.request_analysis(MemLivenessAnalysis)
        livesets = list(ml.livesets.items())
        pre = {m: alloc.allocated.get(m) for m, _ in livesets}
        glob = sorted(set(alloc.global_allocation))
        ids = {}
        rows = [(m, [ids.setdefault(id(i), len(ids)) for i in insts]) for m, insts in livesets]
        try:
            mlt = export_memliveness(self, ml)
        except Exception as e:   # exporter does not understand the IR shape: fail closed later
            mlt = {"error": f"{type(e).__name__}: {e}"}
        r = orig(self)
        records.append({"fn": str(self.function.name), "globals": glob, "memliveness": mlt,
                        "rows": [(alloc.allocated[m], m.alloca_size, live, pre[m] is None, pre[m]) for m, live in rows]})
        return r
    ConcretizeMemLocPass.run_pass = wrapped
    try:
        yield
    finally:
        ConcretizeMemLocPass.run_pass = orig


@contextmanager
def record_allocator_calls(traces):
    """log every call of the real venom MemoryAllocator (per instance) as C04/VenomAllocSeq.v vmop terms + returned pointers"""
    from vyper.venom.memory_allocator import MemoryAllocator as MA
    names = ["start_fn_allocation", "reset", "reserve", "reserve_all", "allocate", "add_global", "set_position", "add_allocated"]
    orig = {n: getattr(MA, n) for n in names}

    def tr_of(self):
        t = traces.setdefault(id(self), {"ops": [], "ptrs": [], "ids": {}, "keep": self})
        return t

    def aid(t, alloca):
        return t["ids"].setdefault(alloca, len(t["ids"]))

    def mk(name):
        f = orig[name]

        def w(self, *a):
            t = tr_of(self)
            if name == "start_fn_allocation":
                t["ops"].append("MStartFn")
            elif name == "reset":
                t["ops"].append("MReset")
            elif name == "reserve":
                if not t.get("in_all"):
                    t["ops"].append(f"MReserve {aid(t, a[0])}%nat")
            elif name == "reserve_all":
                t["ops"].append("MReserveAll")
                t["in_all"] = True
                try:
                    return f(self, *a)
                finally:
                    t["in_all"] = False
            elif name == "allocate":
                r = f(self, *a)
                t["ops"].append(f"MAllocate {aid(t, a[0])}%nat {coqrun.hexlit(a[0].alloca_size)}")
                t["ptrs"].append(r)
                return r
            elif name == "add_global":
                t["ops"].append(f"MAddGlobal {aid(t, a[0])}%nat")
            elif name == "set_position":
                t["ops"].append(f"MSetPos {aid(t, a[0])}%nat {coqrun.hexlit(a[1])} {coqrun.hexlit(a[0].alloca_size)}")
            elif name == "add_allocated":
                ids = [aid(t, m) for m in a[0]]
                t["ops"].append("MAddFn [" + "; ".join(f"{i}%nat" for i in ids) + "]")
            return f(self, *a)
        return w
    for n in names:
        setattr(MA, n, mk(n))
    try:
        yield
    finally:
        for n in names:
            setattr(MA, n, orig[n])


class _FA:
    def __init__(self, size):
        self.alloca_size = size


def alloc_sequences(ctx, model_ok, n, traces):
    """exact differential of the state-machine model: random call sequences against the real MemoryAllocator, and the
    call traces recorded while compiling the corpus"""
    from vyper.venom.memory_allocator import MemoryAllocator
    rnd = ctx.rng("vmseq")
    exprs, wants, metas = [], [], []
    for _ in range(n):
        ma = MemoryAllocator()
        allocas, ops, ptrs = [], [], []
        for _ in range(rnd.randint(1, 18)):
            r = rnd.random()
            placed = [k for k, (a, p) in enumerate(allocas) if p]
            if r < 0.4 or not allocas:
                a = _FA(rnd.choice([0, 32, 32, 64, 96, 1, 100, 4096]))
                allocas.append([a, True])
                ptrs.append(ma.allocate(a))
                ops.append(f"MAllocate {len(allocas) - 1}%nat {coqrun.hexlit(a.alloca_size)}")
            elif r < 0.55:
                ma.reset()
                ops.append("MReset")
            elif r < 0.7 and placed:
                k = rnd.choice(placed)
                ma.reserve(allocas[k][0])
                ops.append(f"MReserve {k}%nat")
            elif r < 0.78:
                ma.reserve_all()
                ops.append("MReserveAll")
            elif r < 0.86 and placed:
                k = rnd.choice(placed)
                ma.add_global(allocas[k][0])
                ops.append(f"MAddGlobal {k}%nat")
            elif r < 0.92:
                ma.start_fn_allocation(None)
                ops.append("MStartFn")
            elif r < 0.96:
                a = _FA(rnd.choice([32, 64, 320]))
                pos = 32 * rnd.randint(0, 20)
                allocas.append([a, True])
                ma.set_position(a, pos)
                ops.append(f"MSetPos {len(allocas) - 1}%nat {coqrun.hexlit(pos)} {coqrun.hexlit(a.alloca_size)}")
            elif placed:
                ks = rnd.sample(placed, min(len(placed), rnd.randint(1, 3)))
                ma.add_allocated([allocas[k][0] for k in ks])
                ops.append("MAddFn [" + "; ".join(f"{k}%nat" for k in ks) + "]")
        exprs.append("vm_trace [" + "; ".join(ops) + "]")
        wants.append(ptrs)
        metas.append({"kind": "random call sequence on vyper.venom.memory_allocator.MemoryAllocator", "ops": ops})
    n_real = 0
    for t in traces.values():
        if t["ptrs"] and len(t["ops"]) <= 4000:
            exprs.append("vm_trace [" + "; ".join(t["ops"]) + "]")
            wants.append(t["ptrs"])
            metas.append({"kind": "allocator calls recorded while compiling a corpus contract", "ops": t["ops"][:200]})
            n_real += 1
    found = False
    if model_ok and exprs:
        outs = coqrun.eval_zlists("From Verif Require Import C04.AllocModel C04.VenomAllocSeq.\n", exprs, "c04vmseq",
                                  shard=max(8, len(exprs) // 8 + 1), timeout=600)
        for m, wnt, got in zip(metas, wants, outs):
            if got != wnt:
                ctx.violation("correspondence-broken", "state-machine model of the venom MemoryAllocator differs from the real allocator",
                              dict(m, real=wnt, model=[str(x) for x in got]))
                found = True
                break
    ctx.corr["venom_allocator_sequences"] = {"random": n, "recorded_corpus_traces": n_real,
                                             "allocate_calls": sum(len(w_) for w_ in wants)}
    return len(exprs), found


def export_memliveness(pass_, ml):
    """tables of the REAL MemLivenessAnalysis for the verified checker C04/MemLiveness.v memliveness_check"""
    from vyper.venom.basicblock import IRLabel, IRLiteral
    from vyper.venom.memory_location import get_memory_read_op, get_memory_write_op, get_write_size
    fn = pass_.function
    bbs = list(ml.cfg.dfs_pre_walk)
    ids, insts = {}, []
    for bb in bbs:
        for inst in bb.instructions:
            ids[id(inst)] = len(insts)
            insts.append((bb, inst))
    aid = {}

    def A(alloca):
        return aid.setdefault(alloca, len(aid))
    rows = []
    for k, (bb, inst) in enumerate(insts):
        if inst is bb.instructions[-1]:
            succ = [ids[id(s.instructions[0])] for s in ml.cfg.cfg_out(bb)]
        else:
            succ = [k + 1]
        wptrs = ml._find_base_ptrs(get_memory_write_op(inst))
        rptrs = ml._find_base_ptrs(get_memory_read_op(inst))
        reads = {A(p.base_alloca) for p in rptrs}
        refs = set()
        for op in inst.operands:
            refs |= {A(p.base_alloca) for p in ml._find_base_ptrs(op)}
        if inst.opcode == "invoke":
            label = inst.operands[0]
            assert isinstance(label, IRLabel)
            callee = fn.ctx.get_function(label)
            used_by_callee = {A(m) for m in ml.mem_allocator.mems_used[callee]}
            reads |= used_by_callee | refs
            refs |= used_by_callee
        writes = {A(p.base_alloca) for p in wptrs}
        kill = None
        size = get_write_size(inst)
        if len(wptrs) == 1 and isinstance(size, IRLiteral):
            (wp,) = wptrs
            if size.value == wp.base_alloca.alloca_size:
                kill = A(wp.base_alloca)
        rows.append({"succ": succ, "reads": sorted(reads), "writes": sorted(writes), "refs": sorted(refs | reads | writes), "kill": kill,
                     "liveat": sorted(A(m) for m in ml.liveat[inst]), "used": sorted(A(m) for m in ml.used[inst])})
    livesets = [(A(m), sorted(ids[id(i)] for i in s_ if id(i) in ids)) for m, s_ in ml.livesets.items()]
    return {"rows": rows, "livesets": livesets, "n_allocas": len(aid)}


def memliveness_term(mlt):
    def nl(xs):
        return "[" + "; ".join(f"{x}%nat" for x in xs) + "]"
    rows = "; ".join(f"mkM {nl(r['succ'])} {nl(r['reads'])} {nl(r['writes'])} {nl(r['refs'])} "
                     f"{'(Some ' + str(r['kill']) + '%nat)' if r['kill'] is not None else 'None'} {nl(r['liveat'])} {nl(r['used'])}"
                     for r in mlt["rows"])
    ls = "; ".join(f"({m}%nat, {nl(s_)})" for m, s_ in mlt["livesets"])
    return f"[if memliveness_check [{rows}] [{ls}] then 1 else 0]"


def gen_mem_contract(rnd, idx):
    """several internal functions with local arrays in branches / loops, arrays passed by value"""
    n = rnd.randint(1, 4)
    arg_len = [rnd.randint(1, 4) for _ in range(n)]
    lines = []
    for i in range(n):
        cs = [j for j in range(i) if rnd.random() < 0.5]
        lines.append(f"@internal\ndef f{i}(a: uint256[{arg_len[i]}], b: uint256) -> uint256:")
        lines.append("    r: uint256 = a[0] + b")
        for k in range(rnd.randint(1, 4)):
            m = rnd.randint(1, 8)
            style = rnd.random()
            if style < 0.4:
                lines.append(f"    x{k}: uint256[{m}] = empty(uint256[{m}])\n    x{k}[b % {m}] = r\n    r += x{k}[r % {m}]")
            elif style < 0.7:
                lines.append(f"    if b > {k}:\n        y{k}: uint256[{m}] = empty(uint256[{m}])\n        y{k}[b % {m}] = b\n        r += y{k}[r % {m}]")
            else:
                lines.append(f"    for i{k}: uint256 in range({rnd.randint(1, 3)}):\n        z{k}: DynArray[uint256, {m}] = [b]\n        r += z{k}[0] + i{k}")
        for j in cs:
            lines.append(f"    r += self.f{j}(empty(uint256[{arg_len[j]}]), r)")
        lines.append("    return r")
    lines.append("@external\ndef top(q: uint256) -> uint256:\n    t: uint256[3] = [q, q, q]\n    s: Bytes[40] = b\"abc\"\n    r: uint256 = t[q % 3] + len(s)")
    for j in range(n):
        if rnd.random() < 0.7 or j == n - 1:
            lines.append(f"    r += self.f{j}(empty(uint256[{arg_len[j]}]), r)")
    lines.append("    return r + t[0]")
    return "\n".join(lines) + "\n"


def zl(xs):
    return "[" + "; ".join(coqrun.hexlit(x) for x in xs) + "]"


def run(ctx, model_ok, n):
    from .configs import Config, compile_src
    rnd = ctx.rng("concretize")
    cfgs = [Config(True, "gas", "cancun"), Config(True, "none", "shanghai"), Config(True, "O3", "prague"),
            Config(True, "gas", "prague", flags=["disable_inlining"]), Config(True, "codesize", "cancun", inline_threshold=0),
            Config(True, "gas", "cancun", flags=["disable_mem2var"])]
    exprs, meta = [], []
    n_rows = n_pairs = n_pinned = ml_insts = 0
    traces = {}
    for idx in range(n):
        src = gen_mem_contract(rnd, idx)
        cfg = cfgs[idx % len(cfgs)]
        records = []
        with warnings.catch_warnings():
            warnings.simplefilter("ignore")
            with record_allocator_calls(traces), observe_concretize(records):
                compile_src(src, cfg, formats=("bytecode",))
        for rec in records:
            rows, glob = rec["rows"], rec["globals"]
            detail = {"source": src, "config": cfg.name, "function": rec["fn"], "globals": glob,
                      "allocas (offset, size, liveset, newly placed)": [(o, s, lv, nw) for o, s, lv, nw, _ in rows],
                      "how": "compile with the venom pipeline; ConcretizeMemLocPass.run_pass observed: MemLivenessAnalysis.livesets before, "
                             "mem_allocator.allocated after"}
            lsets = [set(r[2]) for r in rows]
            # ---- property oracle on the real output
            for i in range(len(rows)):
                oi, si, _, ni, _ = rows[i]
                if ni:
                    for (gp, gs) in glob:
                        if max(oi, gp) < min(oi + si, gp + gs):
                            ctx.violation("failing-input", "ConcretizeMemLocPass placed an alloca on a pinned (global) allocation",
                                          dict(detail, alloca=i, pinned=[gp, gs]))
                            return n_rows, True
                for j in range(i + 1, len(rows)):
                    oj, sj, _, nj, _ = rows[j]
                    if (ni or nj) and (lsets[i] & lsets[j]):
                        n_pairs += 1
                        if max(oi, oj) < min(oi + si, oj + sj):
                            ctx.violation("failing-input", "two allocas whose livesets intersect were given overlapping memory",
                                          dict(detail, pair=[i, j]))
                            return n_rows, True
            n_rows += len(rows)
            n_pinned += sum(1 for r in rows if not r[3])
            # ---- MemLivenessAnalysis tables: verified checker of the fixpoint inequations + liveset construction
            mlt = rec.get("memliveness") or {}
            if "error" in mlt:
                ctx.violation("correspondence-broken", "cannot export the MemLivenessAnalysis tables: " + mlt["error"], detail)
                return n_rows, True
            if mlt.get("rows") and len(mlt["rows"]) <= 1500:
                exprs.append(memliveness_term(mlt))
                meta.append((dict(detail, instructions=len(mlt["rows"])), "verified checker memliveness_check (MemLivenessAnalysis fixpoint / livesets)", [1]))
                ml_insts += len(mlt["rows"])
            # ---- verified checker + model of the greedy loop
            arows = "; ".join(f"mkA {coqrun.hexlit(o)} {coqrun.hexlit(s)} {zl(lv)} {'true' if nw else 'false'}" for o, s, lv, nw, _ in rows)
            globs = "[" + "; ".join(f"({coqrun.hexlit(a)}, {coqrun.hexlit(b)})" for a, b in glob) + "]"
            exprs.append(f"[if no_overlap_if_interfere {globs} [{arows}] then 1 else 0]")
            meta.append((detail, "verified checker no_overlap_if_interfere", [1]))
            pinned = [(i, r) for i, r in enumerate(rows) if not r[3]]
            todo = sorted([(i, r) for i, r in enumerate(rows) if r[3]], key=lambda t: len(t[1][2]))
            pairs = [(i, j) for i in range(len(rows)) for j in range(i + 1, len(rows)) if lsets[i] & lsets[j]]
            pin_c = "[" + "; ".join(f"({i}%nat, {coqrun.hexlit(r[4])}, {coqrun.hexlit(r[1])})" for i, r in pinned) + "]"
            todo_c = "[" + "; ".join(f"({i}%nat, {coqrun.hexlit(r[1])})" for i, r in todo) + "]"
            pairs_c = "[" + "; ".join(f"({i}%nat, {j}%nat)" for i, j in pairs) + "]"
            exprs.append(f"concretize_out {pairs_c} {globs} {pin_c} {todo_c}")
            meta.append((detail, "model of the greedy loop (offsets in placement order)", [r[0] for _, r in pinned] + [r[0] for _, r in todo]))
    import time as _t
    ctx.log(f"  venom corpus compiled, {len(exprs)} coq exprs")
    _t0 = _t.time()
    if model_ok and exprs:
        outs = coqrun.eval_zlists("From Verif Require Import C04.AllocModel C04.Concretize C04.MemLiveness.\n", exprs, "c04conc",
                                  shard=max(8, len(exprs) // 8 + 1), timeout=900)
        for (detail, what, want), got in zip(meta, outs):
            if got != want:
                ctx.violation("correspondence-broken", f"{what} disagrees with the real ConcretizeMemLocPass output",
                              dict(detail, real=want, coq=[str(x) for x in got]))
                return n_rows, True
    ctx.log(f"  concretize/memliveness eval {_t.time() - _t0:.1f}s")
    _t0 = _t.time()
    nseq, fseq = alloc_sequences(ctx, model_ok, 60 if n < 100 else 600, traces)
    ctx.log(f"  allocator sequences {_t.time() - _t0:.1f}s")
    if fseq:
        return n_rows, True
    ctx.corr["concretize"] = {"contracts": n, "allocas": n_rows, "interfering_pairs_checked": n_pairs, "pinned": n_pinned, "memliveness_instructions_checked": ml_insts,
                              "configs": [c.name for c in cfgs]}
    return n_rows, False
