"""C14I: Mem2Var observer / validator glue (see c14i_part.py)."""
from contextlib import contextmanager


@contextmanager
def wrap(obs):
    yield


def run_families(obs, fams, ctx):
    pass


def report(ctx, obs, quick, rnd):
    return 0
