"""C14I: observation of Mem2Var (filled in below)."""
from contextlib import contextmanager


@contextmanager
def wrap(obs):
    yield
