"""C14I: Mem2Var observer / validator glue (see c14i_part.py).

Mem2Var._process_alloca_var is wrapped: the function before and after, the alloca variable %p, the new variable %x and an
(untrusted) "definitely stored" certificate are exported and coq/C14I/M2V.v mem2var_check is evaluated by vm_compute."""
from contextlib import contextmanager


def stored_certificate(fe, pname):
    """blocks at whose entry the cell has certainly been written (greatest fixpoint of the forward must-analysis);
    mirrors M2V.v: predecessors = blocks whose LAST instruction mentions the block's label"""
    from vyper.venom.basicblock import IRLabel, IRVariable
    rows = fe.rows
    n = len(rows)

    def is_cstore(r):
        op, ops, outs = r
        return (op == "mstore" and len(ops) == 2 and isinstance(ops[1], IRVariable) and ops[1].value == pname
                and not (isinstance(ops[0], IRVariable) and ops[0].value == pname) and not outs)
    has_store = [any(is_cstore(r) for r in rs) for _, rs in rows]
    preds = [[] for _ in range(n)]
    for q, (_, rs) in enumerate(rows):
        if rs:
            for o in rs[-1][1]:
                if isinstance(o, IRLabel) and o.value in fe.lab:
                    preds[fe.lab[o.value]].append(q)
    sin = [True] * n
    if n:
        sin[0] = False
    changed = True
    while changed:
        changed = False
        for b in range(1, n):
            v = all(sin[q] or has_store[q] for q in preds[b])
            if v != sin[b]:
                sin[b] = v
                changed = True
    return [b for b in range(n) if sin[b]]


class _Skip(Exception):
    pass


@contextmanager
def wrap(obs):
    from vyper.venom.basicblock import IRLiteral
    from vyper.venom.passes.mem2var import Mem2Var
    from .c14i_part import FnExport
    orig = Mem2Var._process_alloca_var
    obs.m2v_seen = obs.m2v_cand = obs.m2v_unchanged = 0
    obs.m2v_stride = getattr(obs, "m2v_stride", 1)

    def proc(self, dfg, alloca_inst, var):
        fe = None
        try:
            fn = self.function
            obs.m2v_seen += 1
            var_ids, foreign = {}, {}
            fids = {f.name.value: i for i, f in enumerate(fn.ctx.functions.values())} if getattr(fn, "ctx", None) is not None else {}
            fe = FnExport(fn, var_ids, fids, foreign)       # cheap snapshot; rendered only if the pass changes the function
            count = self.var_name_count
        except Exception as e:
            obs.errors.append(f"mem2var export: {type(e).__name__}: {e}")
        r = orig(self, dfg, alloca_inst, var)
        if fe is not None:
            try:
                fe2 = FnExport(fe.fn, var_ids, fids, foreign)
                if fe2.rows == fe.rows:
                    obs.m2v_unchanged += 1
                    return r
                obs.m2v_cand += 1
                if obs.origin and obs.origin.startswith("corpus:") and obs.m2v_stride > 1 and obs.m2v_cand % obs.m2v_stride != 0:
                    return r
                if fe.ninsts() > obs.max_insts:
                    obs.skipped_big += 1
                    return r
                size = alloca_inst.operands[0]
                pname = alloca_inst.output.value
                rec = {"name": fe.name, "p_name": pname, "F": fe.term(), "F_text": fe.text(), "p": fe.v(alloca_inst.output),
                       "size": size.value if isinstance(size, IRLiteral) else None, "entry_first": fe.entry_first,
                       "S": stored_certificate(fe, pname), "ninsts": fe.ninsts(), "origin": obs.origin, "promoted": True,
                       "F2": fe2.term(), "F2_text": fe2.text()}
                xname = "%alloca_" + pname.removeprefix("%") + "_" + str(count)
                if xname not in var_ids:
                    var_ids[xname] = len(var_ids)
                rec["x"], rec["x_name"] = var_ids[xname], xname
                obs.m2v.append(rec)
            except Exception as e:
                obs.errors.append(f"mem2var export (after): {type(e).__name__}: {e}")
        return r
    Mem2Var._process_alloca_var = proc
    try:
        yield
    finally:
        Mem2Var._process_alloca_var = orig


def m2v_expr(rec):
    s = "[" + "; ".join(f"{b}%nat" for b in rec["S"]) + "]"
    return (f"[if mem2var_domain {rec['F']} {rec['p']}%N {rec['x']}%N then 1 else 0; "
            f"if mem2var_check {rec['F']} {rec['p']}%N {rec['x']}%N {s} {rec['F2']} then 1 else 0]")


def run_families(obs, fams, ctx):
    from vyper.venom.analysis import IRAnalysesCache
    from vyper.venom.parser import parse_venom
    from vyper.venom.passes.mem2var import Mem2Var
    obs.m2v_inputs = {}
    for k, pr in enumerate(fams):
        obs.origin = f"family:{pr['name']}#{k}"
        obs.m2v_inputs[obs.origin] = (pr["inputs"], pr["text"])
        try:
            vctx = parse_venom(pr["text"])
            for fn in vctx.functions.values():
                Mem2Var(IRAnalysesCache(fn), fn).run_pass()
            obs.m2v_after = getattr(obs, "m2v_after", {})
            obs.m2v_after[obs.origin] = {f.name.value: str(f) for f in vctx.functions.values()}
        except Exception as e:
            ctx.violation("failing-input", f"Mem2Var raises {type(e).__name__} on a well-formed hand-written function",
                          {"venom": pr["text"], "error": str(e)[:300]}, key="c14i:m2v:exception:" + type(e).__name__)


def search_m2v(ctx, obs, rec):
    """differential run (Coq Venom semantics of the pass-level part) of the hand-written context before / after Mem2Var"""
    if rec["origin"] not in getattr(obs, "m2v_inputs", {}):
        return None
    inputs, text = obs.m2v_inputs[rec["origin"]]
    try:
        from vyper.venom.parser import parse_venom
        from vlib import c14_pass_sem as SEM
        before = {f.name.value: str(f) for f in parse_venom(text).functions.values()}
        after = obs.m2v_after[rec["origin"]]
        res = SEM.context_differential(before, after, inputs, top="main", tag="c14im")
        for i, j, code, why in res:
            if code == 2:
                return {"input": inputs[i], "observations": str(why)[:1500], "context_before": before, "context_after": after}
        stuck = [(i, why) for i, j, code, why in res if code == 1]
        if stuck:
            ref = SEM.context_differential(before, before, inputs, top="main", tag="c14im")
            fine = {i for i, j, code, why in ref if code == 0}
            for i, why in stuck:
                if i in fine:
                    return {"input": inputs[i], "context_before": before, "context_after": after,
                            "observations": "the function before the pass runs to completion in the Coq Venom semantics, after the pass it gets stuck (" + str(why)[:300] + ")"}
        return {"not_comparable": [str(w)[:200] for _, _, c, w in res if c == 1][:3]}
    except Exception as e:
        ctx.log(f"c14i m2v search failed: {type(e).__name__}: {str(e)[:200]}")
        return None


def report(ctx, obs, quick, rnd):
    from .c14i_part import evaluate
    from .common import COQ
    recs = obs.m2v
    stats = {"allocas_seen": obs.m2v_seen, "function_unchanged": obs.m2v_unchanged, "function_changed": obs.m2v_cand, "sampling_stride_corpus": obs.m2v_stride,
             "exported": len(recs), "promoted": sum(1 for r in recs if r["promoted"]), "accepted": 0, "rejected": 0, "unsupported": 0,
             "not_promoted": sum(1 for r in recs if not r["promoted"]), "unsupported_reasons": {},
             "family_promotions": 0, "corpus_promotions": 0}
    prom = [r for r in recs if r["promoted"]]
    cap = 60 if quick else 800
    if len(prom) > cap:
        fam = [r for r in prom if r["origin"].startswith("family:")]
        rest = sorted([r for r in prom if not r["origin"].startswith("family:")], key=lambda r: -r["ninsts"])
        keep = max(0, cap - len(fam))
        prom = fam + rest[:keep // 2] + rnd.sample(rest[keep // 2:], min(len(rest) - keep // 2, keep - keep // 2))
    stats["checked"] = len(prom)
    found = False
    if prom and (COQ / "C14I" / "M2V.vo").exists():
        try:
            res = evaluate([m2v_expr(r) for r in prom], "c14i_m2v", shard=min(40, max(4, len(prom) // 6 + 1)), timeout=1200)
        except RuntimeError as e:
            res = []
            ctx.violation("correspondence-broken", "the mem2var validator could not be evaluated on the exported promotions", {"error": str(e)[-1500:]})
        rejected = []
        for r, v in zip(prom, res):
            stats["family_promotions" if r["origin"].startswith("family:") else "corpus_promotions"] += 1
            if len(v) >= 2 and v[1] == 1:
                stats["accepted"] += 1
            elif r["size"] != 32 or not r["entry_first"]:
                stats["unsupported"] += 1
                why = "alloca size is not 32" if r["size"] != 32 else "entry block is not the first block"
                stats["unsupported_reasons"][why] = stats["unsupported_reasons"].get(why, 0) + 1
            else:
                # a promoted 32-byte alloca that the validator does not accept: pointer used elsewhere (escape), a read that is not
                # preceded by a write on every path, or an output that is not the specified rewrite
                stats["rejected"] += 1
                r["in_domain"] = bool(v and v[0] == 1)
                rejected.append(r)
        rejected.sort(key=lambda r: (not r["origin"].startswith("family:"), r["ninsts"]))
        pending = []
        for r in rejected[:6]:
            hit = search_m2v(ctx, obs, r)
            detail = {"origin": r["origin"], "function": r["name"], "alloca": r["p_name"], "new_variable": r.get("x_name"), "in_validator_domain": r["in_domain"],
                      "stored_certificate_blocks": r["S"], "before": r["F_text"][:6000], "after": r["F2_text"][:6000]}
            if hit and "input" in hit:
                found = True
                ctx.violation("failing-input", "Mem2Var changes the behaviour of the function: it promoted an alloca that mem2var_check does not accept "
                              "(address used other than as the address of a full-word mload/mstore/return, or a read not preceded by a write, or "
                              "a wrong rewrite) and the function behaves differently on this input", dict(detail, **hit),
                              key=("C14I:mem2var-pointer-stored-as-value" if ("escape_store" in r["origin"] or "escape_retsize" in r["origin"]) else "c14i:m2v:" + r["origin"].split("#")[0]))
                break
            pending.append(dict(detail, theorem="mem2var_check_sound (mem2var_check = false for a promoted alloca of size 32)", search=hit))
        if not found:
            for d_ in pending[:2]:
                ctx.violation("theorem-broken", "mem2var_check_sound does not apply: Mem2Var promoted an alloca whose accesses are not all full-word "
                              "mload / mstore / return at its base (or a read is not dominated by a write, or the rewrite is not the specified one)", d_)
    ctx.corr["mem2var"] = stats
    return stats["accepted"]
