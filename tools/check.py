#!/usr/bin/env python3
"""Entry point: check.py <property-id> [--tier quick|thorough] [--replay file]"""
import importlib
import os
import sys
from pathlib import Path

HERE = Path(__file__).resolve().parent
sys.path.insert(0, str(HERE))
VENV_PY = "/venv/bin/python"


def reexec():
    # run under the interpreter that has the repository's dependencies, with pinned env
    if os.environ.get("VERIF_REEXEC") != "1":
        env = dict(os.environ)
        env["VERIF_REEXEC"] = "1"
        env["PYTHONHASHSEED"] = env.get("VERIF_HASHSEED", "0")
        env["PYTHONPATH"] = os.environ.get("VERIF_REPO", "/repo")
        env["PYTHONDONTWRITEBYTECODE"] = "1"
        env["VYPER_VERIF"] = "1"
        py = VENV_PY if os.path.exists(VENV_PY) else sys.executable
        os.execve(py, [py, str(Path(__file__).resolve())] + sys.argv[1:], env)


def main():
    if len(sys.argv) < 2:
        print("usage: check.py <Cxx> [--tier quick|thorough] [--replay file]")
        return 2
    reexec()
    pid = sys.argv[1]
    from vlib import report
    mod = importlib.import_module(f"checks.{pid.lower()}")
    if "--prebuild" in sys.argv:
        # used by setup_cmd: generate + compile once, so later runs can reuse byte-identical inputs
        from vlib.common import pin_env
        pin_env()
        if hasattr(mod, "prebuild"):
            mod.prebuild(report.Ctx(pid, "quick"))
        return 0
    return report.main(pid, mod.run, level=getattr(mod, "LEVEL", "proof"))


if __name__ == "__main__":
    sys.exit(main())
