#!/usr/bin/env python3
"""For every seeded change run the checks of all properties anchored in the files it touches
(plus the property it was written for) and record which checks report it.
usage: seed_matrix.py [seed_dir ...]   (default: all of /verif/seeded/*)"""
import json
import os
import re
import subprocess
import sys
from pathlib import Path

V = Path("/verif")
COPY = os.environ.get("VERIF_COPY", "/tmp/mv/verif")
props = [json.loads(l) for l in (V / "properties.jsonl").read_text().splitlines() if l.strip()]


def related(patch_text, primary):
    files = re.findall(r"^\+\+\+ b/(\S+)", patch_text, re.M)
    out = [primary]
    for p in props:
        for a in p["anchors"]["files"]:
            a = a.rstrip("/")
            if any(f == a or f.startswith(a + "/") or (a.endswith("/") and f.startswith(a)) for f in files):
                if p["id"] not in out:
                    out.append(p["id"])
    # the general behavioural checks see most code-generation changes
    for g in ("C01", "C02"):
        if g not in out and any(f.startswith(("vyper/codegen", "vyper/venom", "vyper/ir", "vyper/evm", "vyper/builtins")) for f in files):
            out.append(g)
    return out


def main():
    seeds = [Path(a) for a in sys.argv[1:]] or sorted((V / "seeded").glob("*_m*"))
    for sd in seeds:
        meta = json.loads((sd / "meta.json").read_text())
        primary = sd.name.split("_")[0]
        patch = (sd / "patch.diff").read_text()
        todo = related(patch, primary)
        wt = Path("/tmp/mv") / ("mx_" + sd.name)
        subprocess.run(["git", "-C", "/repo", "worktree", "remove", "--force", str(wt)], capture_output=True)
        subprocess.run(["git", "-C", "/repo", "worktree", "add", "-q", "--detach", str(wt), "HEAD"], check=True)
        try:
            ap = subprocess.run(["git", "-C", str(wt), "apply", str(sd / "patch.diff")], capture_output=True, text=True)
            if ap.returncode != 0:
                meta["matrix"] = {"error": "patch does not apply to current /repo HEAD: " + ap.stderr[-200:]}
                continue
            res = {}
            for pid in todo:
                ck = subprocess.run(["timeout", "1800", "python3", "tools/check.py", pid, "--tier", "quick"], capture_output=True, text=True,
                                    cwd=COPY, env=dict(os.environ, VERIF_REPO=str(wt)))
                out = ck.stdout + ck.stderr
                viol = [l for l in out.splitlines() if l.startswith("VIOLATION")]
                if not viol:
                    res[pid] = "silent"
                elif all("no-failing-input-found" in v for v in viol):
                    res[pid] = "reported (no failing input)"
                else:
                    res[pid] = "reported with failing input"
                print(sd.name, pid, res[pid], flush=True)
            meta["matrix"] = {"repo_commit": subprocess.run(["git", "-C", "/repo", "rev-parse", "--short", "HEAD"], capture_output=True, text=True).stdout.strip(),
                              "verif_commit": subprocess.run(["git", "-C", COPY, "rev-parse", "--short", "HEAD"], capture_output=True, text=True).stdout.strip(),
                              "checks": res}
        finally:
            subprocess.run(["git", "-C", "/repo", "worktree", "remove", "--force", str(wt)], capture_output=True)
            (sd / "meta.json").write_text(json.dumps(meta, indent=1))


if __name__ == "__main__":
    main()
